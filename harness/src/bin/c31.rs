//! C31 — fetching and cloning reproduce the server's objects and references.
//!
//! `fetch`: a server history (commit DAG, branches, lightweight/annotated tags) is imported with `git fast-import`; the
//! server is put into state S1, a bare client is prepared from it with real git (empty / stale / partially fetched /
//! shallow, optionally with a long private branch so that negotiation needs several rounds), the server moves to S2
//! (fast-forwards, rewinds, divergent rewrites, new and deleted branches, moved/new/deleted tags), and the client is
//! copied: copy A is updated by gitoxide (`find_remote("origin").connect(Fetch).prepare_fetch().receive()`), copy B by
//! `git fetch origin` with the same configuration (`remote.origin.fetch`, `tagOpt`, `protocol.version`,
//! `fetch.negotiationAlgorithm`, `--depth/--deepen`). Oracles: `git fsck` (connectivity and full) on A, refs of A ==
//! refs of B, shallow boundaries equal, every reachable object of A is readable through gitoxide and hashes to its id.
//!
//! `clone`: `gix::clone::PrepareFetch` (bare / with worktree, optional depth) against `git clone`.
use bstr::{ByteSlice, ByteVec};
use gix::remote::Direction;
use std::collections::{BTreeMap, BTreeSet};
use std::ffi::OsString;
use std::path::{Path, PathBuf};
use std::sync::atomic::AtomicBool;
use vp::*;

/// Make the environment inherited by `git-upload-pack` (spawned by gitoxide's file transport) hermetic.
/// Called exactly once, first thing in `main`, before any thread exists.
fn hermetic_env() {
    let drop: Vec<OsString> = std::env::vars_os()
        .map(|(k, _)| k)
        .filter(|k| {
            let k = k.to_string_lossy();
            k.starts_with("GIT_") || k.starts_with("XDG_") || k == "SSH_ASKPASS" || k == "EMAIL"
        })
        .collect();
    for k in drop {
        std::env::remove_var(k);
    }
    let home = vp::git::scratch_root().join("home-c31");
    let _ = std::fs::create_dir_all(&home);
    std::env::set_var("HOME", &home);
    std::env::set_var("PATH", "/usr/local/bin:/usr/bin:/bin");
    std::env::set_var("GIT_CONFIG_NOSYSTEM", "1");
    std::env::set_var("GIT_CONFIG_GLOBAL", "/dev/null");
    std::env::set_var("GIT_TERMINAL_PROMPT", "0");
    std::env::set_var("LC_ALL", "C");
    std::env::set_var("TZ", "UTC");
}

// ------------------------------------------------------------------------------------------------
// scenario model

#[derive(Debug, Clone, Hash, PartialEq, Eq)]
struct Commit {
    parents: Vec<usize>,
    time: i64,
}

#[derive(Debug, Clone, Hash, PartialEq, Eq)]
struct TagVal {
    /// index into `History::tag_objs` if annotated
    annotated: Option<usize>,
    commit: usize,
}

#[derive(Debug, Clone, Hash, PartialEq, Eq, Default)]
struct RefState {
    branches: BTreeMap<String, usize>,
    tags: BTreeMap<String, TagVal>,
}

#[derive(Debug, Clone, Hash, PartialEq, Eq)]
struct History {
    commits: Vec<Commit>,
    /// number of commits that exist "at S1" (only those are pointed to by S1 refs)
    n1: usize,
    /// annotated tag objects: the commit each points to
    tag_objs: Vec<usize>,
    s1: RefState,
    s2: RefState,
    head: String,
}

const BRANCHES: &[&str] = &["main", "dev", "feat/a", "b1", "b2", "rel/1.0", "bugfix"];
const TAGS: &[&str] = &["v1", "v2", "rc/1", "t-light", "v3"];

fn ancestors(h: &History, tip: usize) -> BTreeSet<usize> {
    let mut seen = BTreeSet::new();
    let mut stack = vec![tip];
    while let Some(c) = stack.pop() {
        if seen.insert(c) {
            stack.extend(h.commits[c].parents.iter().copied());
        }
    }
    seen
}

fn gen_history(t: &mut Tape, large: bool) -> History {
    let n1 = if large { t.range(40, 110) } else { t.range(1, 24) };
    let n2 = t.weighted(&[2, 3, 3, 2, 1, 1, 1, 1, 1]) + if large && t.bool() { t.range(0, 30) } else { 0 };
    let n = n1 + n2;
    let mut commits: Vec<Commit> = Vec::new();
    let mut time = 1_200_000_000i64;
    for i in 0..n {
        let parents = if i == 0 {
            vec![]
        } else {
            match t.weighted(&[12, 5, 3, 1]) {
                0 => vec![i - 1],
                1 => vec![t.below(i)],
                2 => {
                    let a = i - 1;
                    let b = t.below(i);
                    if a == b {
                        vec![a]
                    } else {
                        vec![a, b]
                    }
                }
                _ => vec![],
            }
        };
        // mostly increasing commit times, some equal, a few skewed into the past
        match t.weighted(&[10, 2, 1]) {
            0 => time += 60 + t.below(200) as i64,
            1 => {}
            _ => time -= 30 + t.below(5000) as i64,
        }
        commits.push(Commit { parents, time });
    }
    let mut h = History {
        commits,
        n1,
        tag_objs: vec![],
        s1: RefState::default(),
        s2: RefState::default(),
        head: String::new(),
    };
    // S1 refs
    let nb = t.range(1, 4);
    for k in 0..nb {
        let name = if k == 0 && !t.chance(40) { "main" } else { *t.pick(BRANCHES) };
        // prefer recent commits
        let c = if t.chance(150) { n1 - 1 - t.below(n1.min(3)) } else { t.below(n1) };
        h.s1.branches.insert(name.to_string(), c);
    }
    let nt = t.weighted(&[3, 3, 2, 1]);
    for _ in 0..nt {
        let name = *t.pick(TAGS);
        let c = t.below(n1);
        let annotated = t.bool().then(|| {
            h.tag_objs.push(c);
            h.tag_objs.len() - 1
        });
        h.s1.tags.insert(name.to_string(), TagVal { annotated, commit: c });
    }
    h.head = h.s1.branches.keys().next().cloned().unwrap_or_default();
    if let Some(m) = h.s1.branches.keys().find(|k| *k == "main") {
        h.head = m.clone();
    }
    // S2 = S1 + updates
    h.s2 = h.s1.clone();
    let s1_branches: Vec<(String, usize)> = h.s1.branches.iter().map(|(k, v)| (k.clone(), *v)).collect();
    for (name, at) in s1_branches {
        match t.weighted(&[3, 5, 2, 2, 1]) {
            0 => {}
            1 => {
                // towards the new commits (usually a fast-forward)
                if n2 > 0 {
                    h.s2.branches.insert(name, n1 + t.below(n2));
                } else {
                    h.s2.branches.insert(name, t.below(n));
                }
            }
            2 => {
                // rewind to an ancestor
                let anc: Vec<usize> = ancestors(&h, at).into_iter().filter(|c| *c != at).collect();
                if !anc.is_empty() {
                    h.s2.branches.insert(name, *t.pick(&anc));
                }
            }
            3 => {
                h.s2.branches.insert(name, t.below(n));
            }
            _ => {
                h.s2.branches.remove(&name);
            }
        }
    }
    for _ in 0..t.weighted(&[4, 3, 1]) {
        let name = *t.pick(BRANCHES);
        if !h.s2.branches.contains_key(name) {
            h.s2.branches.insert(name.to_string(), t.below(n));
        }
    }
    let s1_tags: Vec<String> = h.s1.tags.keys().cloned().collect();
    for name in s1_tags {
        match t.weighted(&[5, 2, 1]) {
            0 => {}
            1 => {
                let c = t.below(n);
                let annotated = t.bool().then(|| {
                    h.tag_objs.push(c);
                    h.tag_objs.len() - 1
                });
                h.s2.tags.insert(name, TagVal { annotated, commit: c });
            }
            _ => {
                h.s2.tags.remove(&name);
            }
        }
    }
    for _ in 0..t.weighted(&[3, 3, 1]) {
        let name = *t.pick(TAGS);
        if !h.s2.tags.contains_key(name) {
            let c = t.below(n);
            let annotated = (!t.chance(90)).then(|| {
                h.tag_objs.push(c);
                h.tag_objs.len() - 1
            });
            h.s2.tags.insert(name.to_string(), TagVal { annotated, commit: c });
        }
    }
    if h.s2.branches.is_empty() {
        // keep at least one branch so that there is something to fetch
        h.s2.branches.insert("main".into(), t.below(n));
    }
    h
}

#[derive(Debug, Clone, Copy, Hash, PartialEq, Eq)]
enum TagOpt {
    Follow,
    NoTags,
    AllTags,
}

#[derive(Debug, Clone, Copy, Hash, PartialEq, Eq)]
enum ClientInit {
    Empty,
    /// fetched at S1 with the same configuration
    Stale,
    /// fetched one branch at S1, without tags
    Partial,
    /// fetched at S1 with --depth
    StaleShallow(u32),
}

#[derive(Debug, Clone, Copy, Hash, PartialEq, Eq)]
enum ShallowOp {
    None,
    Depth(u32),
    Deepen(u32),
}

#[derive(Debug, Clone, Hash, PartialEq, Eq)]
struct Scenario {
    history: History,
    specs: Vec<String>,
    tagopt: TagOpt,
    init: ClientInit,
    private_commits: usize,
    protocol: u8,
    negotiation: &'static str,
    shallow: ShallowOp,
    file_url: bool,
}

fn gen_specs(t: &mut Tape, h: &History) -> (Vec<String>, &'static str) {
    let any_branch = |t: &mut Tape| -> String {
        let mut names: Vec<&String> = h.s1.branches.keys().chain(h.s2.branches.keys()).collect();
        names.sort();
        names.dedup();
        (*t.pick(&names)).clone()
    };
    match t.weighted(&[6, 4, 3, 2, 2, 2, 2, 2]) {
        0 => (vec!["+refs/heads/*:refs/remotes/origin/*".into()], "spec-default"),
        1 => (vec!["refs/heads/*:refs/remotes/origin/*".into()], "spec-non-forced-glob"),
        2 => {
            let mut v = Vec::new();
            for _ in 0..t.range(1, 2) {
                let b = any_branch(t);
                let s = format!("{}refs/heads/{b}:refs/remotes/origin/{b}", if t.bool() { "+" } else { "" });
                if !v.iter().any(|e: &String| e.ends_with(&format!(":refs/remotes/origin/{b}"))) {
                    v.push(s);
                }
            }
            (v, "spec-explicit-branches")
        }
        3 => (
            vec![
                "+refs/heads/b*:refs/remotes/r/x*".into(),
                "refs/heads/m*:refs/remotes/r/m/*".into(),
            ],
            "spec-glob-rename",
        ),
        4 => (
            vec![
                format!("{}refs/tags/*:refs/tags/*", if t.bool() { "+" } else { "" }),
                "+refs/heads/*:refs/remotes/origin/*".into(),
            ],
            "spec-explicit-tags",
        ),
        5 => (
            vec![
                "+refs/heads/*:refs/remotes/origin/*".into(),
                format!("^refs/heads/{}", any_branch(t)),
            ],
            "spec-negative",
        ),
        6 => (vec!["+refs/*:refs/*".into()], "spec-mirror"),
        _ => (vec!["refs/heads/*:refs/heads/*".into()], "spec-into-local-branches"),
    }
}

fn gen_scenario(t: &mut Tape, c: &mut Case) -> Scenario {
    let large = t.chance(30);
    let history = gen_history(t, large);
    let (specs, spec_label) = gen_specs(t, &history);
    c.label(spec_label);
    let mut tagopt = *t.pick(&[TagOpt::Follow, TagOpt::Follow, TagOpt::NoTags, TagOpt::AllTags]);
    if specs.iter().any(|s| s.contains("refs/tags/") || s.contains("refs/*")) {
        // explicit tag destinations: avoid duplicate mappings through the implicit tag spec
        tagopt = TagOpt::NoTags;
    }
    if tagopt == TagOpt::Follow && specs.iter().any(|s| s.starts_with('^')) {
        // git collects the tags to follow BEFORE it prunes the ref map with negative refspecs, so a tag on the tip of an
        // excluded branch is still fetched (with that tip). An ordering quirk, not something to hold gitoxide to.
        tagopt = TagOpt::NoTags;
    }
    let mut init = match t.weighted(&[2, 6, 3, 2]) {
        0 => ClientInit::Empty,
        1 => ClientInit::Stale,
        2 => ClientInit::Partial,
        _ => ClientInit::StaleShallow(t.range(1, 3) as u32),
    };
    let mut shallow = match (init, t.weighted(&[8, 2, 1])) {
        (_, 0) => ShallowOp::None,
        (_, 1) => ShallowOp::Depth(t.range(1, 4) as u32),
        (ClientInit::StaleShallow(_), _) => ShallowOp::Deepen(t.range(1, 3) as u32),
        _ => ShallowOp::None,
    };
    if shallow != ShallowOp::None || matches!(init, ClientInit::StaleShallow(_)) {
        // keep the shallow class free of tag-following subtleties
        tagopt = TagOpt::NoTags;
    }
    if specs.iter().any(|s| s == "+refs/*:refs/*" || s == "refs/heads/*:refs/heads/*") && matches!(init, ClientInit::Partial) {
        init = ClientInit::Stale;
    }
    let mut history = history;
    let mut specs = specs;
    if shallow != ShallowOp::None {
        // git only asks (and thus only deepens/shortens) for refs whose local counterpart differs, gitoxide re-wants
        // every mapped ref when a depth is given (deliberate, see negotiate::add_wants). Keep the two comparable: only
        // branches are mapped, and every branch the client may already track moves.
        if specs.iter().any(|s| s.contains("refs/tags/") || s.contains("refs/*")) {
            specs = vec!["+refs/heads/*:refs/remotes/origin/*".into()];
        }
        let n = history.commits.len();
        if n < 2 {
            shallow = ShallowOp::None;
        } else if init != ClientInit::Empty {
            let unchanged: Vec<String> = history
                .s2
                .branches
                .iter()
                .filter(|(k, v)| history.s1.branches.get(*k) == Some(*v))
                .map(|(k, _)| k.clone())
                .collect();
            for name in unchanged {
                let cur = history.s2.branches[&name];
                history.s2.branches.insert(name, (cur + 1 + t.below(n - 1)) % n);
            }
        }
    }
    let private_commits = if t.chance(60) { t.range(17, 70) } else { 0 };
    if private_commits > 0 && matches!(init, ClientInit::StaleShallow(_)) {
        shallow = ShallowOp::None;
    }
    let protocol = *t.pick(&[2u8, 2, 1, 0]);
    let negotiation = *t.pick(&["", "", "consecutive", "skipping", "noop"]);
    Scenario {
        history,
        specs,
        tagopt,
        init,
        private_commits,
        protocol,
        negotiation,
        shallow,
        file_url: true,
    }
}

// ------------------------------------------------------------------------------------------------
// building

struct ServerIds {
    commits: Vec<String>,
    tag_objs: Vec<String>,
}

fn blob_content(i: usize) -> String {
    let mut s = String::new();
    for k in 0..20 {
        s.push_str(&format!("common line {k} of the file\n"));
    }
    s.push_str(&format!("changed by commit {i}\n"));
    s
}

fn import_history(git: &Git, scratch: &Path, h: &History) -> Result<ServerIds, String> {
    let mut fi: Vec<u8> = Vec::new();
    for (i, c) in h.commits.iter().enumerate() {
        fi.push_str(format!("reset refs/tmp/w\ncommit refs/tmp/w\nmark :{}\n", 10 + i));
        fi.push_str(format!("committer C <c@example.com> {} +0000\n", c.time));
        let msg = format!("commit {i}");
        fi.push_str(format!("data {}\n{}\n", msg.len(), msg));
        for (k, p) in c.parents.iter().enumerate() {
            fi.push_str(format!("{} :{}\n", if k == 0 { "from" } else { "merge" }, 10 + p));
        }
        let content = blob_content(i);
        fi.push_str(format!("M 100644 inline dir/f{}\ndata {}\n{}\n", i % 4, content.len(), content));
        if i % 3 == 0 {
            let content = format!("only {i}\n");
            fi.push_str(format!("M 100644 inline top{}\ndata {}\n{}\n", i % 2, content.len(), content));
        }
    }
    for (i, commit) in h.tag_objs.iter().enumerate() {
        fi.push_str(format!(
            "tag __t{i}\nmark :{}\nfrom :{}\ntagger T <t@example.com> {} +0000\ndata 4\ntag\n\n",
            100_000 + i,
            10 + commit,
            1_300_000_000 + i
        ));
    }
    let marks_path = scratch.join("marks");
    git.run_in(
        [
            OsString::from("fast-import"),
            OsString::from("--quiet"),
            OsString::from("--date-format=raw"),
            OsString::from(format!("--export-marks={}", marks_path.display())),
        ],
        Some(&fi),
    )?;
    let marks = std::fs::read_to_string(&marks_path).map_err(|e| format!("read marks: {e}"))?;
    let mut ids: BTreeMap<usize, String> = BTreeMap::new();
    for line in marks.lines() {
        let (m, id) = line.split_once(' ').ok_or("bad marks line")?;
        ids.insert(m.trim_start_matches(':').parse().map_err(|_| "bad mark")?, id.to_string());
    }
    let get = |m: usize| ids.get(&m).cloned().ok_or_else(|| format!("mark {m} missing"));
    let out = ServerIds {
        commits: (0..h.commits.len()).map(|i| get(10 + i)).collect::<Result<_, _>>()?,
        tag_objs: (0..h.tag_objs.len()).map(|i| get(100_000 + i)).collect::<Result<_, _>>()?,
    };
    // remove the helper refs
    let mut upd = String::from("delete refs/tmp/w\n");
    for i in 0..h.tag_objs.len() {
        upd.push_str(&format!("delete refs/tags/__t{i}\n"));
    }
    git.run_in(["update-ref", "--stdin"], Some(upd.as_bytes()))?;
    Ok(out)
}

fn set_refs(git: &Git, ids: &ServerIds, from: Option<&RefState>, to: &RefState) -> Result<(), String> {
    let mut upd = String::new();
    let val = |t: &TagVal| match t.annotated {
        Some(i) => ids.tag_objs[i].clone(),
        None => ids.commits[t.commit].clone(),
    };
    if let Some(from) = from {
        for name in from.branches.keys().filter(|k| !to.branches.contains_key(*k)) {
            upd.push_str(&format!("delete refs/heads/{name}\n"));
        }
        for name in from.tags.keys().filter(|k| !to.tags.contains_key(*k)) {
            upd.push_str(&format!("delete refs/tags/{name}\n"));
        }
    }
    for (name, c) in &to.branches {
        upd.push_str(&format!("update refs/heads/{name} {}\n", ids.commits[*c]));
    }
    for (name, t) in &to.tags {
        upd.push_str(&format!("update refs/tags/{name} {}\n", val(t)));
    }
    git.run_in(["update-ref", "--stdin"], Some(upd.as_bytes()))?;
    Ok(())
}

fn copy_dir(from: &Path, to: &Path) -> std::io::Result<()> {
    std::fs::create_dir_all(to)?;
    for e in std::fs::read_dir(from)? {
        let e = e?;
        let ty = e.file_type()?;
        let dst = to.join(e.file_name());
        if ty.is_dir() {
            copy_dir(&e.path(), &dst)?;
        } else if ty.is_file() {
            std::fs::copy(e.path(), &dst)?;
        }
    }
    Ok(())
}

/// name -> object id of every ref (symbolic refs by value), via git
fn refs_of(git: &Git) -> Result<BTreeMap<String, String>, String> {
    let out = git.run(["for-each-ref", "--format=%(refname) %(objectname)"])?;
    let mut m = BTreeMap::new();
    for l in String::from_utf8_lossy(&out).lines() {
        let (n, id) = l.rsplit_once(' ').ok_or_else(|| format!("bad for-each-ref line {l:?}"))?;
        m.insert(n.to_string(), id.to_string());
    }
    Ok(m)
}

fn shallow_of(git_dir: &Path) -> BTreeSet<String> {
    std::fs::read_to_string(git_dir.join("shallow"))
        .map(|s| s.lines().map(|l| l.trim().to_string()).filter(|l| !l.is_empty()).collect())
        .unwrap_or_default()
}

fn error_chain(e: &dyn std::error::Error) -> String {
    let mut s = e.to_string();
    let mut cur = e.source();
    while let Some(inner) = cur {
        s.push_str(": ");
        s.push_str(&inner.to_string());
        cur = inner.source();
    }
    s
}

/// `git fsck` (connectivity-only and full) must be silent about missing/corrupt objects and succeed.
/// `Err(Ok(msg))` = violation, `Err(Err(msg))` = infrastructure trouble.
fn fsck(git: &Git, what: &str) -> Result<(), Result<String, String>> {
    for args in [
        &["fsck", "--connectivity-only", "--no-progress"][..],
        &["fsck", "--no-progress", "--no-dangling"][..],
    ] {
        match git.try_run(args.iter().copied(), None) {
            Err(e) => return Err(Err(format!("git fsck: {e}"))),
            Ok((ok, out, err)) => {
                let text = format!("{}{}", String::from_utf8_lossy(&out), String::from_utf8_lossy(&err));
                let bad = text.lines().any(|l| {
                    l.contains("missing") || l.contains("broken") || l.contains("error") || l.contains("corrupt") || l.contains("fatal")
                });
                if !ok || bad {
                    return Err(Ok(format!(
                        "{what}: `git {}` reports problems (success={ok}): {}",
                        args.join(" "),
                        text.trim()
                    )));
                }
            }
        }
    }
    Ok(())
}

/// Every object reachable from the refs must be readable through gitoxide and hash to its id.
/// `Err(Ok(msg))` = violation, `Err(Err(msg))` = infrastructure trouble.
fn gix_reads_everything(git: &Git, git_dir: &Path, what: &str) -> Result<(), Result<String, String>> {
    let out = git
        .run(["rev-list", "--objects", "--all", "--no-object-names"])
        .map_err(|e| Ok(format!("{what}: `git rev-list --objects --all` failed: {e}")))?;
    let repo = gix::open_opts(git_dir, gix::open::Options::isolated())
        .map_err(|e| Ok(format!("{what}: gitoxide cannot open the repository: {}", error_chain(&e))))?;
    for line in String::from_utf8_lossy(&out).lines() {
        let id = gix_hash::ObjectId::from_hex(line.trim().as_bytes()).map_err(|_| Err(format!("bad rev-list line {line:?}")))?;
        match repo.find_object(id) {
            Ok(obj) => {
                let actual = gix_object::compute_hash(gix_hash::Kind::Sha1, obj.kind, &obj.data);
                if actual != id {
                    return Err(Ok(format!("{what}: object {id} read through gitoxide hashes to {actual}")));
                }
            }
            Err(e) => {
                return Err(Ok(format!(
                    "{what}: reachable object {id} cannot be read through gitoxide: {}",
                    error_chain(&e)
                )))
            }
        }
    }
    Ok(())
}

/// report the outcome of an integrity oracle; returns false if the case is over
fn settle(c: &mut Case, sig: &str, r: Result<(), Result<String, String>>, scenario: &str) -> bool {
    match r {
        Ok(()) => true,
        Err(Ok(violation)) => {
            c.fail_sig(sig, format!("{violation}; scenario: {scenario}"));
            false
        }
        Err(Err(infra)) => {
            c.infra(infra);
            false
        }
    }
}

fn describe(s: &Scenario) -> String {
    let h = &s.history;
    format!(
        "commits={} (S1 uses first {}) parents={:?} tag_objs={:?} S1={:?} S2={:?} head={} specs={:?} tagopt={:?} init={:?} private={} protocol={} negotiation={:?} shallow={:?}",
        h.commits.len(),
        h.n1,
        h.commits.iter().map(|c| c.parents.clone()).collect::<Vec<_>>(),
        h.tag_objs,
        h.s1,
        h.s2,
        h.head,
        s.specs,
        s.tagopt,
        s.init,
        s.private_commits,
        s.protocol,
        s.negotiation,
        s.shallow
    )
}

fn update_labels(s: &Scenario, c: &mut Case) {
    let h = &s.history;
    let mut forced = false;
    let mut deletion = false;
    let mut ff = false;
    for (name, at1) in &h.s1.branches {
        match h.s2.branches.get(name) {
            None => deletion = true,
            Some(at2) if at2 == at1 => {}
            Some(at2) => {
                if ancestors(h, *at2).contains(at1) {
                    ff = true;
                } else {
                    forced = true;
                    if ancestors(h, *at1).contains(at2) {
                        c.label("update-rewind");
                    } else {
                        c.label("update-diverged");
                    }
                }
            }
        }
    }
    for (name, t1) in &h.s1.tags {
        match h.s2.tags.get(name) {
            None => {
                deletion = true;
                c.label("tag-deleted");
            }
            Some(t2) if t2 != t1 => c.label("tag-moved"),
            _ => {}
        }
    }
    c.label_if(ff, "update-fast-forward");
    c.label_if(forced, "update-forced");
    c.label_if(deletion, "update-deletion");
    c.label_if(h.s2.branches.keys().any(|k| !h.s1.branches.contains_key(k)), "new-branch");
    c.label_if(h.s2.tags.keys().any(|k| !h.s1.tags.contains_key(k)), "new-tag");
    c.label_if(h.s2 == h.s1, "no-server-change");
    c.label_if(h.commits.len() >= 40, "large-history");
    c.label_if(h.commits.iter().any(|c| c.parents.len() > 1), "has-merges");
    c.label(match s.init {
        ClientInit::Empty => "client-empty",
        ClientInit::Stale => "client-stale",
        ClientInit::Partial => "client-partial",
        ClientInit::StaleShallow(_) => "client-shallow",
    });
    c.label(match s.tagopt {
        TagOpt::Follow => "tags-follow",
        TagOpt::NoTags => "tags-none",
        TagOpt::AllTags => "tags-all",
    });
    c.label(match s.shallow {
        ShallowOp::None => "shallow-nochange",
        ShallowOp::Depth(_) => "shallow-depth",
        ShallowOp::Deepen(_) => "shallow-deepen",
    });
    c.label(match s.protocol {
        0 => "protocol-0",
        1 => "protocol-1",
        _ => "protocol-2",
    });
    c.label(match s.negotiation {
        "skipping" => "negotiate-skipping",
        "noop" => "negotiate-noop",
        _ => "negotiate-consecutive",
    });
    c.label_if(s.private_commits > 0, "client-private-history(multi-round)");
    let negotiates = !matches!(s.init, ClientInit::Empty) || s.private_commits > 0;
    c.nontrivial(forced || deletion || negotiates);
}

fn write_client_config(git: &Git, url: &str, s: &Scenario) -> Result<(), String> {
    git.run(["config", "remote.origin.url", url])?;
    for spec in &s.specs {
        git.run(["config", "--add", "remote.origin.fetch", spec])?;
    }
    match s.tagopt {
        TagOpt::Follow => {}
        TagOpt::NoTags => {
            git.run(["config", "remote.origin.tagOpt", "--no-tags"])?;
        }
        TagOpt::AllTags => {
            git.run(["config", "remote.origin.tagOpt", "--tags"])?;
        }
    }
    git.run(["config", "user.name", "U"])?;
    git.run(["config", "user.email", "u@example.com"])?;
    if !s.negotiation.is_empty() {
        git.run(["config", "fetch.negotiationAlgorithm", s.negotiation])?;
    }
    Ok(())
}

fn add_private_history(git: &Git, n: usize, base: Option<&str>) -> Result<(), String> {
    let mut fi: Vec<u8> = Vec::new();
    for i in 0..n {
        fi.push_str("commit refs/heads/private\n");
        fi.push_str(format!("committer P <p@example.com> {} +0000\n", 1_400_000_000 + i * 10));
        let msg = format!("private {i}");
        fi.push_str(format!("data {}\n{}\n", msg.len(), msg));
        if i == 0 {
            if let Some(b) = base {
                fi.push_str(format!("from {b}\n"));
            }
        }
        let content = format!("private content {i}\n");
        fi.push_str(format!("M 100644 inline private/p{}\ndata {}\n{}\n", i % 3, content.len(), content));
    }
    git.run_in(["fast-import", "--quiet", "--date-format=raw"], Some(&fi))?;
    Ok(())
}

pub fn main() {
    hermetic_env();
    let mut ck = Check::new("C31", "exploration");
    ck.rule("Scenarios decoded from a byte tape: server history of 1..35 commits (12%: 40..140) with merges, extra roots, equal and skewed commit times, 1..4 branches and 0..3 lightweight/annotated tags at S1; updates to S2 per branch (unchanged / moved to new commits / rewound to an ancestor / moved anywhere / deleted), new branches, moved/deleted/new tags; bare client prepared by real git (empty / stale / partial / shallow; 23%: a private branch of 17..70 commits unknown to the server so that negotiation takes several rounds); remote.origin.fetch from 8 refspec families (forced and non-forced globs, explicit branches, renaming globs, explicit tags, negative, mirror, into local branches); tagOpt default/--no-tags/--tags; protocol.version 0/1/2; fetch.negotiationAlgorithm unset/consecutive/skipping/noop; --depth / --deepen for a class. Non-trivial: the update contains a non-fast-forward move or a deletion, or the client already has part of the history or private history (negotiation happens). Distinct by hash of the decoded scenario.");
    ck.assume(&format!("{} is the server (`git-upload-pack`), builds every repository and is the reference client (`git fetch origin`, `git clone`) and the judge of integrity (`git fsck`)", Git::version()));
    ck.assume("with the default tag mode (auto-follow) gitoxide documents `Tags::Included` as 'only the tags that point to the objects being sent'; git additionally back-fills annotated tags whose target the client already had. That class is recognised (annotated server tag missing locally whose peeled target exists locally before the fetch) and only there refs/tags/* of A may be a subset of B's");
    ck.assume("in a shallow client repository (or with --depth/--deepen) and a non-forced refspec git rejects genuine fast-forwards because it judges them on the just-truncated (grafted) history; there gitoxide's value (the server's) is accepted when the generated history says it is a fast-forward");
    ck.assume("refs are compared by name and resolved object id (gitoxide may store a symbolic ref where git stores the value)");

    ck.sub("fetch", SubCfg::new(100, 6_000).max_len(1400).max_shrink(40), |t, c| {
        let s = gen_scenario(t, c);
        c.key(&s);
        update_labels(&s, c);
        c.sample_with(|| describe(&s));
        let h = &s.history;
        // --- server at S1
        let world = infra!(c, World::new("c31", true), "world");
        let sgit = &world.git;
        let ids = infra!(c, import_history(sgit, &world.scratch.path, h), "fast-import");
        infra!(c, set_refs(sgit, &ids, None, &h.s1), "S1 refs");
        infra!(
            c,
            sgit.run(["symbolic-ref", "HEAD", &format!("refs/heads/{}", h.head)]),
            "server HEAD"
        );
        let url = format!("file://{}", world.repo().display());
        // --- client prepared with git
        let client = world.scratch.join("client");
        infra!(c, std::fs::create_dir_all(&client), "mkdir client");
        let cgit = world.git.at(&client).cfg(&format!("protocol.version={}", s.protocol));
        infra!(c, cgit.run(["init", "-q", "--bare", "."]), "init client");
        infra!(c, write_client_config(&cgit, &url, &s), "client config");
        match s.init {
            ClientInit::Empty => {}
            ClientInit::Stale => {
                // may legitimately fail (an explicit refspec naming a branch that only exists at S2): the client then
                // simply starts from whatever git left behind
                let (ok, _, _) = infra!(c, cgit.try_run(["fetch", "-q", "origin"], None), "initial git fetch");
                c.label_if(!ok, "initial-git-fetch-refused");
            }
            ClientInit::Partial => {
                let b = h.s1.branches.keys().next().cloned().unwrap_or_default();
                let spec = format!("+refs/heads/{b}:refs/remotes/origin/{b}");
                infra!(c, cgit.run(["fetch", "-q", "--no-tags", &url, &spec]), "partial git fetch");
            }
            ClientInit::StaleShallow(d) => {
                let (ok, _, _) = infra!(
                    c,
                    cgit.try_run(["fetch", "-q", &format!("--depth={d}"), "origin"], None),
                    "initial shallow git fetch"
                );
                c.label_if(!ok, "initial-git-fetch-refused");
            }
        }
        if s.private_commits > 0 {
            let before = infra!(c, refs_of(&cgit), "client refs");
            let base = before.values().next().cloned();
            infra!(c, add_private_history(&cgit, s.private_commits, base.as_deref()), "private history");
        }
        // --- server moves to S2
        infra!(c, set_refs(sgit, &ids, Some(&h.s1), &h.s2), "S2 refs");
        // --- recognise the documented tag back-fill class on the pre-fetch client
        let mut backfill_tags: BTreeSet<String> = BTreeSet::new();
        if s.tagopt == TagOpt::Follow {
            let before = infra!(c, refs_of(&cgit), "client refs");
            let mut query = String::new();
            let mut names = Vec::new();
            for (name, tv) in &h.s2.tags {
                if tv.annotated.is_some() && !before.contains_key(&format!("refs/tags/{name}")) {
                    query.push_str(&format!("{}\n", ids.commits[tv.commit]));
                    names.push(name.clone());
                }
            }
            if !names.is_empty() {
                let out = infra!(
                    c,
                    cgit.run_in(["cat-file", "--batch-check=%(objectname) %(objecttype)"], Some(query.as_bytes())),
                    "cat-file"
                );
                let lines: Vec<String> = String::from_utf8_lossy(&out).lines().map(|l| l.to_string()).collect();
                if lines.len() != names.len() {
                    c.infra("cat-file --batch-check line count");
                    return;
                }
                for (n, l) in names.into_iter().zip(lines) {
                    if !l.ends_with(" missing") {
                        backfill_tags.insert(format!("refs/tags/{n}"));
                    }
                }
            }
        }
        c.label_if(!backfill_tags.is_empty(), "tag-backfill-class(documented-deviation)");
        // --- two identical copies
        let a = world.scratch.join("A");
        let b = world.scratch.join("B");
        infra!(c, copy_dir(&client, &a), "copy A");
        infra!(c, copy_dir(&client, &b), "copy B");
        let agit = cgit.at(&a);
        let bgit = cgit.at(&b);
        let refs_before = infra!(c, refs_of(&agit), "refs before");

        // --- B: git fetch
        let mut args: Vec<String> = vec!["fetch".into(), "-q".into()];
        match s.shallow {
            ShallowOp::None => {}
            ShallowOp::Depth(d) => args.push(format!("--depth={d}")),
            ShallowOp::Deepen(d) => args.push(format!("--deepen={d}")),
        }
        args.push("origin".into());
        let (git_ok, _, git_err) = infra!(c, bgit.try_run(&args, None), "git fetch");
        let git_err = String::from_utf8_lossy(&git_err).to_string();
        let git_fatal = !git_ok && git_err.contains("fatal:");
        c.label_if(git_fatal, "git-fetch-fatal");
        c.label_if(!git_ok && !git_fatal, "git-fetch-rejected-some");

        // --- A: gitoxide fetch
        let gix_result: Result<gix::remote::fetch::Outcome, String> = (|| {
            let repo = gix::open_opts(
                &a,
                gix::open::Options::isolated().config_overrides([format!("protocol.version={}", s.protocol)]),
            )
            .map_err(|e| format!("open: {}", error_chain(&e)))?;
            let remote = repo
                .find_remote("origin")
                .map_err(|e| format!("find_remote: {}", error_chain(&e)))?;
            let con = remote
                .connect(Direction::Fetch)
                .map_err(|e| format!("connect: {}", error_chain(&e)))?;
            let prep = con
                .prepare_fetch(gix::progress::Discard, Default::default())
                .map_err(|e| format!("prepare_fetch: {}", error_chain(&e)))?;
            let prep = match s.shallow {
                ShallowOp::None => prep,
                ShallowOp::Depth(d) => prep.with_shallow(gix::remote::fetch::Shallow::DepthAtRemote(
                    std::num::NonZeroU32::new(d).expect("non-zero"),
                )),
                ShallowOp::Deepen(d) => prep.with_shallow(gix::remote::fetch::Shallow::Deepen(d)),
            };
            prep.receive(gix::progress::Discard, &AtomicBool::new(false))
                .map_err(|e| format!("receive: {}", error_chain(&e)))
        })();
        let refs_a = infra!(c, refs_of(&agit), "refs of A");
        let refs_b = infra!(c, refs_of(&bgit), "refs of B");
        let mut rounds = 0;
        let mut gix_status = "";
        match &gix_result {
            Err(e) => {
                if git_fatal {
                    // both refuse: nothing may have changed in A
                    ensure!(
                        c,
                        refs_a == refs_before,
                        "both git and gitoxide failed, but gitoxide changed refs: before {refs_before:?} after {refs_a:?}"
                    );
                    return;
                }
                if e.contains("None of the refspec(s)") && refs_b == refs_before && refs_a == refs_before {
                    // documented `Error::NoMapping`: the refspecs select nothing on the remote. git silently does nothing.
                    c.label("gix-no-mapping-error(git-no-op)");
                    return;
                }
                // Known class (second face of the deepen-relative defect): for protocol v0/v1 `Arguments::deepen_relative()`
                // writes `deepen-relative` as an argument line of its own, which only exists in v2; upload-pack dies on it.
                let sig = if s.protocol != 2 && matches!(s.shallow, ShallowOp::Deepen(_)) && e.contains("Broken pipe") {
                    "v1-deepen-relative-sent-as-argument-line"
                } else {
                    ""
                };
                c.fail_sig(sig, format!(
                    "gitoxide fetch failed ({e}) where `git fetch` succeeded (ok={git_ok}, stderr {:?}); scenario: {}",
                    git_err.trim(),
                    describe(&s)
                ));
                return;
            }
            Ok(out) => {
                use gix::remote::fetch::refs::update::Mode;
                let updates = match &out.status {
                    gix::remote::fetch::Status::Change { update_refs, .. } => {
                        c.label("gix-received-pack");
                        gix_status = "pack received";
                        if let gix::remote::fetch::Status::Change { negotiate, .. } = &out.status {
                            rounds = negotiate.rounds.len();
                            c.label_if(rounds > 1, "gix-negotiation-multi-round");
                        }
                        &update_refs.updates
                    }
                    gix::remote::fetch::Status::NoPackReceived { update_refs, .. } => {
                        c.label("gix-no-pack");
                        gix_status = "no pack received";
                        &update_refs.updates
                    }
                };
                for u in updates {
                    match u.mode {
                        Mode::RejectedNonFastForward => c.label("gix-rejected-non-ff"),
                        Mode::RejectedTagUpdate => c.label("gix-rejected-tag-update"),
                        Mode::Forced => c.label("gix-forced-update"),
                        Mode::FastForward => c.label("gix-fast-forward"),
                        Mode::ImplicitTagNotSentByRemote => c.label("gix-implicit-tag-not-sent"),
                        Mode::New => c.label("gix-new-ref"),
                        _ => {}
                    }
                }
            }
        }
        if git_fatal {
            // git refused the whole operation; gitoxide went through. Only integrity is checked then.
            c.label("git-fatal-gix-ok");
        }
        // a `shallow` entry for a commit without parents cuts nothing off: ignore those (the two clients may ask for
        // different sets of unchanged tags, and gitoxide documents that it does not prune the file like git)
        let roots: BTreeSet<&String> = h
            .commits
            .iter()
            .enumerate()
            .filter(|(_, c)| c.parents.is_empty())
            .map(|(i, _)| &ids.commits[i])
            .collect();
        let effective = |set: BTreeSet<String>| -> BTreeSet<String> { set.into_iter().filter(|id| !roots.contains(id)).collect() };
        let sa = effective(shallow_of(&a));
        let sb = effective(shallow_of(&b));
        // Known class: with protocol v0/v1 the `deepen-relative` capability is always put on the first want line, so the
        // server treats an absolute `deepen <n>` as relative to the client's current boundary. Primary symptom: the
        // shallow boundary differs; where it does, differing fast-forward decisions (git judges them on the truncated
        // history) are consequences and carry the same signature.
        let sig = if s.protocol != 2 && matches!(s.shallow, ShallowOp::Depth(_)) && sa != sb && !git_fatal {
            "v1-depth-treated-as-deepen-relative"
        } else {
            ""
        };
        let scenario = format!("gitoxide: {gix_status}, negotiation rounds={rounds}; {}", describe(&s));
        // --- integrity of A
        if !settle(c, sig, fsck(&agit, "copy A after gitoxide fetch"), &scenario) {
            return;
        }
        if !settle(c, sig, gix_reads_everything(&agit, &a, "copy A after gitoxide fetch"), &scenario) {
            return;
        }
        if git_fatal {
            return;
        }
        // --- refs
        // server-side value of every tag at S2 (for the tag-following tolerance below)
        let server_tags: BTreeMap<String, String> = h
            .s2
            .tags
            .iter()
            .map(|(n, tv)| {
                (
                    format!("refs/tags/{n}"),
                    match tv.annotated {
                        Some(i) => ids.tag_objs[i].clone(),
                        None => ids.commits[tv.commit].clone(),
                    },
                )
            })
            .collect();
        // git skips automatic tag following altogether when a branch update was rejected (do_fetch() bails out before
        // the back-fill); gitoxide still creates the tags whose objects arrived. Both are defensible, tolerate it.
        let git_skipped_tag_following = !git_ok && s.tagopt == TagOpt::Follow;
        let index_of: BTreeMap<&String, usize> = ids.commits.iter().enumerate().map(|(i, id)| (id, i)).collect();
        let mut differences = Vec::new();
        // all differences are "git fast-forwarded, gitoxide kept the old value" where new commits are older than the old tip
        let mut only_skewed_ff = true;
        for (name, id) in &refs_a {
            match refs_b.get(name) {
                Some(other) if other == id => {}
                Some(other) => {
                    // In a shallow repository (or with --depth/--deepen) git judges fast-forwards on the grafted history: the walk
                    // from the new tip stops at a shallow commit, so a genuine fast-forward through a non-forced refspec is rejected
                    // ("! [rejected] (non-fast-forward)") and git keeps the old value. gitoxide reads the parents of the new
                    // tip, finds the old tip and sets the server's value. Not a defect of either; tolerated when the model
                    // says it is a true fast-forward.
                    if (s.shallow != ShallowOp::None || matches!(s.init, ClientInit::StaleShallow(_)))
                        && !git_ok
                        && refs_before.get(name) == Some(other)
                    {
                        if let (Some(new), Some(old)) = (index_of.get(id), index_of.get(other)) {
                            if ancestors(h, *new).contains(old) {
                                c.label("git-rejected-fast-forward-on-truncated-history");
                                continue;
                            }
                        }
                    }
                    differences.push(format!("{name}: gitoxide {id}, git {other}"));
                    let skewed_ff = refs_before.get(name) == Some(id)
                        && match (index_of.get(id), index_of.get(other)) {
                            (Some(old), Some(new)) => {
                                let anc_new = ancestors(h, *new);
                                let anc_old = ancestors(h, *old);
                                anc_new.contains(old)
                                    && anc_new
                                        .difference(&anc_old)
                                        .any(|c| h.commits[*c].time < h.commits[*old].time)
                            }
                            _ => false,
                        };
                    only_skewed_ff &= skewed_ff;
                }
                None => {
                    if git_skipped_tag_following && server_tags.get(name) == Some(id) {
                        c.label("git-skipped-tag-following-after-rejection");
                        continue;
                    }
                    only_skewed_ff = false;
                    differences.push(format!("{name}: gitoxide {id}, git has no such ref"));
                }
            }
        }
        for (name, id) in &refs_b {
            if !refs_a.contains_key(name) && !backfill_tags.contains(name) {
                only_skewed_ff = false;
                differences.push(format!("{name}: git {id}, gitoxide has no such ref"));
            }
        }
        let sig = if !differences.is_empty() && only_skewed_ff {
            "fast-forward-rejected-when-new-commits-are-older-than-local-tip"
        } else {
            sig
        };
        if !differences.is_empty() {
            let mirror_v2 = s.specs.iter().any(|x| x == "+refs/*:refs/*") && s.protocol == 2;
            c.fail_sig(
                if mirror_v2 && refs_a == refs_before { "v2-refs-star-prefix-matches-nothing" } else { sig },
                format!(
                    "refs after fetch differ from `git fetch` (git ok={git_ok}, stderr {:?}): {}; scenario: {}",
                    git_err.trim(),
                    differences.join("; "),
                    describe(&s)
                ),
            );
            return;
        }
        // --- shallow boundary
        ensure_sig!(
            c,
            sig,
            sa == sb,
            "shallow boundary differs: gitoxide {sa:?}, git {sb:?}; scenario: {scenario}"
        );
    });

    ck.sub("clone", SubCfg::new(60, 2_400).max_len(1400).max_shrink(40), |t, c| {
        let large = t.chance(20);
        let mut h = gen_history(t, large);
        let bare = t.bool();
        let protocol = *t.pick(&[2u8, 2, 1, 0]);
        let depth = if t.chance(50) { Some(t.range(1, 3) as u32) } else { None };
        // server HEAD: attached to a branch / detached at a commit no branch points to (otherwise git's clone guesses a
        // branch by value, a heuristic gitoxide does not share) / an empty repository with an unborn HEAD
        let mut head_mode = t.weighted(&[8, 2, 1]);
        let unborn_name = if t.bool() { "main" } else { "not-yet" };
        if head_mode == 2 {
            h.s2 = RefState::default();
        }
        let head_branch = h
            .s2
            .branches
            .keys()
            .find(|k| *k == "main")
            .or_else(|| h.s2.branches.keys().next())
            .cloned()
            .unwrap_or_else(|| "main".into());
        let free_commits: Vec<usize> = (0..h.commits.len())
            .filter(|i| !h.s2.branches.values().any(|b| b == i))
            .collect();
        let detached_at = if head_mode == 1 && !free_commits.is_empty() {
            Some(*t.pick(&free_commits))
        } else {
            None
        };
        if head_mode == 1 && detached_at.is_none() {
            head_mode = 0;
        }
        c.key(&(&h, bare, protocol, depth, head_mode, detached_at, unborn_name));
        c.label(if bare { "clone-bare" } else { "clone-with-worktree" });
        c.label_if(depth.is_some(), "clone-shallow");
        c.label(match protocol {
            0 => "protocol-0",
            1 => "protocol-1",
            _ => "protocol-2",
        });
        c.label_if(!h.s2.tags.is_empty(), "has-tags");
        c.label_if(h.s2.tags.values().any(|t| t.annotated.is_some()), "has-annotated-tags");
        c.label_if(h.commits.iter().any(|c| c.parents.len() > 1), "has-merges");
        c.label(match head_mode {
            0 => "server-head-attached",
            1 => "server-head-detached",
            _ => "server-empty-unborn-head",
        });
        c.nontrivial(h.s2.branches.len() > 1 || !h.s2.tags.is_empty() || head_mode != 0);
        c.sample_with(|| {
            format!(
                "commits={} parents={:?} S2={:?} bare={bare} protocol={protocol} depth={depth:?} head_mode={head_mode} detached_at={detached_at:?} unborn_name={unborn_name}",
                h.commits.len(),
                h.commits.iter().map(|c| c.parents.clone()).collect::<Vec<_>>(),
                h.s2
            )
        });
        let world = infra!(c, World::new("c31c", true), "world");
        let sgit = &world.git;
        h.s1 = RefState::default();
        let ids = if head_mode == 2 {
            ServerIds {
                commits: vec![],
                tag_objs: vec![],
            }
        } else {
            let ids = infra!(c, import_history(sgit, &world.scratch.path, &h), "fast-import");
            infra!(c, set_refs(sgit, &ids, None, &h.s2), "refs");
            ids
        };
        match head_mode {
            0 => {
                infra!(
                    c,
                    sgit.run(["symbolic-ref", "HEAD", &format!("refs/heads/{head_branch}")]),
                    "server HEAD"
                );
            }
            1 => {
                let at = detached_at.expect("set for mode 1");
                infra!(
                    c,
                    sgit.run(["update-ref", "--no-deref", "HEAD", &ids.commits[at]]),
                    "server detached HEAD"
                );
            }
            _ => {
                infra!(
                    c,
                    sgit.run(["symbolic-ref", "HEAD", &format!("refs/heads/{unborn_name}")]),
                    "server unborn HEAD"
                );
            }
        }
        let url = format!("file://{}", world.repo().display());
        let a = world.scratch.join("A");
        let b = world.scratch.join("B");
        // --- B: git clone
        let ogit = world.git.at(&world.scratch.path).cfg(&format!("protocol.version={protocol}"));
        let mut args: Vec<String> = vec!["clone".into(), "-q".into()];
        if let Some(d) = depth {
            // like gitoxide's clone, fetch all branches
            args.push(format!("--depth={d}"));
            args.push("--no-single-branch".into());
        }
        args.push(url.clone());
        args.push(b.display().to_string());
        let (git_ok, _, git_err) = infra!(c, ogit.try_run(&args, None), "git clone");
        if !git_ok {
            c.infra(format!("git clone failed: {}", String::from_utf8_lossy(&git_err)));
            return;
        }
        // --- A: gitoxide clone
        let res: Result<(), String> = (|| {
            let mut prep = gix::clone::PrepareFetch::new(
                url.as_str(),
                &a,
                if bare { gix::create::Kind::Bare } else { gix::create::Kind::WithWorktree },
                gix::create::Options::default(),
                gix::open::Options::isolated().config_overrides([format!("protocol.version={protocol}")]),
            )
            .map_err(|e| format!("PrepareFetch::new: {}", error_chain(&e)))?;
            if let Some(d) = depth {
                prep = prep.with_shallow(gix::remote::fetch::Shallow::DepthAtRemote(
                    std::num::NonZeroU32::new(d).expect("non-zero"),
                ));
            }
            let flag = AtomicBool::new(false);
            if bare {
                let (_repo, _out) = prep
                    .fetch_only(gix::progress::Discard, &flag)
                    .map_err(|e| format!("fetch_only: {}", error_chain(&e)))?;
            } else {
                let (mut checkout, _out) = prep
                    .fetch_then_checkout(gix::progress::Discard, &flag)
                    .map_err(|e| format!("fetch_then_checkout: {}", error_chain(&e)))?;
                let (_repo, _out) = checkout
                    .main_worktree(gix::progress::Discard, &flag)
                    .map_err(|e| format!("main_worktree: {}", error_chain(&e)))?;
            }
            Ok(())
        })();
        if let Err(e) = res {
            c.fail(format!("gitoxide clone failed where `git clone` succeeded: {e}"));
            return;
        }
        let agit = world.git.at(&a);
        let bgit = world.git.at(&b);
        {
            let r = fsck(&agit, "gitoxide clone");
            // Known class: cloning an EMPTY repository over v2 stores refs/remotes/origin/HEAD as a symbolic ref to the
            // unborn branch, which `git fsck` reports as an error (git clone creates no origin/HEAD there).
            let sig = match &r {
                Err(Ok(msg)) if head_mode == 2 && msg.contains("refs/remotes/origin/HEAD: invalid sha1 pointer") => {
                    "clone-of-empty-repository-leaves-dangling-origin-HEAD"
                }
                _ => "",
            };
            if !settle(c, sig, r, "") {
                return;
            }
        }
        let a_gitdir: PathBuf = if bare { a.clone() } else { a.join(".git") };
        let b_gitdir: PathBuf = b.join(".git");
        if !settle(c, "", gix_reads_everything(&agit, &a_gitdir, "gitoxide clone"), "") {
            return;
        }
        let mut refs_a = infra!(c, refs_of(&agit), "refs of A");
        let mut refs_b = infra!(c, refs_of(&bgit), "refs of B");
        if head_mode == 1 {
            // detached remote HEAD: gitoxide's implicit `HEAD:refs/remotes/origin/HEAD` refspec stores the value, git's clone
            // creates origin/HEAD only when it can name a branch. Not a question of "the same refspecs".
            refs_a.remove("refs/remotes/origin/HEAD");
            refs_b.remove("refs/remotes/origin/HEAD");
        }
        ensure!(
            c,
            refs_a == refs_b,
            "refs after clone differ: gitoxide {refs_a:?}, git {refs_b:?}"
        );
        // HEAD and origin/HEAD: symbolic target or detached value
        for name in ["HEAD", "refs/remotes/origin/HEAD"] {
            if head_mode == 1 && name != "HEAD" {
                continue;
            }
            let sa = infra!(c, agit.try_run(["symbolic-ref", "-q", name], None), "symbolic-ref");
            let sb = infra!(c, bgit.try_run(["symbolic-ref", "-q", name], None), "symbolic-ref");
            ensure!(
                c,
                (sa.0, &sa.1) == (sb.0, &sb.1),
                "{name}: gitoxide clone has symbolic target {:?} (is-symbolic={}), git clone {:?} (is-symbolic={})",
                sa.1.as_bstr(),
                sa.0,
                sb.1.as_bstr(),
                sb.0
            );
            let va = infra!(c, agit.try_run(["rev-parse", "-q", "--verify", name], None), "rev-parse");
            let vb = infra!(c, bgit.try_run(["rev-parse", "-q", "--verify", name], None), "rev-parse");
            ensure!(
                c,
                (va.0, &va.1) == (vb.0, &vb.1),
                "{name}: gitoxide clone resolves to {:?}, git clone to {:?}",
                va.1.as_bstr(),
                vb.1.as_bstr()
            );
        }
        {
            // entries for parentless commits cut nothing off (see the fetch sub-check)
            let roots: BTreeSet<&String> = h
                .commits
                .iter()
                .enumerate()
                .filter(|(i, c)| c.parents.is_empty() && *i < ids.commits.len())
                .map(|(i, _)| &ids.commits[i])
                .collect();
            let effective =
                |set: BTreeSet<String>| -> BTreeSet<String> { set.into_iter().filter(|id| !roots.contains(id)).collect() };
            let (sa, sb) = (effective(shallow_of(&a_gitdir)), effective(shallow_of(&b_gitdir)));
            ensure_sig!(
                c,
                if protocol != 2 && depth.is_some() { "v1-depth-treated-as-deepen-relative" } else { "" },
                sa == sb,
                "shallow boundary differs: gitoxide {sa:?}, git {sb:?}"
            );
        }
        // remote configuration
        for key in ["remote.origin.url", "remote.origin.fetch"] {
            let ca = infra!(c, agit.try_run(["config", "--get-all", key], None), "config");
            let cb = infra!(c, bgit.try_run(["config", "--get-all", key], None), "config");
            ensure!(
                c,
                ca.1 == cb.1,
                "{key}: gitoxide clone wrote {:?}, git clone {:?}",
                ca.1.as_bstr(),
                cb.1.as_bstr()
            );
        }
        if !bare {
            let la = infra!(c, agit.run(["ls-files", "-s"]), "ls-files");
            let lb = infra!(c, bgit.run(["ls-files", "-s"]), "ls-files");
            ensure!(
                c,
                la == lb,
                "index after clone differs: gitoxide {:?}, git {:?}",
                la.as_bstr(),
                lb.as_bstr()
            );
            let st = infra!(c, agit.run(["status", "--porcelain"]), "status");
            ensure!(
                c,
                st.is_empty(),
                "worktree of the gitoxide clone is not clean: {:?}",
                st.as_bstr()
            );
        }
    });

    ck.finish();
}
