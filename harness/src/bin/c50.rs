//! C50 — repository discovery agrees with git.
//!
//! One case = one generated directory tree ("layout") under a scratch root plus several queries. The layout is written
//! by the harness itself (no git process): plain directories, directories with a `.git` directory, bare repositories
//! (`x.git` and plain-named), `.git` *files* pointing (absolute/relative) at a git directory elsewhere, submodule-like
//! layouts (`.git/modules/<n>`), linked worktrees (`.git/worktrees/<n>` with `commondir`/`gitdir`), a `.git` symlink,
//! directory symlinks, and incomplete/broken candidates (missing HEAD/objects/refs, odd HEAD contents, broken gitfiles).
//! A query = (start directory: absolute, relative to another cwd, with `..`/`.` components, through a symlink;
//! ceiling directory list). Oracle: `GIT_CEILING_DIRECTORIES=… git -C <start> rev-parse --absolute-git-dir
//! --is-bare-repository --is-inside-work-tree --show-toplevel`; gitoxide: `gix_discover::upwards_opts`.
//! Compared: found/not found, the canonical git directory, and the work tree (where git reports one, or where git
//! reports a bare repository and the layout is unambiguously bare).
use std::path::{Component, Path, PathBuf};
use std::sync::RwLock;
use vp::*;

/// Relative start directories need the process working directory: writers `chdir`, everything else that depends on
/// the working directory (all calls into gix-discover) holds a read lock.
static CWD: RwLock<()> = RwLock::new(());

#[derive(Clone, Copy, Debug, Hash, PartialEq, Eq)]
enum Head {
    Symbolic,
    Detached,
    SymbolicNoSpace,
    SymbolicTabs,
    OutsideRefs,
    DetachedTrailingGarbage,
    ShortHex,
    Garbage,
    Empty,
    SymlinkIntoRefs,
    SymlinkElsewhere,
    Missing,
    IsDirectory,
}

#[derive(Clone, Copy, Debug, Hash, PartialEq, Eq)]
enum Missing {
    Nothing,
    Objects,
    Refs,
    RefsIsFile,
    ObjectsIsFile,
}

#[derive(Clone, Copy, Debug, Hash, PartialEq, Eq)]
struct GitDirSpec {
    head: Head,
    missing: Missing,
    /// `core.bare` in `config` (None: no config file at all)
    cfg_bare: Option<bool>,
    with_index: bool,
}

#[derive(Clone, Copy, Debug, Hash, PartialEq, Eq)]
enum GitFileForm {
    Absolute,
    Relative,
    /// `gitdir:` without the blank
    NoBlank,
    /// no trailing newline
    NoNewline,
    /// CRLF line ending
    CrLf,
    Garbage,
    Empty,
    DanglingTarget,
    /// points at a directory which exists but is not a git directory
    TargetNotARepo,
}

#[derive(Clone, Debug, Hash, PartialEq, Eq)]
enum Deco {
    Plain,
    /// `.git` directory inside
    Repo(GitDirSpec),
    /// the directory itself is a git directory
    Bare(GitDirSpec),
    /// `.git` file pointing at `store/<n>`
    GitFile(GitDirSpec, GitFileForm),
    /// `.git` symlink pointing at `store/<n>`
    GitSymlink(GitDirSpec),
    /// submodule of the nearest enclosing `Repo` (falls back to GitFile when there is none)
    Submodule(GitDirSpec, bool),
    /// linked worktree of the `n`-th earlier Repo (falls back to Plain when there is none)
    Linked { of: usize, head: Head, relative_commondir: bool, gitdir_back_link: bool },
    /// empty `.git` directory
    EmptyDotGit,
    /// this entry is a symlink to the directory with the given index (it has no children of its own)
    SymlinkTo(usize),
}

#[derive(Clone, Debug, Hash)]
struct Node {
    /// path relative to the layout root, "" for the root
    rel: String,
    parent: Option<usize>,
    deco: Deco,
}

#[derive(Clone, Debug, Hash)]
enum StartStyle {
    Absolute,
    /// relative to the directory with the given candidate index
    RelativeTo(usize, bool),
    DotDot,
    TrailingDot,
    /// through the symlink node with this index
    ViaSymlink(usize),
}

#[derive(Clone, Debug, Hash)]
enum Ceil {
    /// the n-th ancestor of the physical start (0 = the start itself)
    Ancestor(usize, bool),
    /// some other directory of the layout
    Other(usize, bool),
    Nonexistent,
    /// an ancestor, spelled through a symlink to it
    AncestorViaSymlink(usize),
    Root,
}

#[derive(Clone, Debug, Hash)]
struct Query {
    start: usize,
    style: StartStyle,
    ceilings: Vec<Ceil>,
    hermetic_root_ceiling: bool,
}

#[derive(Clone, Debug, Hash)]
struct Layout {
    nodes: Vec<Node>,
    queries: Vec<Query>,
}

const NAMES: &[&str] = &["a", "b", "c", "d.git", "w", "e"];

const ALL_HEADS: &[Head] = &[
    Head::Symbolic,
    Head::Detached,
    Head::SymbolicNoSpace,
    Head::SymbolicTabs,
    Head::OutsideRefs,
    Head::DetachedTrailingGarbage,
    Head::ShortHex,
    Head::Garbage,
    Head::Empty,
    Head::SymlinkIntoRefs,
    Head::SymlinkElsewhere,
    Head::Missing,
    Head::IsDirectory,
];
const ALL_MISSING: &[Missing] =
    &[Missing::Nothing, Missing::Objects, Missing::Refs, Missing::RefsIsFile, Missing::ObjectsIsFile];

/// HEAD forms for the random layouts: the canonical ones plus absent/corrupt ones. The complete grid of HEAD forms
/// is compared one candidate at a time in the `candidate-forms` sub-check.
fn gen_head(t: &mut Tape) -> Head {
    match t.weighted(&[30, 8, 2, 2, 1, 1]) {
        0 => Head::Symbolic,
        1 => Head::Detached,
        2 => Head::Missing,
        3 => Head::Garbage,
        4 => Head::Empty,
        _ => Head::IsDirectory,
    }
}

fn gen_gitdir(t: &mut Tape, bare: bool) -> GitDirSpec {
    let head = gen_head(t);
    let missing = match t.weighted(&[40, 2, 2, 1, 1]) {
        0 => Missing::Nothing,
        1 => Missing::Objects,
        2 => Missing::Refs,
        3 => Missing::RefsIsFile,
        _ => Missing::ObjectsIsFile,
    };
    // configuration consistent with the layout (see module docs: bare-ness is a guess in gix-discover)
    let cfg_bare = if t.chance(40) { None } else { Some(bare) };
    let with_index = !bare && t.chance(100);
    GitDirSpec { head, missing, cfg_bare, with_index }
}

fn gen_layout(t: &mut Tape) -> Layout {
    let mut nodes = vec![Node { rel: String::new(), parent: None, deco: Deco::Plain }];
    // the root is sometimes a repository itself
    let n = t.range(2, 9);
    for i in 0..=n {
        let (parent, name) = if i == 0 {
            (None, String::new())
        } else {
            // prefer deep chains: pick among the most recent directories more often
            let cands: Vec<usize> = (0..nodes.len())
                .filter(|&k| !matches!(nodes[k].deco, Deco::SymlinkTo(_)) && nodes[k].rel.matches('/').count() < 4)
                .collect();
            let p = if t.chance(150) { cands[cands.len() - 1] } else { cands[t.below(cands.len())] };
            let name = NAMES[t.below(NAMES.len())];
            let rel = if nodes[p].rel.is_empty() { name.to_string() } else { format!("{}/{}", nodes[p].rel, name) };
            if nodes.iter().any(|n| n.rel == rel) {
                continue;
            }
            (Some(p), rel)
        };
        let repos_so_far: Vec<usize> =
            (0..nodes.len()).filter(|&k| matches!(nodes[k].deco, Deco::Repo(_))).collect();
        let deco = match t.weighted(&[10, 9, 4, 4, 1, 3, 4, 1, 4]) {
            0 => Deco::Plain,
            1 => Deco::Repo(gen_gitdir(t, false)),
            2 => Deco::Bare(gen_gitdir(t, true)),
            3 => {
                let form = match t.weighted(&[8, 8, 1, 2, 1, 2, 1, 2, 2]) {
                    0 => GitFileForm::Absolute,
                    1 => GitFileForm::Relative,
                    2 => GitFileForm::NoBlank,
                    3 => GitFileForm::NoNewline,
                    4 => GitFileForm::CrLf,
                    5 => GitFileForm::Garbage,
                    6 => GitFileForm::Empty,
                    7 => GitFileForm::DanglingTarget,
                    _ => GitFileForm::TargetNotARepo,
                };
                Deco::GitFile(gen_gitdir(t, false), form)
            }
            4 => Deco::GitSymlink(gen_gitdir(t, false)),
            5 => Deco::Submodule(gen_gitdir(t, false), t.bool()),
            6 => {
                if repos_so_far.is_empty() {
                    Deco::Repo(gen_gitdir(t, false))
                } else {
                    Deco::Linked {
                        of: repos_so_far[t.below(repos_so_far.len())],
                        head: gen_head(t),
                        relative_commondir: !t.chance(64),
                        gitdir_back_link: true,
                    }
                }
            }
            7 => Deco::EmptyDotGit,
            _ => {
                if i == 0 || nodes.len() < 2 {
                    Deco::Plain
                } else {
                    let dirs: Vec<usize> =
                        (0..nodes.len()).filter(|&k| !matches!(nodes[k].deco, Deco::SymlinkTo(_))).collect();
                    Deco::SymlinkTo(dirs[t.below(dirs.len())])
                }
            }
        };
        if i == 0 {
            nodes[0].deco = if matches!(deco, Deco::Linked { .. } | Deco::SymlinkTo(_) | Deco::Submodule(..)) {
                Deco::Plain
            } else {
                deco
            };
        } else {
            nodes.push(Node { rel: name, parent, deco });
        }
    }
    Layout { nodes, queries: Vec::new() }
}

fn write(p: &Path, content: &[u8]) -> std::io::Result<()> {
    if let Some(d) = p.parent() {
        std::fs::create_dir_all(d)?;
    }
    std::fs::write(p, content)
}

const HEX40: &str = "0123456789abcdef0123456789abcdef01234567";

fn write_head(gd: &Path, head: Head) -> std::io::Result<()> {
    let p = gd.join("HEAD");
    match head {
        Head::Symbolic => write(&p, b"ref: refs/heads/main\n"),
        Head::Detached => write(&p, format!("{HEX40}\n").as_bytes()),
        Head::SymbolicNoSpace => write(&p, b"ref:refs/heads/main\n"),
        Head::SymbolicTabs => write(&p, b"ref: \t refs/heads/main\n"),
        Head::OutsideRefs => write(&p, b"ref: main\n"),
        Head::DetachedTrailingGarbage => write(&p, format!("{HEX40} trailing\n").as_bytes()),
        Head::ShortHex => write(&p, format!("{}\n", &HEX40[..39]).as_bytes()),
        Head::Garbage => write(&p, b"garbage\n"),
        Head::Empty => write(&p, b""),
        Head::SymlinkIntoRefs => std::os::unix::fs::symlink("refs/heads/main", &p),
        Head::SymlinkElsewhere => std::os::unix::fs::symlink("objects", &p),
        Head::Missing => Ok(()),
        Head::IsDirectory => std::fs::create_dir_all(&p),
    }
}

/// Write a stand-alone git directory.
fn write_gitdir(gd: &Path, spec: &GitDirSpec, worktree_cfg: Option<&str>) -> std::io::Result<()> {
    std::fs::create_dir_all(gd)?;
    write_head(gd, spec.head)?;
    match spec.missing {
        Missing::Objects => {}
        Missing::ObjectsIsFile => write(&gd.join("objects"), b"")?,
        _ => std::fs::create_dir_all(gd.join("objects"))?,
    }
    match spec.missing {
        Missing::Refs => {}
        Missing::RefsIsFile => write(&gd.join("refs"), b"")?,
        _ => std::fs::create_dir_all(gd.join("refs/heads"))?,
    }
    if let Some(bare) = spec.cfg_bare {
        let mut cfg = format!("[core]\n\trepositoryformatversion = 0\n\tbare = {bare}\n");
        if let Some(wt) = worktree_cfg {
            cfg.push_str(&format!("\tworktree = {wt}\n"));
        }
        write(&gd.join("config"), cfg.as_bytes())?;
    }
    if spec.with_index {
        // a valid empty version-2 index: header + SHA-1 trailer
        let mut idx = b"DIRC\0\0\0\x02\0\0\0\0".to_vec();
        let sum = vp::sha1_hex(&idx);
        idx.extend(vp::unhex(&sum).unwrap_or_default());
        write(&gd.join("index"), &idx)?;
    }
    Ok(())
}

struct Built {
    root: PathBuf,
    /// physical absolute directories which can serve as start or ceiling (all exist)
    cands: Vec<PathBuf>,
    /// (index of the symlink node, symlink path, physical target)
    links: Vec<(usize, PathBuf, PathBuf)>,
    /// number of nodes which carry something that looks like a repository candidate
    labels: Vec<&'static str>,
}

fn nearest_repo(nodes: &[Node], mut k: usize) -> Option<usize> {
    while let Some(p) = nodes[k].parent {
        if matches!(nodes[p].deco, Deco::Repo(_)) {
            return Some(p);
        }
        k = p;
    }
    None
}

fn build(root: &Path, layout: &Layout) -> std::io::Result<Built> {
    let top = root.join("t");
    let store = root.join("store");
    std::fs::create_dir_all(&top)?;
    let abs = |k: usize| -> PathBuf {
        if layout.nodes[k].rel.is_empty() {
            top.clone()
        } else {
            top.join(&layout.nodes[k].rel)
        }
    };
    let mut cands = vec![root.to_path_buf()];
    let mut links = Vec::new();
    let mut labels = Vec::new();
    // first pass: directories (parents precede children in `nodes`)
    for (k, n) in layout.nodes.iter().enumerate() {
        if !matches!(n.deco, Deco::SymlinkTo(_)) {
            std::fs::create_dir_all(abs(k))?;
            cands.push(abs(k));
        }
    }
    let gitdir_internals = |gd: &Path, cands: &mut Vec<PathBuf>| {
        for sub in ["", "objects", "refs", "refs/heads"] {
            let p = if sub.is_empty() { gd.to_path_buf() } else { gd.join(sub) };
            if p.is_dir() {
                cands.push(p);
            }
        }
    };
    for (k, n) in layout.nodes.iter().enumerate() {
        let dir = abs(k);
        match &n.deco {
            Deco::Plain => {}
            Deco::Repo(spec) => {
                labels.push("layout-dot-git-dir");
                write_gitdir(&dir.join(".git"), spec, None)?;
                gitdir_internals(&dir.join(".git"), &mut cands);
            }
            Deco::Bare(spec) => {
                labels.push("layout-bare");
                write_gitdir(&dir, spec, None)?;
                gitdir_internals(&dir, &mut cands);
            }
            Deco::EmptyDotGit => {
                labels.push("layout-empty-dot-git");
                std::fs::create_dir_all(dir.join(".git"))?;
                cands.push(dir.join(".git"));
            }
            Deco::GitSymlink(spec) => {
                labels.push("layout-dot-git-symlink");
                let gd = store.join(format!("s{k}"));
                write_gitdir(&gd, spec, None)?;
                std::os::unix::fs::symlink(&gd, dir.join(".git"))?;
                gitdir_internals(&gd, &mut cands);
            }
            Deco::GitFile(spec, form) => {
                labels.push("layout-gitfile");
                let gd = store.join(format!("g{k}"));
                if !matches!(form, GitFileForm::DanglingTarget | GitFileForm::TargetNotARepo) {
                    write_gitdir(&gd, spec, None)?;
                    gitdir_internals(&gd, &mut cands);
                } else if matches!(form, GitFileForm::TargetNotARepo) {
                    std::fs::create_dir_all(&gd)?;
                }
                let depth = n.rel.split('/').filter(|s| !s.is_empty()).count() + 1;
                let relative = format!("{}store/g{k}", "../".repeat(depth));
                let content = match form {
                    GitFileForm::Absolute | GitFileForm::DanglingTarget | GitFileForm::TargetNotARepo => {
                        format!("gitdir: {}\n", gd.display())
                    }
                    GitFileForm::Relative => format!("gitdir: {relative}\n"),
                    GitFileForm::NoBlank => format!("gitdir:{}\n", gd.display()),
                    GitFileForm::NoNewline => format!("gitdir: {relative}"),
                    GitFileForm::CrLf => format!("gitdir: {}\r\n", gd.display()),
                    GitFileForm::Garbage => "garbage\n".to_string(),
                    GitFileForm::Empty => String::new(),
                };
                if !matches!(form, GitFileForm::Absolute | GitFileForm::Relative) {
                    labels.push("layout-gitfile-unusual");
                }
                write(&dir.join(".git"), content.as_bytes())?;
            }
            Deco::Submodule(spec, with_worktree_cfg) => match nearest_repo(&layout.nodes, k) {
                Some(p) if abs(p).join(".git").is_dir() => {
                    labels.push("layout-submodule");
                    let gd = abs(p).join(".git/modules").join(format!("m{k}"));
                    let down = n.rel.split('/').count() - layout.nodes[p].rel.split('/').filter(|s| !s.is_empty()).count();
                    let rel_from_p = dir.strip_prefix(abs(p)).unwrap_or(Path::new("x")).to_path_buf();
                    let wt_cfg = format!("../../../{}", rel_from_p.display());
                    let mut spec = *spec;
                    if *with_worktree_cfg {
                        spec.cfg_bare = Some(false);
                    }
                    write_gitdir(&gd, &spec, with_worktree_cfg.then_some(wt_cfg.as_str()))?;
                    gitdir_internals(&gd, &mut cands);
                    write(
                        &dir.join(".git"),
                        format!("gitdir: {}.git/modules/m{k}\n", "../".repeat(down)).as_bytes(),
                    )?;
                }
                _ => {
                    labels.push("layout-gitfile");
                    let gd = store.join(format!("g{k}"));
                    write_gitdir(&gd, spec, None)?;
                    gitdir_internals(&gd, &mut cands);
                    write(&dir.join(".git"), format!("gitdir: {}\n", gd.display()).as_bytes())?;
                }
            },
            Deco::Linked { of, head, relative_commondir, gitdir_back_link } => {
                let main_git = abs(*of).join(".git");
                if main_git.is_dir() {
                    labels.push("layout-linked-worktree");
                    let private = main_git.join("worktrees").join(format!("w{k}"));
                    std::fs::create_dir_all(&private)?;
                    write_head(&private, *head)?;
                    if *relative_commondir {
                        write(&private.join("commondir"), b"../..\n")?;
                    } else {
                        write(&private.join("commondir"), format!("{}\n", main_git.display()).as_bytes())?;
                    }
                    if *gitdir_back_link {
                        write(&private.join("gitdir"), format!("{}\n", dir.join(".git").display()).as_bytes())?;
                    }
                    write(&dir.join(".git"), format!("gitdir: {}\n", private.display()).as_bytes())?;
                    cands.push(private);
                }
            }
            Deco::SymlinkTo(target) => {
                labels.push("layout-dir-symlink");
                std::os::unix::fs::symlink(abs(*target), &dir)?;
                links.push((k, dir.clone(), abs(*target)));
            }
        }
    }
    cands.sort();
    cands.dedup();
    Ok(Built { root: root.to_path_buf(), cands, links, labels })
}

fn gen_queries(t: &mut Tape, ncands_hint: usize, nlinks_hint: usize, n: usize) -> Vec<Query> {
    (0..n)
        .map(|_| {
            let start = t.below(ncands_hint.max(1));
            let style = match t.weighted(&[6, 5, 2, 1, 4]) {
                0 => StartStyle::Absolute,
                1 => StartStyle::RelativeTo(t.below(ncands_hint.max(1)), t.chance(170)),
                2 => StartStyle::DotDot,
                3 => StartStyle::TrailingDot,
                _ => {
                    if nlinks_hint == 0 {
                        StartStyle::Absolute
                    } else {
                        StartStyle::ViaSymlink(t.below(nlinks_hint))
                    }
                }
            };
            let nceil = t.weighted(&[5, 6, 3, 1]);
            let ceilings = (0..nceil)
                .map(|_| match t.weighted(&[10, 3, 1, 3, 1]) {
                    0 => Ceil::Ancestor(t.below(6), t.chance(64)),
                    1 => Ceil::Other(t.below(ncands_hint.max(1)), t.chance(64)),
                    2 => Ceil::Nonexistent,
                    3 => Ceil::AncestorViaSymlink(t.below(nlinks_hint.max(1))),
                    _ => Ceil::Root,
                })
                .collect();
            Query { start, style, ceilings, hermetic_root_ceiling: !t.chance(64) }
        })
        .collect()
}

fn lexical_relative(from: &Path, to: &Path) -> PathBuf {
    let f: Vec<Component> = from.components().collect();
    let tc: Vec<Component> = to.components().collect();
    let common = f.iter().zip(tc.iter()).take_while(|(a, b)| a == b).count();
    let mut out = PathBuf::new();
    for _ in common..f.len() {
        out.push("..");
    }
    for c in &tc[common..] {
        out.push(c.as_os_str());
    }
    if out.as_os_str().is_empty() {
        out.push(".");
    }
    out
}

#[derive(Debug)]
struct GitAnswer {
    git_dir: PathBuf,
    bare: bool,
    inside_work_tree: bool,
    toplevel: Option<PathBuf>,
}

#[derive(Debug)]
enum GitOutcome {
    Found(GitAnswer),
    /// "not a git repository (or any of the parent directories)"
    NotFound,
    /// git stopped with a hard error at a broken candidate (invalid gitfile etc.)
    HardError(String),
}

fn ask_git(git: &Git, cwd: &Path, start_arg: &Path, ceilings: &str) -> Result<GitOutcome, String> {
    let g = git.at(cwd).env("GIT_CEILING_DIRECTORIES", ceilings);
    let (ok, out, err) = g.try_run(
        [
            std::ffi::OsStr::new("-C"),
            start_arg.as_os_str(),
            std::ffi::OsStr::new("rev-parse"),
            std::ffi::OsStr::new("--absolute-git-dir"),
            std::ffi::OsStr::new("--is-bare-repository"),
            std::ffi::OsStr::new("--is-inside-work-tree"),
            std::ffi::OsStr::new("--show-toplevel"),
        ],
        None,
    )?;
    let out = String::from_utf8_lossy(&out).to_string();
    let err = String::from_utf8_lossy(&err).to_string();
    let lines: Vec<&str> = out.lines().collect();
    if lines.len() >= 3 {
        let toplevel = if ok && lines.len() >= 4 { Some(PathBuf::from(lines[3])) } else { None };
        if !ok && !err.contains("must be run in a work tree") {
            return Err(format!("unexpected git failure after output: {err}"));
        }
        return Ok(GitOutcome::Found(GitAnswer {
            git_dir: PathBuf::from(lines[0]),
            bare: lines[1] == "true",
            inside_work_tree: lines[2] == "true",
            toplevel,
        }));
    }
    if ok {
        return Err(format!("git succeeded with unparsable output {out:?}"));
    }
    if err.contains("dubious ownership") || err.contains("cannot change to") {
        return Err(format!("git trouble: {err}"));
    }
    if err.contains("not a git repository (or any") {
        Ok(GitOutcome::NotFound)
    } else {
        Ok(GitOutcome::HardError(err.trim().to_string()))
    }
}

fn canon(p: &Path) -> Option<PathBuf> {
    std::fs::canonicalize(p).ok()
}

/// The git directory a repository candidate located *at* `dir` would denote (whether or not it is valid).
fn candidate_at(dir: &Path) -> Option<PathBuf> {
    let dot_git = dir.join(".git");
    match std::fs::metadata(&dot_git) {
        Ok(m) if m.is_dir() => return canon(&dot_git),
        Ok(m) if m.is_file() => {
            let content = std::fs::read(&dot_git).ok()?;
            let content = String::from_utf8_lossy(&content).to_string();
            let target = content.strip_prefix("gitdir:")?.trim();
            return canon(&dir.join(target));
        }
        _ => {}
    }
    if dir.join("HEAD").symlink_metadata().is_ok() {
        return canon(dir);
    }
    None
}

fn config_mentions_worktree(git_dir: &Path) -> bool {
    std::fs::read_to_string(git_dir.join("config")).map_or(false, |s| s.contains("worktree"))
}

/// (absolute git dir, absolute work tree, kind, git dir exactly as returned)
type GixFound = Result<(PathBuf, Option<PathBuf>, &'static str, PathBuf), String>;

/// Run gix-discover for `start_arg` as seen from `cwd`; paths in the result are made absolute.
fn ask_gix(cwd: &Path, start_arg: &Path, ceilings: &[PathBuf]) -> Result<GixFound, String> {
    let opts = || gix_discover::upwards::Options {
        ceiling_dirs: ceilings.to_vec(),
        match_ceiling_dir_or_error: false,
        ..Default::default()
    };
    let res = if start_arg.is_relative() {
        let _g = CWD.write().unwrap_or_else(|e| e.into_inner());
        std::env::set_current_dir(cwd).map_err(|e| format!("chdir {cwd:?}: {e}"))?;
        let r = std::panic::catch_unwind(std::panic::AssertUnwindSafe(|| gix_discover::upwards_opts(start_arg, opts())));
        std::env::set_current_dir("/").map_err(|e| format!("chdir back: {e}"))?;
        match r {
            Ok(r) => r,
            Err(p) => std::panic::resume_unwind(p),
        }
    } else {
        let _g = CWD.read().unwrap_or_else(|e| e.into_inner());
        gix_discover::upwards_opts(start_arg, opts())
    };
    Ok(match res {
        Ok((path, _trust)) => {
            let kind = match &path {
                gix_discover::repository::Path::LinkedWorkTree { .. } => "linked",
                gix_discover::repository::Path::WorkTree(_) => "worktree",
                gix_discover::repository::Path::Repository(_) => "repository",
            };
            let (gd, wt) = path.into_repository_and_work_tree_directories();
            let absolutize = |p: PathBuf| if p.is_absolute() { p } else { cwd.join(p) };
            let raw = gd.clone();
            Ok((absolutize(gd), wt.map(absolutize), kind, raw))
        }
        Err(e) => Err(e.to_string()),
    })
}

enum Cmp {
    Agree(&'static str),
    Differ(String, String),
    Infra(String),
}

/// A `.git`-named directory that cannot be a git directory: judged from its parts only (HEAD in one of the two
/// canonical forms, `objects` and `refs` directories), independent of either implementation's answer.
fn is_plainly_invalid_dot_git(dir: &Path) -> bool {
    let head_ok = std::fs::symlink_metadata(dir.join("HEAD")).map_or(false, |m| m.is_file())
        && std::fs::read(dir.join("HEAD")).map_or(false, |h| {
            h.starts_with(b"ref: refs/") || (h.len() == 41 && h[..40].iter().all(u8::is_ascii_hexdigit))
        });
    let common = if dir.join("commondir").is_file() { dir.join("../..") } else { dir.to_path_buf() };
    !(head_ok && common.join("objects").is_dir() && common.join("refs").is_dir())
}

/// The known deviation class a disagreement falls into, decided (as far as possible) from the *inputs* of the query so
/// that combinations of several classes are attributed deterministically; `None`: not a known class.
fn known_class(
    cwd: &Path,
    start_arg: &Path,
    phys_start: &Path,
    canonical_ceilings: &[PathBuf],
    answer: &GitOutcome,
    gix_found: &GixFound,
) -> Option<&'static str> {
    // (classes that are still open come first, so that a query which also has the inputs of a class that has been
    // fixed since is attributed to the open one)
    // 6. the ceiling directory itself is still inspected
    if let (GitOutcome::NotFound, Ok((gd, ..))) = (answer, gix_found) {
        let got = canon(gd);
        if got.is_some()
            && canonical_ceilings.iter().any(|ce| {
                phys_start.starts_with(ce) && phys_start != ce && (candidate_at(ce) == got || Some(ce) == got.as_ref())
            })
        {
            return Some("ceiling-directory-itself-is-searched");
        }
    }
    // 4. broken gitfile: git dies, gitoxide continues
    if let (GitOutcome::HardError(e), Ok(_)) = (answer, gix_found) {
        if e.contains("invalid gitfile format") || e.contains("not a git repository: ") {
            return Some("invalid-gitfile-is-skipped");
        }
    }
    // 1. a relative start made of plain names only (`sub`, `a/b`): once the cursor is down to one component the
    //    current directory replaces it and is popped right away, so the current directory is never inspected
    if start_arg.is_relative() && start_arg.components().all(|c| matches!(c, Component::Normal(_))) {
        return Some("relative-start-of-plain-names-skips-cwd");
    }
    // 2. relative start (`.`, `./refs`) while the working directory is a `.git` directory: the walk arrives at `.`
    if let Ok((_, _, _, raw)) = gix_found {
        if raw == Path::new("./.git") && cwd.file_name() == Some(std::ffi::OsStr::new(".git")) && start_arg.is_relative() {
            return Some("cwd-is-dot-git-dir-reported-as-work-tree");
        }
    }
    // 3. a directory called `.git` on the upward path which is no git directory: the level above its parent is skipped
    if phys_start
        .ancestors()
        .any(|a| a.file_name() == Some(std::ffi::OsStr::new(".git")) && is_plainly_invalid_dot_git(a))
    {
        return Some("invalid-dot-git-on-path-skips-parent-level");
    }
    // 5. relative start, found directory not called `.git`: the result is shortened to `../…/.git` although the
    //    directory that many levels up (minus one) is the (differently named) git directory
    if let Ok((_, _, _, raw)) = gix_found {
        let n = raw.components().count();
        let only_dotdots_then_dot_git = raw.is_relative()
            && raw.file_name() == Some(std::ffi::OsStr::new(".git"))
            && n > 1
            && raw.components().rev().skip(1).all(|c| c == Component::ParentDir);
        if only_dotdots_then_dot_git {
            let mut meant = cwd.to_path_buf();
            for _ in 0..n.saturating_sub(2) {
                meant.pop();
            }
            let meant_is_git_dir = meant.file_name() != Some(std::ffi::OsStr::new(".git"))
                && meant.join("HEAD").symlink_metadata().is_ok();
            let git_says_meant = matches!(answer, GitOutcome::Found(a) if canon(&a.git_dir) == canon(&meant));
            if meant_is_git_dir && (git_says_meant || !matches!(answer, GitOutcome::Found(_))) {
                return Some("relative-start-non-dot-git-directory-shortened-to-dot-git");
            }
        }
    }
    None
}

/// Compare the two answers; the signature of a disagreement is generic here, see `known_class()`.
fn compare(ctx: &str, answer: &GitOutcome, gix_found: &GixFound) -> Cmp {
    match (answer, gix_found) {
        (GitOutcome::NotFound, Err(_)) => Cmp::Agree("none"),
        (GitOutcome::HardError(_), Err(_)) => Cmp::Agree("git-hard-error-gix-none"),
        (GitOutcome::NotFound, Ok((gd, wt, _, _))) => Cmp::Differ(
            "gix-finds-repository-git-finds-none".into(),
            format!("{ctx}: git finds no repository, gitoxide finds git dir {gd:?} work tree {wt:?}"),
        ),
        (GitOutcome::HardError(e), Ok((gd, wt, _, _))) => Cmp::Differ(
            "gix-continues-where-git-dies".into(),
            format!("{ctx}: git fails with {e:?}, gitoxide finds git dir {gd:?} work tree {wt:?}"),
        ),
        (GitOutcome::Found(a), Err(e)) => Cmp::Differ(
            "git-finds-repository-gix-finds-none".into(),
            format!("{ctx}: git finds {a:?}, gitoxide fails: {e}"),
        ),
        (GitOutcome::Found(a), Ok((gd, wt, kind, _raw))) => {
            let want_gd = canon(&a.git_dir);
            let got_gd = canon(gd);
            if want_gd.is_none() {
                return Cmp::Infra(format!("git printed a git dir which does not exist: {a:?}"));
            }
            if got_gd != want_gd {
                return Cmp::Differ(
                    "different-git-dir".into(),
                    format!(
                        "{ctx}: git dir differs: git {:?}, gitoxide {gd:?} (canonical {got_gd:?}); work tree {wt:?}",
                        a.git_dir
                    ),
                );
            }
            if a.inside_work_tree {
                let want = a.toplevel.as_deref().and_then(canon);
                let got = wt.as_deref().and_then(canon);
                if want.is_none() {
                    return Cmp::Infra(format!("git is inside a work tree but printed no toplevel: {a:?}"));
                }
                if got != want {
                    return Cmp::Differ(
                        "different-work-tree".into(),
                        format!("{ctx}: work tree differs: git {:?}, gitoxide {wt:?}; git dir {gd:?}", a.toplevel),
                    );
                }
            } else if a.bare
                && want_gd.as_deref().and_then(Path::file_name) != Some(std::ffi::OsStr::new(".git"))
                && !a.git_dir.join("index").exists()
                && !a.git_dir.join("commondir").exists()
                && !config_mentions_worktree(&a.git_dir)
            {
                if let Some(wt) = wt {
                    return Cmp::Differ(
                        "work-tree-for-bare-repository".into(),
                        format!(
                            "{ctx}: git reports a bare repository at {:?}, gitoxide reports work tree {wt:?}",
                            a.git_dir
                        ),
                    );
                }
            }
            Cmp::Agree(match *kind {
                "linked" => "found-linked",
                "worktree" => "found-worktree",
                _ => "found-repository",
            })
        }
    }
}

/// signatures of C50 findings that are still open (status "known") in /verif/known_findings.json
fn load_open_classes() -> std::collections::HashSet<String> {
    let mut set = std::collections::HashSet::new();
    if let Ok(txt) = std::fs::read_to_string("/verif/known_findings.json") {
        if let Ok(v) = serde_json::from_str::<serde_json::Value>(&txt) {
            for f in v["findings"].as_array().cloned().unwrap_or_default() {
                if f["property"] == "C50" && f["status"] == "known" {
                    if let Some(s) = f["signature"].as_str() {
                        set.insert(s.to_string());
                    }
                }
            }
        }
    }
    set
}

pub fn main() {
    let mut ck = Check::new("C50", "exploration");
    ck.rule("layout: one case = a generated directory tree (depth <= 5; plain dirs, `.git` dirs, bare repositories named x.git or plainly, gitfiles absolute/relative/odd/broken, submodule-like .git/modules layouts, hand-written linked worktrees, a `.git` symlink, directory symlinks, incomplete candidates: missing/corrupt HEAD, missing objects/refs) plus 6 queries (start directory absolute / relative to another working directory / with `..` or `.` components / through a directory symlink, inside work trees and inside git directories; 0..3 ceiling directories: ancestors incl. the start itself, other directories, non-existent ones, with trailing slashes or spelled through a symlink). Non-trivial: a query with >= 2 repository candidates on the physical upward path or with an active ceiling (a strict ancestor of the physical start inside the layout). candidate-forms: one candidate (container: .git dir / bare dir / gitfile target / linked-worktree private dir) x every HEAD form x every missing-part form, optionally below a valid outer repository; non-trivial when the form is not the canonical one. Distinct by hash of the decoded case.");
    ck.assume(&format!("oracle: {} `rev-parse --absolute-git-dir --is-bare-repository --is-inside-work-tree --show-toplevel` with GIT_CEILING_DIRECTORIES; everything is on one filesystem and owned by the current user", Git::version()));
    ck.assume("ceiling directories are given to gitoxide as absolute paths, realpath-resolved when spelled through a symlink (this is what gix_discover's own GIT_CEILING_DIRECTORIES parser does); relative ceilings (ignored by git, an API-level question in gitoxide) and `apply_environment()` (process environment) are not exercised; match_ceiling_dir_or_error=false, cross_fs=false, dot_git_only=false");
    ck.assume("bare-ness is a documented guess in gix-discover: the work tree is compared when git reports one for the start directory, and absence of a work tree is required only when git reports a bare repository whose directory is not named `.git` and has no index/commondir/core.worktree; configuration written into generated repositories is consistent with their layout (core.bare=false for .git dirs, true for bare ones, or no config); linked-worktree private directories always carry the `gitdir` back link (gitrepository-layout requires it)");

    let open_classes = load_open_classes();
    ck.sub("layout", SubCfg::new(240, 16_000).max_len(400).max_shrink(40), |t, c| {
        let mut layout = gen_layout(t);
        let scratch = infra!(c, Scratch::new("c50"), "scratch");
        let root = infra!(c, std::fs::canonicalize(&scratch.path), "canonical scratch");
        let built = infra!(c, build(&root, &layout), "write layout");
        for l in &built.labels {
            c.label(l);
        }
        layout.queries = gen_queries(t, built.cands.len(), built.links.len(), 6);
        c.key(&layout);
        let home = root.join("home");
        infra!(c, std::fs::create_dir_all(&home), "home");
        let git = Git::new(&root, &home);
        let hermetic = root.parent().map(Path::to_path_buf).unwrap_or_else(|| PathBuf::from("/"));
        let may_omit_root_ceiling = root.starts_with("/dev/shm");
        let mut descr = Vec::new();
        let mut nontrivial = false;
        let mut known_mismatch: Option<(&'static str, String)> = None;

        for q in &layout.queries {
            let phys_start = built.cands[q.start.min(built.cands.len() - 1)].clone();
            // how the start is spelled
            let (cwd, start_arg): (PathBuf, PathBuf) = match &q.style {
                StartStyle::Absolute => (root.clone(), phys_start.clone()),
                StartStyle::RelativeTo(k, dot_slash) => {
                    let cwd = built.cands[(*k).min(built.cands.len() - 1)].clone();
                    let mut rel = lexical_relative(&cwd, &phys_start);
                    if *dot_slash && rel != Path::new(".") {
                        rel = Path::new(".").join(rel);
                    }
                    c.label("start-relative");
                    (cwd, rel)
                }
                StartStyle::DotDot => {
                    c.label("start-dotdot");
                    match (phys_start.parent(), phys_start.file_name()) {
                        (Some(_), Some(name)) if phys_start != root => {
                            (root.clone(), phys_start.join("..").join(name))
                        }
                        _ => (root.clone(), phys_start.clone()),
                    }
                }
                StartStyle::TrailingDot => (root.clone(), phys_start.join(".")),
                StartStyle::ViaSymlink(k) => {
                    let (_, link, target) = &built.links[(*k).min(built.links.len().saturating_sub(1))];
                    match phys_start.strip_prefix(target) {
                        Ok(rest) => {
                            c.label("start-via-symlink");
                            (root.clone(), if rest.as_os_str().is_empty() { link.clone() } else { link.join(rest) })
                        }
                        Err(_) => (root.clone(), phys_start.clone()),
                    }
                }
            };
            // ceilings
            let ancestors: Vec<PathBuf> = phys_start.ancestors().map(Path::to_path_buf).collect();
            let mut git_ceils: Vec<String> = Vec::new();
            let mut gix_ceils: Vec<PathBuf> = Vec::new();
            let mut push = |raw: String, resolve: bool| {
                let p = PathBuf::from(&raw);
                gix_ceils.push(if resolve { canon(&p).unwrap_or(p) } else { p });
                git_ceils.push(raw);
            };
            for ce in &q.ceilings {
                match ce {
                    Ceil::Ancestor(n, slash) => {
                        let a = &ancestors[(*n).min(ancestors.len() - 1)];
                        if a.starts_with(&root) {
                            push(format!("{}{}", a.display(), if *slash { "/" } else { "" }), false);
                        }
                    }
                    Ceil::Other(k, slash) => {
                        let a = &built.cands[(*k).min(built.cands.len() - 1)];
                        push(format!("{}{}", a.display(), if *slash { "/" } else { "" }), false);
                    }
                    Ceil::Nonexistent => push(format!("{}/t/does/not/exist", root.display()), false),
                    Ceil::AncestorViaSymlink(k) => {
                        if let Some((_, link, target)) = built.links.get(*k) {
                            if phys_start.starts_with(target) && phys_start != *target {
                                c.label("ceiling-via-symlink");
                                push(link.display().to_string(), true);
                            }
                        }
                    }
                    Ceil::Root => push(root.display().to_string(), false),
                }
            }
            if q.hermetic_root_ceiling || !may_omit_root_ceiling {
                push(hermetic.display().to_string(), false);
            } else {
                c.label("no-hermetic-ceiling");
            }
            let ceil_env = git_ceils.join(":");
            let canonical_ceilings: Vec<PathBuf> = gix_ceils.iter().filter_map(|p| canon(p)).collect();

            let answer = infra!(c, ask_git(&git, &cwd, &start_arg, &ceil_env), "git rev-parse");
            let gix_found = infra!(c, ask_gix(&cwd, &start_arg, &gix_ceils), "gix-discover");

            // candidates on the physical upward path (for the non-trivial rule)
            let cands_on_path = ancestors
                .iter()
                .filter(|a| a.starts_with(&root))
                .filter(|a| a.join(".git").symlink_metadata().is_ok() || a.join("HEAD").symlink_metadata().is_ok())
                .count();
            let active_ceiling = canonical_ceilings
                .iter()
                .any(|ce| ce.starts_with(&root) && *ce != root && phys_start.starts_with(ce) && phys_start != *ce);
            nontrivial |= cands_on_path >= 2 || active_ceiling;
            c.label_if(cands_on_path >= 2, "nested-candidates");
            c.label_if(active_ceiling, "active-ceiling");

            let ctx = format!(
                "start {:?} (cwd {:?}, physical {:?}) ceilings {:?}",
                start_arg, cwd, phys_start, git_ceils
            );
            descr.push(format!("{ctx} -> git {answer:?}"));
            match compare(&ctx, &answer, &gix_found) {
                Cmp::Agree(l) => c.label(l),
                Cmp::Differ(sig, msg) => {
                    // known deviation class: git works on the physical directory (it chdir()s into the start),
                    // gitoxide walks the lexical parents of a start directory spelled through a symlink
                    let through_symlink = matches!(q.style, StartStyle::ViaSymlink(_))
                        && start_arg.is_absolute()
                        && canon(&start_arg).map_or(false, |p| p != start_arg);
                    let class = if through_symlink {
                        Some("start-through-symlink-walks-lexical-parents")
                    } else {
                        known_class(&cwd, &start_arg, &phys_start, &canonical_ceilings, &answer, &gix_found)
                    };
                    match class {
                        // keep going: the remaining queries of this layout are still worth their oracle calls
                        Some(class) if open_classes.contains(class) => {
                            c.label("query-in-known-deviation-class");
                            if known_mismatch.is_none() {
                                known_mismatch = Some((class, msg));
                            }
                        }
                        // a class that has been fixed in the meantime (or none): a violation
                        Some(class) => {
                            c.fail_sig(class, msg);
                            return;
                        }
                        None => {
                            c.fail_sig(&sig, msg);
                            return;
                        }
                    }
                }
                Cmp::Infra(m) => {
                    c.infra(m);
                    return;
                }
            }
        }
        c.nontrivial(nontrivial);
        c.sample_with(|| format!("{:?}\n  {}", layout.nodes, descr.join("\n  ")));
        // known deviation classes are pinned (and reported) through the candidate-forms sub-check; here they are only
        // counted (label `query-in-known-deviation-class`) so that the search continues behind them
        let _ = known_mismatch;
    });

    // Every form of a single candidate: what counts as a repository must agree.
    ck.sub("candidate-forms", SubCfg::new(300, 6_000).max_len(16).max_shrink(30), |t, c| {
        let head = ALL_HEADS[t.below(ALL_HEADS.len())];
        let missing = ALL_MISSING[t.weighted(&[6, 1, 1, 1, 1])];
        let container = *t.pick(&["dot-git", "bare", "gitfile", "linked-private", "no-candidate"]);
        let outer = t.bool();
        let cfg = match t.weighted(&[3, 1]) {
            0 => Some(container == "bare"),
            _ => None,
        };
        let from_inside = t.chance(64);
        // additionally make the outer directory a ceiling (git then must not find the outer repository)
        let ceiling_at_outer = t.chance(48);
        // how the start is spelled: absolute / `name` relative to its parent / `.` from within / `..` from a
        // sub-directory / through a directory symlink
        let style = t.weighted(&[10, 2, 2, 2, 2]);
        // unusual spellings and ceilings are combined with canonical candidates only, so that a disagreement has one cause
        let (head, missing) = if style != 0 || ceiling_at_outer {
            (if matches!(head, Head::Detached) { Head::Detached } else { Head::Symbolic }, Missing::Nothing)
        } else {
            (head, missing)
        };
        c.key(&(head, missing, container, outer, cfg, from_inside, ceiling_at_outer, style));
        c.label_if(ceiling_at_outer, "ceiling-at-outer");
        c.label(container);
        c.nontrivial(!(matches!(head, Head::Symbolic | Head::Detached) && missing == Missing::Nothing));
        c.sample_with(|| format!("{container} head={head:?} missing={missing:?} outer={outer} cfg_bare={cfg:?} from_inside={from_inside}"));
        let scratch = infra!(c, Scratch::new("c50f"), "scratch");
        let root = infra!(c, std::fs::canonicalize(&scratch.path), "canonical scratch");
        let home = root.join("home");
        infra!(c, std::fs::create_dir_all(&home), "home");
        let valid = GitDirSpec { head: Head::Symbolic, missing: Missing::Nothing, cfg_bare: Some(false), with_index: false };
        let spec = GitDirSpec { head, missing, cfg_bare: cfg, with_index: false };
        let o = root.join("t/o");
        let x = o.join("x");
        infra!(c, std::fs::create_dir_all(x.join("sub")), "mkdir");
        if outer {
            infra!(c, write_gitdir(&o.join(".git"), &valid, None), "outer");
        }
        let inside;
        let r = match container {
            "dot-git" => {
                inside = Some(x.join(".git"));
                write_gitdir(&x.join(".git"), &spec, None)
            }
            "bare" => {
                inside = Some(x.clone());
                write_gitdir(&x, &spec, None)
            }
            "gitfile" => {
                let gd = root.join("store/g");
                inside = Some(gd.clone());
                write_gitdir(&gd, &spec, None)
                    .and_then(|_| write(&x.join(".git"), format!("gitdir: {}\n", gd.display()).as_bytes()))
            }
            "no-candidate" => {
                inside = None;
                Ok(())
            }
            _ => {
                // valid main repository elsewhere; the candidate is the private directory of a linked worktree
                let main_git = root.join("t/m/.git");
                let private = main_git.join("worktrees/w");
                inside = Some(private.clone());
                write_gitdir(&main_git, &valid, None)
                    .and_then(|_| std::fs::create_dir_all(&private))
                    .and_then(|_| write_head(&private, head))
                    .and_then(|_| write(&private.join("commondir"), b"../..\n"))
                    .and_then(|_| write(&private.join("gitdir"), format!("{}\n", x.join(".git").display()).as_bytes()))
                    .and_then(|_| write(&x.join(".git"), format!("gitdir: {}\n", private.display()).as_bytes()))
            }
        };
        infra!(c, r, "write candidate");
        let start = match (&inside, from_inside) {
            (Some(p), true) if p.is_dir() => p.clone(),
            _ => x.join("sub"),
        };
        let git = Git::new(&root, &home);
        let hermetic = root.parent().map(Path::to_path_buf).unwrap_or_else(|| PathBuf::from("/"));
        let mut ceilings = vec![hermetic.clone()];
        if ceiling_at_outer {
            ceilings.insert(0, o.clone());
        }
        let ceil_env = ceilings.iter().map(|p| p.display().to_string()).collect::<Vec<_>>().join(":");
        let (cwd, start_arg): (PathBuf, PathBuf) = match style {
            1 => match (start.parent(), start.file_name()) {
                (Some(p), Some(n)) => (p.to_path_buf(), PathBuf::from(n)),
                _ => (root.clone(), start.clone()),
            },
            2 => (start.clone(), PathBuf::from(".")),
            3 => match std::fs::read_dir(&start).ok().and_then(|rd| {
                let mut subs: Vec<PathBuf> = rd
                    .filter_map(|e| e.ok().filter(|e| e.file_type().map_or(false, |t| t.is_dir())).map(|e| e.path()))
                    .collect();
                subs.sort();
                subs.into_iter().next()
            }) {
                Some(sub) => (sub, PathBuf::from("..")),
                None => (root.clone(), start.clone()),
            },
            4 => {
                let link = root.join("ln");
                infra!(c, std::os::unix::fs::symlink(&start, &link), "symlink");
                (root.clone(), link)
            }
            _ => (root.clone(), start.clone()),
        };
        c.label(match style {
            1 => "start-plain-relative",
            2 => "start-dot",
            3 => "start-dotdot-relative",
            4 => "start-via-symlink",
            _ => "start-absolute",
        });
        let answer = infra!(c, ask_git(&git, &cwd, &start_arg, &ceil_env), "git rev-parse");
        let gix_found = infra!(c, ask_gix(&cwd, &start_arg, &ceilings), "gix-discover");
        let ctx = format!("{container} candidate with HEAD {head:?}, {missing:?} missing, config bare={cfg:?}, outer repository: {outer}, start {start_arg:?} from {cwd:?}, ceilings {ceilings:?}");
        let cand_gd = inside.as_deref().and_then(canon);
        let git_accepts = matches!(&answer, GitOutcome::Found(a) if canon(&a.git_dir) == cand_gd);
        let gix_accepts = matches!(&gix_found, Ok((gd, _, _, _)) if canon(gd) == cand_gd);
        c.label(match (git_accepts, gix_accepts) {
            (true, true) => "candidate-accepted",
            (false, false) => "candidate-rejected",
            _ => "candidate-disputed",
        });
        match compare(&ctx, &answer, &gix_found) {
            Cmp::Agree(l) => c.label(l),
            Cmp::Differ(sig, msg) => {
                // attribute a disagreement about the candidate itself to its form
                let who = if git_accepts { "git" } else { "gitoxide" };
                let sig = if style == 4 {
                    "start-through-symlink-walks-lexical-parents".to_string()
                } else if git_accepts != gix_accepts && !matches!(head, Head::Symbolic | Head::Detached) {
                    format!("head-form-{head:?}-accepted-by-{who}-only")
                } else if git_accepts != gix_accepts && missing != Missing::Nothing {
                    format!("parts-{missing:?}-accepted-by-{who}-only")
                } else {
                    known_class(&cwd, &start_arg, &start, &ceilings, &answer, &gix_found)
                        .map(str::to_string)
                        .unwrap_or(sig)
                };
                if std::env::var_os("C50_SURVEY").is_some() {
                    // diagnostic mode for authors: list every disagreeing form instead of stopping at the first
                    eprintln!("SURVEY {sig}: {container} outer={outer} cfg={cfg:?} inside={from_inside}");
                    return;
                }
                c.fail_sig(&sig, msg)
            }
            Cmp::Infra(m) => c.infra(m),
        }
    });

    ck.finish();
}
