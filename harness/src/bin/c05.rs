//! C05 — object ids, hex forms and prefixes are consistent.
//!
//! Oracle: an independent nibble/hex model (`vp::hex`, string slicing and string comparison); nothing of
//! gix-hash is used to compute expectations.
use gix_hash::{ObjectId, Prefix};
use std::cmp::Ordering;
use vp::*;

/// 20-byte id classes: uniform, all-zero, all-ff, nibble patterns, mostly-zero with one byte set.
fn gen_id(t: &mut Tape) -> ([u8; 20], &'static str) {
    match t.weighted(&[8, 1, 1, 2, 2, 2]) {
        0 => (t.id20(), "id-uniform"),
        1 => ([0u8; 20], "id-zero"),
        2 => ([0xffu8; 20], "id-ff"),
        3 => {
            // nibble pattern: every byte the same two nibbles (0x0f, 0xf0, 0x80, 0x08, 0x7f ...)
            let b = *t.pick(&[0x0fu8, 0xf0, 0x80, 0x08, 0x7f, 0xf7, 0x01, 0x10, 0xa5, 0x5a]);
            ([b; 20], "id-nibble-pattern")
        }
        4 => {
            // counting nibbles
            let mut id = [0u8; 20];
            let start = t.u8();
            for (i, b) in id.iter_mut().enumerate() {
                *b = start.wrapping_add((i as u8).wrapping_mul(0x11));
            }
            (id, "id-counting")
        }
        _ => {
            let mut id = if t.bool() { [0u8; 20] } else { [0xffu8; 20] };
            let pos = t.below(20);
            id[pos] = t.u8();
            (id, "id-one-byte")
        }
    }
}

fn gen_hex_len(t: &mut Tape) -> usize {
    match t.weighted(&[6, 1, 1, 1, 1]) {
        0 => t.range(4, 40),
        1 => 4,
        2 => 5,
        3 => 39,
        _ => 40,
    }
}

fn nibble(id: &[u8; 20], pos: usize) -> u8 {
    let b = id[pos / 2];
    if pos % 2 == 0 {
        b >> 4
    } else {
        b & 0x0f
    }
}

fn set_nibble(id: &mut [u8; 20], pos: usize, v: u8) {
    let b = &mut id[pos / 2];
    if pos % 2 == 0 {
        *b = (*b & 0x0f) | (v << 4);
    } else {
        *b = (*b & 0xf0) | (v & 0x0f);
    }
}

/// What a candidate is, relative to the prefix id and its length `n` (positions are 0-based hex digits).
#[derive(Debug, Clone, Copy, PartialEq, Eq, Hash)]
enum CandKind {
    Same,
    /// last digit of the prefix changed (position n-1): must compare unequal
    FlipLastInside,
    /// first digit after the prefix changed (position n): must compare equal; for odd n this is the masked nibble
    FlipFirstOutside,
    /// second digit after the prefix changed (position n+1)
    FlipSecondOutside,
    /// some digit strictly inside
    FlipInside,
    /// everything after the prefix replaced by random bytes
    RandomTail,
    Random,
}

fn gen_candidate(t: &mut Tape, id: &[u8; 20], n: usize) -> ([u8; 20], CandKind, Option<usize>) {
    let mut c = *id;
    let kind = *t.pick(&[
        CandKind::Same,
        CandKind::FlipLastInside,
        CandKind::FlipFirstOutside,
        CandKind::FlipFirstOutside,
        CandKind::FlipSecondOutside,
        CandKind::FlipInside,
        CandKind::RandomTail,
        CandKind::Random,
    ]);
    let delta = 1 + t.below(15) as u8; // xor with 1..=15 always changes the nibble
    let mut flipped = None;
    let mut flip = |c: &mut [u8; 20], pos: usize| {
        if pos < 40 {
            let old = nibble(c, pos);
            set_nibble(c, pos, old ^ delta);
            flipped = Some(pos);
        }
    };
    match kind {
        CandKind::Same => {}
        CandKind::FlipLastInside => flip(&mut c, n - 1),
        CandKind::FlipFirstOutside => flip(&mut c, n),
        CandKind::FlipSecondOutside => flip(&mut c, n + 1),
        CandKind::FlipInside => {
            let pos = t.below(n);
            flip(&mut c, pos)
        }
        CandKind::RandomTail => {
            let r = t.id20();
            for pos in n..40 {
                set_nibble(&mut c, pos, nibble(&r, pos));
            }
        }
        CandKind::Random => c = t.id20(),
    }
    (c, kind, flipped)
}

/// The model: compare the first n hex digits as strings.
fn model_cmp(prefix_digits: &str, cand: &[u8; 20]) -> Ordering {
    let ch = hex(cand);
    prefix_digits.cmp(&ch[..prefix_digits.len()])
}

/// Check one prefix value against the model for a list of candidates. `digits` are the n lower-case hex digits
/// the prefix stands for.
fn check_prefix(c: &mut Case, p: &Prefix, digits: &str, cands: &[([u8; 20], CandKind, Option<usize>)], origin: &str) -> bool {
    let n = digits.len();
    if p.hex_len() != n {
        c.fail(format!("{origin}: hex_len() = {} for the {n}-digit prefix {digits}", p.hex_len()));
        return false;
    }
    let shown = p.to_string();
    if shown != digits {
        c.fail(format!("{origin}: prefix of digits {digits} prints as {shown}"));
        return false;
    }
    // documented: bits and bytes past the prefix are zero in as_oid()
    let mut expect_oid = digits.to_string();
    while expect_oid.len() < 40 {
        expect_oid.push('0');
    }
    if hex(p.as_oid().as_bytes()) != expect_oid {
        c.fail_sig(
            "as-oid-not-masked",
            format!("{origin}: as_oid() = {} for prefix {digits}, expected {expect_oid}", hex(p.as_oid().as_bytes())),
        );
        return false;
    }
    for (cand, kind, flipped) in cands {
        let oid = ObjectId::from(*cand);
        let got = p.cmp_oid(&oid);
        let want = model_cmp(digits, cand);
        if got != want {
            c.fail_sig(
                "cmp-oid-mismatch",
                format!(
                    "{origin}: prefix {digits} (len {n}) cmp_oid({}) = {got:?}, comparing the first {n} hex digits gives {want:?} (candidate {kind:?}, flipped digit {flipped:?})",
                    hex(cand)
                ),
            );
            return false;
        }
    }
    true
}

fn mixed_case(t: &mut Tape, lower: &str) -> (String, &'static str) {
    let mode = t.weighted(&[2, 2, 4]);
    let s: String = match mode {
        0 => lower.to_string(),
        1 => lower.to_ascii_uppercase(),
        _ => lower
            .chars()
            .map(|ch| if t.bool() { ch.to_ascii_uppercase() } else { ch })
            .collect(),
    };
    (s, ["text-lower", "text-upper", "text-mixed"][mode])
}

pub fn main() {
    let mut ck = Check::new("C05", "exploration");
    ck.rule("20-byte ids (uniform, all-zero, all-ff, nibble patterns, counting, one-byte) x hex_len 4..=40 (boundary lengths 4,5,39,40 boosted) x 1..6 candidate ids derived from the prefix id (same, one hex digit flipped at position n-1 / n / n+1 / inside, random tail, random); hex text 4..40 digits in lower/upper/mixed case. Non-trivial: odd hex_len with a candidate differing from the prefix id exactly in the masked nibble (digit n). Distinct by (id, hex_len, candidates) hash. `enum-nibbles` enumerates every (hex_len, flipped position, old nibble, new nibble) for fixed base ids.");
    ck.assume("the oracle is an independent model: lower-case hex rendering of the bytes (vp::hex), string slicing and lexicographic string comparison (equal to nibble-wise numeric comparison for lower-case hex)");

    // ---- ids <-> hex -------------------------------------------------------------------------------------
    ck.sub("id-hex", SubCfg::new(400_000, 6_000_000).max_len(96), |t, c| {
        let (id, class) = gen_id(t);
        c.label(class);
        let h = hex(&id);
        let (text, tclass) = mixed_case(t, &h);
        c.label(tclass);
        let n = t.range(0, 44);
        c.key(&(id, &text, n));
        c.nontrivial(text != h);
        c.sample_with(|| format!("id={h} text={text} with_len={n}"));
        let oid = ObjectId::from(id);
        ensure!(c, oid.as_bytes() == id, "ObjectId::from([u8;20]) changed the bytes");
        ensure!(c, oid.to_hex().to_string() == h, "to_hex() = {} for bytes {h}", oid.to_hex());
        ensure!(c, oid.to_string() == h, "Display = {} for bytes {h}", oid);
        ensure!(c, format!("{}", oid.as_ref() as &gix_hash::oid) == h, "oid Display differs for {h}");
        let mut buf = [0u8; 40];
        let written = oid.hex_to_buf(&mut buf);
        ensure!(c, written == 40 && buf[..] == *h.as_bytes(), "hex_to_buf wrote {:?}", show(&buf[..written.min(40)]));
        let mut v = Vec::new();
        ensure!(c, oid.write_hex_to(&mut v).is_ok() && v == h.as_bytes(), "write_hex_to wrote {}", show(&v));
        // parse back (any case)
        match ObjectId::from_hex(text.as_bytes()) {
            Ok(back) => ensure!(c, back == oid, "from_hex({text}) = {back}, expected {h}"),
            Err(e) => {
                c.fail(format!("from_hex({text}) failed: {e}"));
                return;
            }
        }
        match text.parse::<ObjectId>() {
            Ok(back) => ensure!(c, back == oid, "FromStr({text}) = {back}, expected {h}"),
            Err(e) => {
                c.fail(format!("FromStr({text}) failed: {e}"));
                return;
            }
        }
        // truncated display
        let shown = oid.to_hex_with_len(n).to_string();
        let want = &h[..n.min(40)];
        ensure!(c, shown == want, "to_hex_with_len({n}) = {shown}, expected {want}");
        // Prefix::from(oid): full length
        let p = Prefix::from(oid);
        ensure!(c, p.hex_len() == 40, "Prefix::from(oid).hex_len() = {}", p.hex_len());
        ensure!(c, p.to_string() == h, "Prefix::from(oid) prints {p}");
        ensure!(c, p.cmp_oid(&oid) == Ordering::Equal, "Prefix::from(oid) does not match its own id");
        // ordering of ids == ordering of hex strings
        let other = t.id20();
        let oother = ObjectId::from(other);
        ensure!(
            c,
            oid.cmp(&oother) == h.cmp(&hex(&other)),
            "ObjectId ordering of {h} vs {} differs from hex string ordering",
            hex(&other)
        );
    });

    // ---- prefixes cut from ids and parsed from text ----------------------------------------------------
    ck.sub("prefix", SubCfg::new(1_500_000, 30_000_000).max_len(256), |t, c| {
        let (id, class) = gen_id(t);
        let n = gen_hex_len(t);
        let ncand = t.range(1, 6);
        let cands: Vec<_> = (0..ncand).map(|_| gen_candidate(t, &id, n)).collect();
        let h = hex(&id);
        let digits = &h[..n];
        let (text, tclass) = mixed_case(t, digits);
        c.label(class);
        c.label(tclass);
        c.label(if n % 2 == 1 { "len-odd" } else { "len-even" });
        c.label_if(n == 4, "len-4");
        c.label_if(n == 40, "len-40");
        c.label_if(n == 39, "len-39");
        let masked_nibble_case = n % 2 == 1
            && cands
                .iter()
                .any(|(cand, _, flipped)| *flipped == Some(n) && cand[..n / 2] == id[..n / 2] && nibble(cand, n - 1) == nibble(&id, n - 1));
        c.label_if(masked_nibble_case, "odd-len-differs-in-masked-nibble");
        for (cand, kind, _) in &cands {
            c.label(match kind {
                CandKind::Same => "cand-same",
                CandKind::FlipLastInside => "cand-flip-n-1",
                CandKind::FlipFirstOutside => "cand-flip-n",
                CandKind::FlipSecondOutside => "cand-flip-n+1",
                CandKind::FlipInside => "cand-flip-inside",
                CandKind::RandomTail => "cand-random-tail",
                CandKind::Random => "cand-random",
            });
            match model_cmp(digits, cand) {
                Ordering::Less => c.label("expect-less"),
                Ordering::Equal => c.label("expect-equal"),
                Ordering::Greater => c.label("expect-greater"),
            }
        }
        c.nontrivial(masked_nibble_case);
        c.key(&(id, n, &text, cands.iter().map(|x| x.0).collect::<Vec<_>>()));
        c.sample_with(|| {
            format!(
                "id={h} hex_len={n} text={text} candidates={:?}",
                cands.iter().map(|(cd, k, f)| format!("{k:?}@{f:?}:{}", hex(cd))).collect::<Vec<_>>()
            )
        });

        let oid = ObjectId::from(id);
        // (a) cut from an id
        let cut = match Prefix::new(&oid, n) {
            Ok(p) => p,
            Err(e) => {
                c.fail(format!("Prefix::new({h}, {n}) failed: {e}"));
                return;
            }
        };
        if !check_prefix(c, &cut, digits, &cands, "Prefix::new") {
            return;
        }
        // the id it was cut from always matches
        ensure!(c, cut.cmp_oid(&oid) == Ordering::Equal, "Prefix::new({h}, {n}) does not match its own id");
        // (b) parsed from text (any case)
        let parsed = match Prefix::from_hex(&text) {
            Ok(p) => p,
            Err(e) => {
                c.fail(format!("Prefix::from_hex({text}) failed: {e}"));
                return;
            }
        };
        if !check_prefix(c, &parsed, digits, &cands, "Prefix::from_hex") {
            return;
        }
        match Prefix::try_from(text.as_str()) {
            Ok(p) => ensure!(c, p == parsed, "TryFrom<&str> differs from from_hex for {text}"),
            Err(e) => {
                c.fail(format!("Prefix::try_from({text}) failed: {e}"));
                return;
            }
        }
        // (c) both constructions give the same value, also when the text is zero-padded to a full id first
        ensure!(c, cut == parsed, "Prefix::new({h}, {n}) = {cut:?} but Prefix::from_hex({text}) = {parsed:?}");
        let mut padded = text.clone();
        while padded.len() < 40 {
            padded.push('0');
        }
        match ObjectId::from_hex(padded.as_bytes()) {
            Ok(pid) => match Prefix::new(&pid, n) {
                Ok(p) => ensure!(c, p == parsed, "Prefix::new(from_hex({padded}), {n}) = {p:?} != from_hex({text}) = {parsed:?}"),
                Err(e) => c.fail(format!("Prefix::new of padded id failed: {e}")),
            },
            Err(e) => c.fail(format!("ObjectId::from_hex({padded}) failed: {e}")),
        }
        if c.failed() {
            return;
        }
        // (d) printing and re-parsing is the identity
        match Prefix::from_hex(&cut.to_string()) {
            Ok(p) => ensure!(c, p == cut, "from_hex(Display) = {p:?} != {cut:?}"),
            Err(e) => c.fail(format!("from_hex(Display({cut})) failed: {e}")),
        }
    });

    // ---- exhaustive over the nibble structure ----------------------------------------------------------
    ck.sub_enum("enum-nibbles", |r| {
        let mut bases: Vec<[u8; 20]> = vec![[0u8; 20], [0xff; 20], [0x0f; 20], [0xf0; 20], [0x80; 20], [0x7f; 20]];
        let mut counting = [0u8; 20];
        for (i, b) in counting.iter_mut().enumerate() {
            *b = (i as u8).wrapping_mul(0x11).wrapping_add(0x01);
        }
        bases.push(counting);
        // one seed-dependent base
        let mut seeded = [0u8; 20];
        let mut x = r.seed.wrapping_mul(0x9e37_79b9_7f4a_7c15).wrapping_add(0x1234_5678_9abc_def1);
        for b in seeded.iter_mut() {
            x ^= x << 13;
            x ^= x >> 7;
            x ^= x << 17;
            *b = (x >> 24) as u8;
        }
        bases.push(seeded);
        let mut fails = 0;
        for base in &bases {
            let h = hex(base);
            let oid = ObjectId::from(*base);
            for n in 4..=40usize {
                let digits = &h[..n];
                let (cut, parsed) = match (Prefix::new(&oid, n), Prefix::from_hex(digits)) {
                    (Ok(a), Ok(b)) => (a, b),
                    (a, b) => {
                        r.fail("", format!("prefix construction failed for {h} len {n}: {a:?} {b:?}"), digits.as_bytes());
                        fails += 1;
                        continue;
                    }
                };
                if cut != parsed || cut.to_string() != digits || cut.hex_len() != n {
                    r.fail("", format!("Prefix::new/from_hex/Display disagree for {h} len {n}: {cut:?} vs {parsed:?}"), digits.as_bytes());
                    fails += 1;
                }
                for pos in 0..40usize {
                    let old = nibble(base, pos);
                    for new in 0..16u8 {
                        let mut cand = *base;
                        set_nibble(&mut cand, pos, new);
                        let want = model_cmp(digits, &cand);
                        let coid = ObjectId::from(cand);
                        let nt = n % 2 == 1 && pos == n && new != old;
                        let key = {
                            use std::hash::{Hash, Hasher};
                            let mut hs = std::collections::hash_map::DefaultHasher::new();
                            (base, n, pos, new).hash(&mut hs);
                            hs.finish()
                        };
                        r.eval(key, nt);
                        for (p, origin) in [(&cut, "Prefix::new"), (&parsed, "Prefix::from_hex")] {
                            let got = p.cmp_oid(&coid);
                            if got != want && fails < 5 {
                                fails += 1;
                                r.fail(
                                    "cmp-oid-mismatch",
                                    format!("{origin}: prefix {digits} (len {n}) cmp_oid({}) = {got:?}, first {n} hex digits compare {want:?} (digit {pos} set to {new:x})", hex(&cand)),
                                    format!("{h} {n} {pos} {new}").as_bytes(),
                                );
                            }
                        }
                    }
                }
            }
        }
        r.sample(format!("{} base ids x hex_len 4..=40 x 40 digit positions x 16 nibble values", bases.len()));
        r.exhaustive = true;
    });

    ck.finish();
}
