//! Grammar-based git-config text generator shared by the C26, C27 and C28 checks
//! (included by c27/c28 with `#[path = "../c26/cfggen.rs"]`).
//!
//! Everything is decoded from the byte tape; index 0 of every choice is the simplest alternative so
//! that an exhausted/shrunk tape yields a minimal document.
#![allow(dead_code)]

use gix_config::parse::{Event, Events};
use std::collections::HashSet;
use vp::{Git, Tape};

#[derive(Clone, Copy, Debug)]
pub struct Opts {
    /// optional UTF-8 byte order mark
    pub bom: bool,
    /// CRLF line ends (whole file or mixed)
    pub crlf: bool,
    /// legacy `[name.sub]` headers
    pub legacy: bool,
    /// upper-case letters in legacy subsections (documented deviation of gitoxide)
    pub legacy_upper: bool,
    /// `[a.b.c]`
    pub legacy_multi_dot: bool,
    /// superfluous escapes in quoted subsections, e.g. `[a "b\c"]`
    pub odd_sub_escape: bool,
    /// `\b` in values
    pub bs_escape: bool,
    /// tab / lone CR as interior whitespace of unquoted value parts
    pub inner_tab: bool,
    /// `[a] k = v` on the header line
    pub same_line: bool,
    /// constructs gitoxide accepts but git rejects (`k # c`, `k l`)
    pub gix_only: bool,
    /// non-ASCII bytes in values, comments and subsections
    pub high_bytes: bool,
    /// a continuation directly before the end of the file
    pub cont_at_eof: bool,
    /// blanks between an implicit key and the end of its line (`k <LF>`)
    pub implicit_trailing_ws: bool,
    /// a continuation before the value has any content (`k = \<LF>  v`), and tabs after a continuation
    pub cont_leading_ws: bool,
    pub max_sections: usize,
    pub max_entries: usize,
}

impl Opts {
    /// everything gitoxide's parser is supposed to accept
    pub fn everything() -> Opts {
        Opts {
            bom: true,
            crlf: true,
            legacy: true,
            legacy_upper: true,
            legacy_multi_dot: true,
            odd_sub_escape: true,
            bs_escape: true,
            inner_tab: true,
            same_line: true,
            gix_only: true,
            high_bytes: true,
            cont_at_eof: true,
            cont_leading_ws: true,
            implicit_trailing_ws: true,
            max_sections: 6,
            max_entries: 5,
        }
    }
    /// only what git accepts as well
    pub fn git_compatible() -> Opts {
        Opts {
            gix_only: false,
            ..Opts::everything()
        }
    }
}

#[derive(Default, Debug, Clone)]
pub struct Feat {
    pub bom: bool,
    pub crlf: bool,
    pub mixed_eol: bool,
    pub no_final_newline: bool,
    pub continuation: u32,
    pub quoted: u32,
    pub escapes: u32,
    pub bs_escape: u32,
    pub inner_tab: u32,
    pub ws_runs: u32,
    pub comments: u32,
    pub inline_comments: u32,
    pub implicit: u32,
    pub empty_values: u32,
    pub legacy: u32,
    pub legacy_upper: u32,
    pub legacy_multi_dot: u32,
    pub same_line: u32,
    pub sub_escape: u32,
    pub odd_sub_escape: u32,
    pub high: u32,
    pub gix_only: u32,
    pub cont_at_eof: bool,
    pub sections: u32,
    pub entries: u32,
    pub dup_sections: bool,
}

#[derive(Debug, Clone, Default)]
pub struct EntryFeat {
    pub quoted: bool,
    pub escape: bool,
    pub continuation: bool,
    pub ws_run: bool,
    pub bs: bool,
    pub tab: bool,
}

impl EntryFeat {
    pub fn interesting(&self) -> bool {
        self.quoted || self.escape || self.continuation || self.ws_run
    }
}

#[derive(Debug, Clone)]
pub struct GEntry {
    pub key: String,
    pub implicit: bool,
    pub feat: EntryFeat,
}

#[derive(Debug, Clone)]
pub struct GSection {
    pub name: String,
    pub sub: Option<Vec<u8>>,
    pub legacy: bool,
    pub entries: Vec<GEntry>,
}

#[derive(Debug, Clone)]
pub struct Doc {
    pub text: Vec<u8>,
    pub sections: Vec<GSection>,
    pub feat: Feat,
}

pub const SECTION_NAMES: &[&str] = &["a", "b", "core", "Remote", "x-y", "A", "s1"];
pub const SUBSECTIONS: &[&[u8]] = &[
    b"o",
    b"O",
    b"b c",
    b"a.b",
    b"q\"x",
    b"b\\s",
    b"",
    b"x]y",
    b"#h;",
    b"\xc3\xa9",
];
pub const LEGACY_SUBS: &[&str] = &["sub", "o", "x-1", "Sub", "O"];
pub const KEYS: &[&str] = &["k", "K", "key", "l", "a-b", "k1", "Url", "m"];

const WORD: &[u8] = b"abcxyzXY019./:~%()-_=,+*@!?$&|<>{}[]^'`";
const WORD_Q: &[u8] = b"abcxyzXY019./:~%()-_=,+*@!?$&|<>{}[]^'`#; ";
const COMMENT: &[u8] = b" abcx01\"\\#;[]=.\t";

struct Gen<'t, 'a> {
    t: &'t mut Tape<'a>,
    o: Opts,
    eol_style: usize,
    feat: Feat,
    out: Vec<u8>,
}

impl Gen<'_, '_> {
    fn eol(&mut self) {
        let crlf = match self.eol_style {
            0 => false,
            1 => true,
            _ => self.t.bool(),
        };
        if crlf {
            self.out.extend_from_slice(b"\r\n");
        } else {
            self.out.push(b'\n');
        }
    }
    fn spaces(&mut self, allow_empty: bool) {
        let k = self.t.weighted(&[if allow_empty { 5 } else { 0 }, 4, 2, 1, 1]);
        let s: &[u8] = match k {
            0 => b"",
            1 => b" ",
            2 => b"\t",
            3 => b"  ",
            _ => b" \t ",
        };
        self.out.extend_from_slice(s);
    }
    fn high(&mut self) -> &'static [u8] {
        self.feat.high += 1;
        match self.t.below(3) {
            0 => b"\xc3\xa9",
            1 => b"\xe2\x82\xac",
            _ => b"\xff",
        }
    }
    fn comment(&mut self) {
        let tag = if self.t.bool() { b'#' } else { b';' };
        self.out.push(tag);
        let body = self.t.string_of(COMMENT, 0, 8);
        self.out.extend(body);
        if self.o.high_bytes && self.t.chance(16) {
            let h = self.high();
            self.out.extend_from_slice(h);
        }
    }
    fn header(&mut self) -> GSection {
        let name = self.t.pick(SECTION_NAMES).to_string();
        let kind = self.t.weighted(&[5, 5, if self.o.legacy { 2 } else { 0 }]);
        self.out.push(b'[');
        self.out.extend_from_slice(name.as_bytes());
        let mut legacy = false;
        let sub = match kind {
            0 => None,
            1 => {
                let sub: Vec<u8> = self.t.pick(SUBSECTIONS).to_vec();
                let sub = if !self.o.high_bytes && !sub.is_ascii() { b"e".to_vec() } else { sub };
                let sep: &[u8] = match self.t.weighted(&[8, 1, 1]) {
                    0 => b" ",
                    1 => b"\t",
                    _ => b"  ",
                };
                self.out.extend_from_slice(sep);
                self.out.push(b'"');
                for &b in &sub {
                    if b == b'"' || b == b'\\' {
                        self.out.push(b'\\');
                        self.feat.sub_escape += 1;
                    } else if self.o.odd_sub_escape && self.t.chance(16) {
                        self.out.push(b'\\');
                        self.feat.odd_sub_escape += 1;
                    }
                    self.out.push(b);
                }
                let mut sub = sub;
                if self.o.gix_only && self.o.odd_sub_escape && self.t.chance(8) {
                    // an escaped NUL: accepted by the parser, refused by Header::new()
                    self.out.extend_from_slice(b"\\\0");
                    sub.push(0);
                    self.feat.gix_only += 1;
                }
                self.out.extend_from_slice(b"\"");
                Some(sub)
            }
            _ => {
                legacy = true;
                self.feat.legacy += 1;
                let mut sub = self.t.pick(LEGACY_SUBS).to_string();
                if !self.o.legacy_upper {
                    sub = sub.to_lowercase();
                } else if sub.bytes().any(|b| b.is_ascii_uppercase()) {
                    self.feat.legacy_upper += 1;
                }
                if self.o.legacy_multi_dot && self.t.chance(12) {
                    sub.push_str(".c");
                    self.feat.legacy_multi_dot += 1;
                }
                self.out.push(b'.');
                self.out.extend_from_slice(sub.as_bytes());
                Some(sub.into_bytes())
            }
        };
        self.out.push(b']');
        GSection {
            name,
            sub,
            legacy,
            entries: Vec::new(),
        }
    }
    /// the value text (everything between the separator whitespace and the trailing whitespace/comment)
    fn value(&mut self, ef: &mut EntryFeat) {
        let nfrag = self.t.weighted(&[2, 5, 4, 3, 2, 1]);
        if nfrag == 0 {
            self.feat.empty_values += 1;
        }
        let mut inq = false;
        let mut last_was_cont = false;
        let mut has_content = false;
        for i in 0..nfrag {
            last_was_cont = false;
            let mut kind = self.t.weighted(&[8, 3, 3, 2, 2, if self.o.high_bytes { 1 } else { 0 }]);
            if kind == 4 && !self.o.cont_leading_ws && !has_content {
                kind = 0;
            }
            if kind != 1 && kind != 4 {
                has_content = true;
            }
            match kind {
                0 => {
                    let w = self.t.string_of(if inq { WORD_Q } else { WORD }, 1, 5);
                    self.out.extend(w);
                }
                1 => {
                    // interior whitespace
                    let k = self.t.weighted(&[5, 3, if inq || self.o.inner_tab { 1 } else { 0 }, if !inq && self.o.inner_tab { 1 } else { 0 }]);
                    match k {
                        0 => self.out.push(b' '),
                        1 => {
                            self.out.extend_from_slice(b"   ");
                            ef.ws_run = true;
                            self.feat.ws_runs += 1;
                        }
                        2 => {
                            self.out.push(b'\t');
                            ef.ws_run = true;
                            if !inq {
                                ef.tab = true;
                                self.feat.inner_tab += 1;
                            }
                        }
                        _ => {
                            // a lone CR in the middle of a value is whitespace for git, too
                            self.out.extend_from_slice(b"\rz");
                            ef.tab = true;
                            self.feat.inner_tab += 1;
                        }
                    }
                    if i + 1 == nfrag && !inq {
                        // avoid confusing interior with trailing whitespace: always end on a word
                        self.out.push(b'e');
                    }
                }
                2 => {
                    self.out.push(b'"');
                    inq = !inq;
                    ef.quoted = true;
                    self.feat.quoted += 1;
                }
                3 => {
                    let k = self.t.weighted(&[3, 3, 3, 3, if self.o.bs_escape { 2 } else { 0 }]);
                    let e: &[u8] = match k {
                        0 => b"\\n",
                        1 => b"\\t",
                        2 => b"\\\\",
                        3 => b"\\\"",
                        _ => {
                            ef.bs = true;
                            self.feat.bs_escape += 1;
                            b"\\b"
                        }
                    };
                    self.out.extend_from_slice(e);
                    ef.escape = true;
                    self.feat.escapes += 1;
                }
                4 => {
                    self.out.push(b'\\');
                    self.eol();
                    if self.o.cont_leading_ws {
                        self.spaces(true);
                    } else {
                        let n = self.t.below(3);
                        self.out.extend(std::iter::repeat(b' ').take(n));
                    }
                    ef.continuation = true;
                    self.feat.continuation += 1;
                    last_was_cont = true;
                }
                _ => {
                    let h = self.high();
                    self.out.extend_from_slice(h);
                }
            }
        }
        if inq {
            self.out.push(b'"');
        }
        if last_was_cont && !inq {
            // a continuation followed by nothing: keep something on the last line unless asked otherwise
            if !(self.o.cont_at_eof && self.t.chance(40)) {
                self.out.push(b'z');
            }
        }
    }
    fn entry(&mut self, sec: &mut GSection, on_header_line: bool) {
        if !on_header_line {
            self.spaces(true);
        }
        let key = self.t.pick(KEYS).to_string();
        self.out.extend_from_slice(key.as_bytes());
        let mut ef = EntryFeat::default();
        let implicit = self.t.chance(40);
        if implicit {
            self.feat.implicit += 1;
            if self.o.implicit_trailing_ws {
                self.spaces(true);
            }
            if self.o.gix_only && self.t.chance(24) {
                self.feat.gix_only += 1;
                if self.t.bool() {
                    self.out.push(b' ');
                    self.comment();
                } else {
                    // a second implicit key on the same line
                    self.out.push(b' ');
                    let k2 = self.t.pick(KEYS).to_string();
                    self.out.extend_from_slice(k2.as_bytes());
                    sec.entries.push(GEntry {
                        key: key.clone(),
                        implicit: true,
                        feat: ef.clone(),
                    });
                    sec.entries.push(GEntry {
                        key: k2,
                        implicit: true,
                        feat: ef,
                    });
                    self.feat.entries += 2;
                    self.eol();
                    return;
                }
            }
        } else {
            self.spaces(true);
            self.out.push(b'=');
            self.spaces(true);
            self.value(&mut ef);
            self.spaces(true);
            if self.t.chance(40) {
                self.feat.inline_comments += 1;
                self.comment();
            }
        }
        self.feat.entries += 1;
        sec.entries.push(GEntry { key, implicit, feat: ef });
        self.eol();
    }
    fn filler(&mut self) {
        match self.t.weighted(&[6, 2, 2, 1]) {
            0 => {}
            1 => {
                self.spaces(true);
                self.feat.comments += 1;
                self.comment();
                self.eol();
            }
            2 => self.eol(),
            _ => {
                self.spaces(false);
                self.eol();
            }
        }
    }
}

/// Decode one config document from the tape.
pub fn gen_doc(t: &mut Tape, o: Opts) -> Doc {
    // The constructs on which gitoxide is already known to deviate (see known_findings.json: BOM, odd subsection
    // escapes, \b, interior tabs/CR, blanks after an implicit key or at the start of a continued value, upper-case or
    // multi-dot legacy headers, continuation at EOF) are confined to a quarter of the documents ("spicy" ones), so
    // that three quarters of the search is never shadowed by a known class.
    let spicy = t.chance(64);
    let o = if spicy {
        o
    } else {
        Opts {
            bom: false,
            legacy_upper: false,
            legacy_multi_dot: false,
            odd_sub_escape: false,
            bs_escape: false,
            inner_tab: false,
            cont_at_eof: false,
            cont_leading_ws: false,
            implicit_trailing_ws: false,
            ..o
        }
    };
    let eol_style = if o.crlf { t.weighted(&[6, 2, 2]) } else { 0 };
    let mut g = Gen {
        t,
        o,
        eol_style,
        feat: Feat::default(),
        out: Vec::new(),
    };
    g.feat.crlf = eol_style == 1;
    g.feat.mixed_eol = eol_style == 2;
    if o.bom && g.t.chance(40) {
        g.out.extend_from_slice(b"\xef\xbb\xbf");
        g.feat.bom = true;
    }
    // front matter
    g.filler();
    if g.t.chance(60) {
        g.filler();
    }
    let nsections = g.t.range(1, o.max_sections.max(1));
    let mut sections = Vec::new();
    for _ in 0..nsections {
        if g.t.chance(24) {
            g.spaces(false);
        }
        let mut sec = g.header();
        let mut on_header_line = false;
        match g.t.weighted(&[8, 1, 1, if o.same_line { 2 } else { 0 }]) {
            0 => g.eol(),
            1 => {
                g.spaces(false);
                g.eol();
            }
            2 => {
                g.spaces(true);
                g.feat.inline_comments += 1;
                g.comment();
                g.eol();
            }
            _ => {
                g.spaces(true);
                g.feat.same_line += 1;
                on_header_line = true;
            }
        }
        let nentries = if on_header_line {
            g.t.range(1, o.max_entries.max(1))
        } else {
            g.t.range(0, o.max_entries)
        };
        for i in 0..nentries {
            g.entry(&mut sec, on_header_line && i == 0);
            if g.t.chance(50) {
                g.filler();
            }
        }
        sections.push(sec);
    }
    let mut forced_cont_at_eof = false;
    if o.cont_at_eof && g.t.chance(24) {
        // `k=a\<EOL><EOF>`: git reads "a"
        g.out.extend_from_slice(b"k=a\\");
        g.eol();
        let mut ef = EntryFeat::default();
        ef.continuation = true;
        g.feat.continuation += 1;
        g.feat.entries += 1;
        if let Some(s) = sections.last_mut() {
            s.entries.push(GEntry {
                key: "k".into(),
                implicit: false,
                feat: ef,
            });
        }
        forced_cont_at_eof = true;
    }
    let mut feat = g.feat;
    let mut text = g.out;
    feat.cont_at_eof = forced_cont_at_eof;
    if !forced_cont_at_eof && g.t.chance(40) {
        // missing final newline
        if text.ends_with(b"\r\n") {
            text.truncate(text.len() - 2);
            feat.no_final_newline = true;
        } else if text.ends_with(b"\n") {
            text.truncate(text.len() - 1);
            feat.no_final_newline = true;
        }
    }
    if text.ends_with(b"\\\n") || text.ends_with(b"\\\r\n") || text.ends_with(b"\\") {
        feat.cont_at_eof = true;
    }
    feat.sections = sections.len() as u32;
    let mut seen = HashSet::new();
    for s in &sections {
        if !seen.insert((s.name.to_ascii_lowercase(), s.sub.clone())) {
            feat.dup_sections = true;
        }
    }
    Doc { text, sections, feat }
}

/// One byte-level mutation (C06 recipe) of `text`.
pub fn mutate(t: &mut Tape, text: &mut Vec<u8>) -> &'static str {
    const INTERESTING: &[u8] = b"\"\\#;=[]\r\n \t.ak-\x00\xef\xbb\xbf\x0c";
    if text.is_empty() {
        text.push(*t.pick(INTERESTING));
        return "mut-insert";
    }
    let len = text.len();
    match t.weighted(&[3, 3, 3, 2, 1, 1]) {
        0 => {
            let p = t.below(len);
            text.remove(p);
            "mut-delete"
        }
        1 => {
            let p = t.below(len + 1);
            let b = *t.pick(INTERESTING);
            text.insert(p, b);
            "mut-insert"
        }
        2 => {
            let p = t.below(len);
            text[p] = *t.pick(INTERESTING);
            "mut-replace"
        }
        3 => {
            let a = t.below(len);
            let n = t.range(1, 12).min(len - a);
            let slice = text[a..a + n].to_vec();
            let p = t.below(len + 1);
            for (i, b) in slice.into_iter().enumerate() {
                text.insert(p + i, b);
            }
            "mut-dup"
        }
        4 => {
            let p = t.below(len);
            text.truncate(p);
            "mut-truncate"
        }
        _ => {
            if len >= 2 {
                let p = t.below(len - 1);
                text.swap(p, p + 1);
            }
            "mut-swap"
        }
    }
}

// ---------------------------------------------------------------------------------------------
// gitoxide's view of a text, extracted from the parse events

#[derive(Debug, Clone, PartialEq, Eq, Hash)]
pub struct MEntry {
    pub key: Vec<u8>,
    /// no `=`
    pub implicit: bool,
    /// concatenated value events, not normalized
    pub raw: Vec<u8>,
    /// the value as written in the file: value events joined by `\`+newline (the continuations)
    pub src: Vec<u8>,
    /// `gix_config::value::normalize(raw)`
    pub value: Vec<u8>,
    /// whitespace between the name and the placeholder value of an implicit key (`k <LF>`)
    pub implicit_trailing_ws: bool,
    /// a `Value` event followed `ValueNotDone` events (undocumented sequence, seen for `k = a\<LF><EOF>`);
    /// `File` then uses the `Value` event alone, and so does this model
    pub ill_formed: bool,
}

#[derive(Debug, Clone, PartialEq, Eq, Hash)]
pub struct MSection {
    pub name: Vec<u8>,
    pub sub: Option<Vec<u8>>,
    pub legacy: bool,
    pub entries: Vec<MEntry>,
    /// comment events (tag + text) in this section's body
    pub comments: Vec<Vec<u8>>,
}

pub fn model_from_events(ev: &Events<'_>) -> Vec<MSection> {
    let mut out = Vec::new();
    for s in &ev.sections {
        let mut sec = MSection {
            name: s.header.name().to_vec(),
            sub: s.header.subsection_name().map(|b| b.to_vec()),
            legacy: s.header.is_legacy(),
            entries: Vec::new(),
            comments: Vec::new(),
        };
        let mut cur: Option<MEntry> = None;
        let mut done = true;
        for e in &s.events {
            match e {
                Event::SectionValueName(k) => {
                    if let Some(c) = cur.take() {
                        sec.entries.push(c);
                    }
                    cur = Some(MEntry {
                        key: k.as_ref().as_bytes().to_vec(),
                        implicit: true,
                        raw: Vec::new(),
                        src: Vec::new(),
                        value: Vec::new(),
                        implicit_trailing_ws: false,
                        ill_formed: false,
                    });
                    done = false;
                }
                Event::KeyValueSeparator => {
                    if let Some(c) = cur.as_mut() {
                        c.implicit = false;
                        c.implicit_trailing_ws = false;
                    }
                }
                Event::Whitespace(_) => {
                    if let (Some(c), false) = (cur.as_mut(), done) {
                        if c.implicit {
                            c.implicit_trailing_ws = true;
                        }
                    }
                }
                Event::ValueDone(v) => {
                    if let (Some(c), false) = (cur.as_mut(), done) {
                        c.raw.extend_from_slice(v);
                        c.src.extend_from_slice(v);
                        done = true;
                    }
                }
                Event::Value(v) => {
                    if let (Some(c), false) = (cur.as_mut(), done) {
                        if !c.raw.is_empty() {
                            c.ill_formed = true;
                        }
                        c.raw = v.to_vec();
                        c.src.extend_from_slice(v);
                        done = true;
                    }
                }
                Event::ValueNotDone(v) => {
                    if let (Some(c), false) = (cur.as_mut(), done) {
                        c.raw.extend_from_slice(v);
                        c.src.extend_from_slice(v);
                        c.src.extend_from_slice(b"\\\n");
                    }
                }
                Event::Comment(c) => {
                    let mut t = vec![c.tag];
                    t.extend_from_slice(&c.text);
                    sec.comments.push(t);
                }
                _ => {}
            }
        }
        if let Some(c) = cur.take() {
            sec.entries.push(c);
        }
        for e in &mut sec.entries {
            e.value = gix_config::value::normalize_bstr(e.raw.as_slice()).to_vec();
        }
        out.push(sec);
    }
    out
}

pub fn parse_model(text: &[u8]) -> Result<Vec<MSection>, String> {
    let ev = Events::from_bytes(text, None).map_err(|e| e.to_string())?;
    Ok(model_from_events(&ev))
}

/// zero-copy File borrowing `text`
pub fn load_file_borrowed(text: &[u8]) -> Result<gix_config::File<'_>, String> {
    gix_config::File::from_bytes_no_includes(text, gix_config::file::Metadata::api(), Default::default())
        .map_err(|e| e.to_string())
}

/// File with owned events (same parser, events converted with `to_owned`)
pub fn load_file(text: &[u8]) -> Result<gix_config::File<'static>, String> {
    let ev = Events::from_bytes_owned(text, None).map_err(|e| e.to_string())?;
    Ok(gix_config::File::from_parse_events_no_includes(
        ev,
        gix_config::file::Metadata::api(),
    ))
}

// ---------------------------------------------------------------------------------------------
// git's view

#[derive(Debug, Clone, PartialEq, Eq, Hash)]
pub struct GitEntry {
    /// lower-case section name
    pub section: Vec<u8>,
    pub sub: Option<Vec<u8>>,
    /// lower-case variable name
    pub key: Vec<u8>,
    /// None: implicit (no `=`)
    pub value: Option<Vec<u8>>,
}

impl GitEntry {
    pub fn full_key(&self) -> Vec<u8> {
        join_key(&self.section, self.sub.as_deref(), &self.key)
    }
}

pub fn join_key(section: &[u8], sub: Option<&[u8]>, key: &[u8]) -> Vec<u8> {
    let mut k = section.to_vec();
    k.push(b'.');
    if let Some(s) = sub {
        k.extend_from_slice(s);
        k.push(b'.');
    }
    k.extend_from_slice(key);
    k
}

/// split `section[.sub].key` like git does: first and last dot
pub fn split_key(full: &[u8]) -> Option<(Vec<u8>, Option<Vec<u8>>, Vec<u8>)> {
    let first = full.iter().position(|b| *b == b'.')?;
    let last = full.iter().rposition(|b| *b == b'.')?;
    let section = full[..first].to_vec();
    let key = full[last + 1..].to_vec();
    let sub = if last > first { Some(full[first + 1..last].to_vec()) } else { None };
    Some((section, sub, key))
}

pub fn parse_git_list(out: &[u8]) -> Result<Vec<GitEntry>, String> {
    let mut entries = Vec::new();
    let mut rest = out;
    while !rest.is_empty() {
        let end = rest
            .iter()
            .position(|b| *b == 0)
            .ok_or_else(|| "git --list -z output not NUL terminated".to_string())?;
        let rec = &rest[..end];
        rest = &rest[end + 1..];
        let (k, v) = match rec.iter().position(|b| *b == b'\n') {
            Some(p) => (&rec[..p], Some(rec[p + 1..].to_vec())),
            None => (rec, None),
        };
        let (section, sub, key) = split_key(k).ok_or_else(|| format!("git listed a key without dot: {:?}", vp::show(k)))?;
        entries.push(GitEntry {
            section,
            sub,
            key,
            value: v,
        });
    }
    Ok(entries)
}

/// `git config -f <path> --list -z`; Ok(None) when git rejects the file.
pub fn git_list(git: &Git, path: &std::path::Path) -> Result<Option<Vec<GitEntry>>, String> {
    let (ok, out, err) = git.try_run(
        [
            std::ffi::OsStr::new("config"),
            std::ffi::OsStr::new("-f"),
            path.as_os_str(),
            std::ffi::OsStr::new("--list"),
            std::ffi::OsStr::new("-z"),
        ],
        None,
    )?;
    if !ok {
        let e = String::from_utf8_lossy(&err);
        if e.contains("bad config") || e.contains("fatal:") || e.contains("error:") {
            return Ok(None);
        }
        return Err(format!("git config --list failed strangely: {e}"));
    }
    parse_git_list(&out).map(Some)
}

/// signatures of findings listed as "known" for `property` in /verif/known_findings.json (read-only)
pub fn known_signatures(property: &str) -> HashSet<String> {
    let mut out = HashSet::new();
    if let Ok(s) = std::fs::read_to_string("/verif/known_findings.json") {
        if let Ok(v) = serde_json::from_str::<serde_json::Value>(&s) {
            if let Some(a) = v["findings"].as_array() {
                for e in a {
                    if e["property"].as_str() == Some(property) && e["status"].as_str() == Some("known") {
                        if let Some(sig) = e["signature"].as_str() {
                            out.insert(sig.to_string());
                        }
                    }
                }
            }
        }
    }
    out
}

/// Collects every mismatch of a case; reports the first one whose signature is not a known finding
/// (so that a known class never hides a new one in the same case), else the first.
#[derive(Default)]
pub struct Findings {
    pub items: Vec<(String, String)>,
}

impl Findings {
    pub fn add(&mut self, sig: &str, msg: String) {
        if self.items.len() < 64 {
            self.items.push((sig.to_string(), msg));
        }
    }
    pub fn is_empty(&self) -> bool {
        self.items.is_empty()
    }
    pub fn report(self, c: &mut vp::Case, known: &HashSet<String>) {
        if self.items.is_empty() {
            return;
        }
        let pick = self
            .items
            .iter()
            .find(|(sig, _)| !known.contains(sig))
            .unwrap_or(&self.items[0]);
        c.fail_sig(&pick.0, pick.1.clone());
    }
}

