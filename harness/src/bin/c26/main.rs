//! C26 — config files round-trip losslessly.
//!
//! (1) for every input the event parser accepts, the concatenation of `Event::write_to` reproduces the input
//!     byte for byte (borrowed, owned and streaming parser agree);
//! (2) `File::from_bytes_no_includes(input).to_bstring()` parses back to the same sections, keys and values,
//!     answers every lookup identically, and never drops or changes an input byte (it may only insert newlines).
mod cfggen;

use bstr::ByteSlice;
use cfggen::*;
use gix_config::parse::{Event, Events};
use std::collections::HashSet;
use vp::*;

const BOM: &[u8] = b"\xef\xbb\xbf";

/// `out` can be obtained from `text` by deleting backslashes that sit in section-header lines only.
fn only_header_backslashes_dropped(text: &[u8], out: &[u8]) -> bool {
    let (mut i, mut j) = (0, 0);
    let mut dropped = 0;
    while i < text.len() {
        if j < out.len() && text[i] == out[j] {
            i += 1;
            j += 1;
            continue;
        }
        if text[i] == b'\\' {
            let line_start = text[..i].iter().rposition(|b| *b == b'\n').map_or(0, |p| p + 1);
            // the dropped backslash must sit inside a quoted subsection: `[name "` precedes it on the line
            let before = &text[line_start..i];
            let Some(open) = before.iter().position(|b| *b == b'[') else {
                return false;
            };
            if !before[open..].contains(&b'"') {
                return false;
            }
            // only SUPERFLUOUS escapes belong to the known class: `\"` and `\\` must be written back
            if matches!(text.get(i + 1), Some(b'"' | b'\\') | None) {
                return false;
            }
            dropped += 1;
            i += 1;
            continue;
        }
        return false;
    }
    j == out.len() && dropped > 0
}

/// `base` embeds into `longer` such that all additional bytes of `longer` are CR or LF.
fn only_newlines_inserted(base: &[u8], longer: &[u8]) -> bool {
    let (mut i, mut j) = (0, 0);
    while j < longer.len() {
        if i < base.len() && base[i] == longer[j] {
            i += 1;
            j += 1;
        } else if matches!(longer[j], b'\r' | b'\n') {
            j += 1;
        } else {
            return false;
        }
    }
    i == base.len()
}

fn semantic(m: &[MSection]) -> Vec<(Vec<u8>, Option<Vec<u8>>, Vec<(Vec<u8>, bool, Vec<u8>)>)> {
    m.iter()
        .map(|s| {
            (
                s.name.clone(),
                s.sub.clone(),
                s.entries.iter().map(|e| (e.key.clone(), e.implicit, e.value.clone())).collect(),
            )
        })
        .collect()
}

struct Parsed {
    sections: usize,
    continuation: bool,
    quoted: bool,
}

/// Runs all oracles on one input. Returns None if the input does not parse (outside the property's domain).
fn check_text(text: &[u8], f: &mut Findings) -> Option<Parsed> {
    let ev = match Events::from_bytes(text, None) {
        Ok(ev) => ev,
        Err(_) => {
            // rejecting must be consistent between the entry points
            if Events::from_bytes_owned(text, None).is_ok() {
                f.add("parser-entry-points-disagree", format!("from_bytes rejects but from_bytes_owned accepts {}", show(text)));
            }
            if load_file(text).is_ok() {
                f.add("parser-entry-points-disagree", format!("Events::from_bytes rejects but File accepts {}", show(text)));
            }
            return None;
        }
    };
    // (1) events reproduce the input
    let all: Vec<Event<'_>> = ev.clone().into_vec();
    let mut out = Vec::with_capacity(text.len());
    for e in &all {
        e.write_to(&mut out).expect("write to Vec");
    }
    let mut base: &[u8] = text;
    let nul_sub = ev.sections.iter().any(|s| s.header.subsection_name().map_or(false, |s| s.contains(&0)));
    if out != base {
        if base.starts_with(BOM) && !out.starts_with(BOM) {
            f.add(
                "bom-dropped",
                format!("the byte order mark is consumed without an event: events serialize to {} for input {}", show(&out), show(text)),
            );
            base = &base[BOM.len()..];
        }
        if out != base {
            if nul_sub {
                f.add(
                    "subsection-escaped-nul",
                    format!("an escaped NUL in a quoted subsection is written unescaped: {} -> {}", show(text), show(&out)),
                );
            } else if only_header_backslashes_dropped(base, &out) {
                f.add(
                    "subsection-escape-normalized",
                    format!("superfluous escapes in a quoted subsection are not reproduced: {} -> {}", show(text), show(&out)),
                );
            } else {
                f.add("events-not-lossless", format!("events serialize to {} for input {}", show(&out), show(text)));
            }
        }
    }
    // every event also round-trips through to_bstring (same writer) and through the owned conversion
    match Events::from_bytes_owned(text, None) {
        Ok(owned) => {
            if owned.clone().into_vec() != all {
                f.add("owned-events-differ", format!("from_bytes_owned yields different events for {}", show(text)));
            }
            let mut out2 = Vec::new();
            for e in owned.into_iter() {
                out2.extend_from_slice(&e.to_bstring());
            }
            if out2 != out {
                f.add("owned-events-differ", format!("owned events serialize differently for {}", show(text)));
            }
        }
        Err(e) => f.add("parser-entry-points-disagree", format!("from_bytes_owned rejects ({e}) what from_bytes accepts: {}", show(text))),
    }
    let mut streamed = Vec::new();
    let r = gix_config::parse::from_bytes(text, &mut |e| streamed.push(e));
    if r.is_err() || streamed != all {
        f.add("streaming-events-differ", format!("parse::from_bytes dispatches different events for {}", show(text)));
    }

    // (2) File -> bytes -> File
    let model = model_from_events(&ev);
    // `k = a\<LF><EOF>`: the parser emits ValueNotDone, Newline, Value("") (documented: ValueDone); File then
    // reads "" and, because File::to_bstring() appends a newline, reads "a" after the round-trip.
    let ill = model.iter().any(|s| s.entries.iter().any(|e| e.ill_formed));
    let sem_sig = if ill { "continuation-at-eof-value" } else { "file-roundtrip-semantics" };
    let lookup_sig = if ill { "continuation-at-eof-value" } else { "file-roundtrip-lookup" };
    let file = match load_file(text) {
        Ok(file) => file,
        Err(e) => {
            f.add("parser-entry-points-disagree", format!("File::from_bytes_no_includes rejects ({e}) what Events::from_bytes accepts: {}", show(text)));
            return None;
        }
    };
    // the File exposes the same sections and (key, value) pairs as the events
    {
        let fsecs: Vec<_> = file.sections().collect();
        if fsecs.len() != model.len() {
            f.add("file-sections-differ", format!("File has {} sections, events have {} for {}", fsecs.len(), model.len(), show(text)));
        } else {
            for (fs, ms) in fsecs.iter().zip(&model) {
                let h = fs.header();
                let same_header = h.name().as_bytes() == ms.name.as_slice() && h.subsection_name().map(|s| s.to_vec()) == ms.sub;
                let pairs: Vec<(Vec<u8>, Vec<u8>)> = fs
                    .body()
                    .clone()
                    .into_iter()
                    .map(|(k, v)| (k.as_ref().as_bytes().to_vec(), v.to_vec()))
                    .collect();
                let want: Vec<(Vec<u8>, Vec<u8>)> = ms.entries.iter().map(|e| (e.key.clone(), e.value.clone())).collect();
                if !same_header || pairs != want {
                    f.add(
                        "file-sections-differ",
                        format!("File section {:?} has pairs {:?}, events say {:?} / {:?} for {}", h.to_bstring(), pairs, ms, want, show(text)),
                    );
                    break;
                }
            }
        }
    }
    let text2 = file.to_bstring();
    match load_file_borrowed(text) {
        Ok(fb) => {
            if fb.to_bstring() != text2 {
                f.add("file-sections-differ", format!("zero-copy File and owned File serialize differently for {}", show(text)));
            }
        }
        Err(e) => f.add("parser-entry-points-disagree", format!("File::from_bytes_no_includes rejects ({e}) what Events::from_bytes accepts: {}", show(text))),
    }
    if !only_newlines_inserted(&out, &text2) {
        f.add(
            "file-write-not-lossless",
            format!("File::to_bstring() changed more than newlines: {} -> {}", show(text), show(&text2)),
        );
    }
    let file2 = match load_file(&text2) {
        Ok(f2) => f2,
        Err(e) => {
            let nul = model.iter().any(|s| s.sub.as_ref().map_or(false, |s| s.contains(&0)));
            f.add(if nul { "subsection-escaped-nul" } else { "file-output-unparsable" }, format!("File::to_bstring() output does not parse ({e}): {} -> {}", show(text), show(&text2)));
            return None;
        }
    };
    match parse_model(&text2) {
        Ok(model2) => {
            if semantic(&model) != semantic(&model2) {
                f.add(
                    sem_sig,
                    format!(
                        "sections/values differ after File round-trip: {} -> {}\n before {:?}\n after  {:?}",
                        show(text),
                        show(&text2),
                        semantic(&model),
                        semantic(&model2)
                    ),
                );
            }
        }
        Err(e) => f.add("file-output-unparsable", format!("output does not parse as events ({e}): {}", show(&text2))),
    }
    if file != file2 {
        f.add(sem_sig, format!("File != reparsed File for {} -> {}", show(text), show(&text2)));
    }
    // all lookups answer identically
    let mut seen = HashSet::new();
    for s in &model {
        let Ok(name) = std::str::from_utf8(&s.name) else { continue };
        for e in &s.entries {
            let Ok(key) = std::str::from_utf8(&e.key) else { continue };
            if !seen.insert((s.name.to_ascii_lowercase(), s.sub.clone(), e.key.to_ascii_lowercase())) {
                continue;
            }
            let sub = s.sub.as_deref().map(|b| b.as_bstr());
            let a = file.raw_values_by(name, sub, key).map_err(|e| e.to_string());
            let b = file2.raw_values_by(name, sub, key).map_err(|e| e.to_string());
            if a != b {
                f.add(lookup_sig, format!("raw_values({:?},{:?},{key}) = {a:?} before, {b:?} after round-trip of {}", name, sub, show(text)));
            }
            let a = file.raw_value_by(name, sub, key).map_err(|e| e.to_string());
            let b = file2.raw_value_by(name, sub, key).map_err(|e| e.to_string());
            if a != b {
                f.add(lookup_sig, format!("raw_value({:?},{:?},{key}) = {a:?} before, {b:?} after round-trip of {}", name, sub, show(text)));
            }
            let a = file.boolean_by(name, sub, key).map(|r| r.map_err(|e| e.to_string()));
            let b = file2.boolean_by(name, sub, key).map(|r| r.map_err(|e| e.to_string()));
            if a != b {
                f.add(lookup_sig, format!("boolean({:?},{:?},{key}) = {a:?} before, {b:?} after round-trip of {}", name, sub, show(text)));
            }
        }
    }
    Some(Parsed {
        sections: model.len(),
        continuation: all.iter().any(|e| matches!(e, Event::ValueNotDone(_))),
        quoted: all
            .iter()
            .any(|e| matches!(e, Event::Value(v) | Event::ValueDone(v) | Event::ValueNotDone(v) if v.contains(&b'"'))),
    })
}

fn label_feat(c: &mut Case, ft: &Feat) {
    c.label_if(ft.bom, "bom");
    c.label_if(ft.crlf, "crlf");
    c.label_if(ft.mixed_eol, "mixed-eol");
    c.label_if(ft.no_final_newline, "no-final-newline");
    c.label_if(ft.continuation > 0, "continuation");
    c.label_if(ft.quoted > 0, "quoted");
    c.label_if(ft.escapes > 0, "escapes");
    c.label_if(ft.comments + ft.inline_comments > 0, "comments");
    c.label_if(ft.implicit > 0, "implicit");
    c.label_if(ft.empty_values > 0, "empty-value");
    c.label_if(ft.legacy > 0, "legacy-header");
    c.label_if(ft.same_line > 0, "entry-on-header-line");
    c.label_if(ft.sub_escape > 0, "subsection-escape");
    c.label_if(ft.odd_sub_escape > 0, "subsection-odd-escape");
    c.label_if(ft.high > 0, "high-bytes");
    c.label_if(ft.gix_only > 0, "gix-only-syntax");
    c.label_if(ft.cont_at_eof, "continuation-at-eof");
    c.label_if(ft.dup_sections, "duplicate-sections");
    c.label_if(ft.inner_tab > 0, "inner-tab");
}

pub fn main() {
    let mut ck = Check::new("C26", "exploration");
    ck.rule("Config texts decoded from a byte tape by a grammar (optional BOM; [name], [name \"sub\"] with escapes, legacy [name.sub]; keys from a small pool so that sections and keys repeat; implicit, empty and fragment-built values: words, blank runs, quoted parts, \\n \\t \\b \\\\ \\\" escapes, LF/CRLF continuations inside and outside quotes; trailing blanks, inline and full-line comments, blank lines, LF/CRLF/mixed, missing final newline, entries on the header line), plus 1-4 byte-level mutations of such texts that still parse, plus the repository's fixture files. Non-trivial: the input parses, has >= 2 sections and >= 1 continuation line or quoted value part. Distinct by hash of the input text.");
    ck.assume("File::to_bstring() is allowed to insert newlines (documented as 'mostly lossless'); the statement only requires semantic equality for the File round-trip");
    let known = known_signatures("C26");

    let known1 = known.clone();
    ck.sub("generated", SubCfg::new(400_000, 6_000_000).max_len(1500).max_shrink(20_000), move |t, c| {
        let doc = gen_doc(t, Opts::everything());
        c.key(&doc.text);
        label_feat(c, &doc.feat);
        c.sample_with(|| show(&doc.text));
        let mut f = Findings::default();
        match check_text(&doc.text, &mut f) {
            Some(p) => {
                c.label("parses");
                c.nontrivial(p.sections >= 2 && (p.continuation || p.quoted));
            }
            None => {
                // the generator only emits what the grammar allows: a rejection is worth knowing about,
                // but it is outside C26's domain (C27 compares acceptance with git)
                c.label("rejected-by-gix");
            }
        }
        f.report(c, &known1);
    });

    let known2 = known.clone();
    ck.sub("mutated", SubCfg::new(400_000, 6_000_000).max_len(1600).max_discard_pct(40).max_shrink(20_000), move |t, c| {
        let doc = gen_doc(t, Opts::everything());
        let mut f = Findings::default();
        let mut accepted = None;
        for _attempt in 0..6 {
            let mut text = doc.text.clone();
            let n = t.range(1, 4);
            let mut last = "";
            for _ in 0..n {
                last = mutate(t, &mut text);
            }
            if text == doc.text {
                continue;
            }
            if let Some(p) = check_text(&text, &mut f) {
                accepted = Some((text, p, last));
                break;
            }
            if !f.is_empty() {
                break;
            }
        }
        match accepted {
            Some((text, p, last)) => {
                c.key(&text);
                c.label(last);
                c.label_if(text.contains(&0), "nul-byte");
                c.label_if(text.contains(&b'\r'), "cr");
                c.nontrivial(p.sections >= 2 && (p.continuation || p.quoted));
                c.sample_with(|| show(&text));
            }
            None => {
                if f.is_empty() {
                    c.discard();
                    return;
                }
            }
        }
        f.report(c, &known2);
    });

    let known3 = known;
    ck.sub_enum("fixtures", move |r| {
        let repo = std::env::var("VERIF_REPO").unwrap_or_else(|_| "/repo".into());
        let mut files: Vec<std::path::PathBuf> = Vec::new();
        let mut stack = vec![std::path::PathBuf::from(format!("{repo}/gix-config/tests/fixtures"))];
        while let Some(d) = stack.pop() {
            if let Ok(rd) = std::fs::read_dir(&d) {
                for e in rd.flatten() {
                    let p = e.path();
                    if p.is_dir() {
                        stack.push(p);
                    } else if !matches!(p.extension().and_then(|e| e.to_str()), Some("sh" | "xz" | "tar")) {
                        files.push(p);
                    }
                }
            }
        }
        files.sort();
        let mut texts: Vec<(String, Vec<u8>)> = Vec::new();
        for p in files {
            if let Ok(data) = std::fs::read(&p) {
                if data.len() <= 1 << 16 {
                    texts.push((p.display().to_string(), data));
                }
            }
        }
        const SEEDS: &[&[u8]] = &[
            b"[core]\n\tbare = false\n\trepositoryformatversion = 0\n[remote \"origin\"]\n\turl = https://example.com/x.git\n\tfetch = +refs/heads/*:refs/remotes/origin/*\n",
            b"; c\n[a]k=v\n[a \"s\"]\nk = \"a b\" ; c\n\tl = x\\\n   y\n[a.b]\nm\n",
            b"[a]\r\nk = v\r\n[b]\r\nl = \"q\\\r\n r\"\r\n",
            b"[alias]\n\tl = \"!f() { git log \\\"$@\\\"; }; f\"\n[x \"y\\\\z\"]\n\tk = 1\n",
            b"[a] k = v\n[b] ; c\nk\n[c]k=\n",
        ];
        for (i, s) in SEEDS.iter().enumerate() {
            texts.push((format!("seed-{i}"), s.to_vec()));
        }
        for (name, data) in &texts {
            let mut f = Findings::default();
            let p = check_text(data, &mut f);
            let nt = p.as_ref().map_or(false, |p| p.sections >= 2 && (p.continuation || p.quoted));
            let mut h = std::collections::hash_map::DefaultHasher::new();
            std::hash::Hash::hash(&data, &mut h);
            r.eval(std::hash::Hasher::finish(&h), nt);
            r.label(if p.is_some() { "parses" } else { "rejected" });
            if nt {
                r.sample(format!("{name} ({} bytes)", data.len()));
            }
            if let Some((sig, msg)) = f.items.iter().find(|(s, _)| !known3.contains(s)).or(f.items.first()) {
                r.fail(sig, format!("{name}: {msg}"), data);
            }
        }
        r.exhaustive = true;
    });

    ck.finish();
}
