//! C10 — indexing a received pack matches `git index-pack`.
//!
//! World: a generated history is imported into a sender repository with `git fast-import`; the receiver repository
//! gets a prefix of the same import stream (so it holds exactly the objects up to a base commit, loose or packed).
//! The stream is made by `git pack-objects --stdout --revs` (full, incremental, or `--thin` against `^base`, with
//! generated depth/window/compression). Sub-checks:
//!  * `index`   `Bundle::write_to_directory` for every thread limit in {1,2,3,4,8,16} (lookup = receiver object database
//!    for thin packs, `None` or the database for complete packs): pack and index bytes are identical for all thread
//!    limits; the index equals what `git index-pack` writes for the stored pack, byte for byte; for complete packs
//!    the stored pack equals the input; for thin packs the id set equals the one `git index-pack --fix-thin` derives;
//!    reported hashes/counts match the files; after storing into the receiver every indexed object is retrievable through
//!    `gix_odb` with the bytes the sender's git reports, and `git fsck` of the receiver (branch moved to the tip) is clean.
//!  * `faults`  truncations (header, mid-entry, entry boundary, before/inside the trailer) and corruptions (bit flips,
//!    random bytes, zero/0xff runs, version and object-count fields, entry headers, zlib data, trailer) of such streams:
//!    the call must return `Err` and leave the target directory empty, for a generated thread limit — unless real git
//!    accepts the very same bytes. Runs in worker processes so that an abort is reported, not suffered.
//!  * `header-fields`  exactly one fault in the 12-byte header of a small complete pack (version values, object-count
//!    values incl. 0 / n+-1 / huge, every single-bit flip), same oracle; streams whose count field is huge are
//!    evaluated in a child process of their own (the index writer pre-allocates by that count).
use std::collections::{BTreeMap, BTreeSet};
use std::path::{Path, PathBuf};
use std::sync::atomic::AtomicBool;

use vp::*;

struct Rng(u64);
impl Rng {
    fn next(&mut self) -> u64 {
        let mut x = self.0;
        x ^= x >> 12;
        x ^= x << 25;
        x ^= x >> 27;
        self.0 = x;
        x.wrapping_mul(0x2545F4914F6CDD1D)
    }
    fn below(&mut self, n: usize) -> usize {
        ((self.next() >> 33) as usize) % n.max(1)
    }
    fn fill(&mut self, n: usize) -> Vec<u8> {
        let mut v = Vec::with_capacity(n + 8);
        while v.len() < n {
            v.extend_from_slice(&self.next().to_le_bytes());
        }
        v.truncate(n);
        v
    }
}

const WORDS: &[&str] = &[
    "alpha", "beta", "gamma", "delta", "pack", "index", "object", "fn", "let", "mut", "return", "struct", "impl", "0", "1", "42", "->", "{", "}", "//",
];

fn text_lines(rng: &mut Rng, approx: usize) -> Vec<u8> {
    let mut v = Vec::with_capacity(approx + 40);
    let mut n = 0;
    while v.len() < approx {
        n += 1;
        let words = 1 + rng.below(6);
        v.extend_from_slice(format!("{n:04} ").as_bytes());
        for _ in 0..words {
            v.extend_from_slice(WORDS[rng.below(WORDS.len())].as_bytes());
            v.push(b' ');
        }
        v.extend_from_slice(format!("{:x}\n", rng.next() & 0xffff).as_bytes());
    }
    v
}

fn new_content(t: &mut Tape, rng: &mut Rng) -> Vec<u8> {
    let len = match t.weighted(&[2, 5, 4, 1]) {
        0 => t.range(0, 60),
        1 => t.range(200, 2500),
        2 => t.range(2500, 20_000),
        _ => t.range(60_000, 140_000),
    };
    if t.chance(200) {
        text_lines(rng, len)
    } else {
        rng.fill(len)
    }
}

fn mutate(t: &mut Tape, rng: &mut Rng, prev: &[u8]) -> Vec<u8> {
    let mut v = prev.to_vec();
    for _ in 0..t.range(1, 3) {
        match t.weighted(&[4, 4, 3, 3, 2, 3, 1, 1]) {
            0 => {
                for _ in 0..t.range(1, 4) {
                    if v.is_empty() {
                        break;
                    }
                    let p = t.below(v.len());
                    let n = t.range(1, 12).min(v.len() - p);
                    let r = rng.fill(n);
                    v[p..p + n].copy_from_slice(&r);
                }
            }
            1 => {
                let p = t.below(v.len() + 1);
                let n = t.range(1, 300);
                let r = text_lines(rng, n);
                v.splice(p..p, r);
            }
            2 => {
                if !v.is_empty() {
                    let p = t.below(v.len());
                    let n = t.range(1, 400).min(v.len() - p);
                    v.drain(p..p + n);
                }
            }
            3 => {
                if v.len() > 4 {
                    let a = t.below(v.len() - 1);
                    let n = 1 + t.below((v.len() - a).min(3000));
                    let block: Vec<u8> = v.drain(a..a + n).collect();
                    let p = t.below(v.len() + 1);
                    v.splice(p..p, block);
                }
            }
            4 => {
                if v.len() > 4 {
                    let a = t.below(v.len() - 1);
                    let n = 1 + t.below((v.len() - a).min(3000));
                    let block = v[a..a + n].to_vec();
                    let p = t.below(v.len() + 1);
                    v.splice(p..p, block);
                }
            }
            5 => {
                let n = t.range(1, 200);
                let r = text_lines(rng, n);
                if t.bool() {
                    v.extend(r);
                } else {
                    v.splice(0..0, r);
                }
            }
            6 => v.clear(),
            _ => {
                let mid = v.len() / 2;
                v.rotate_left(mid);
            }
        }
    }
    v
}

const PATHS: &[(&str, &str)] = &[
    ("a.txt", "100644"),
    ("b.rs", "100644"),
    ("src/lib.rs", "100644"),
    ("src/main.rs", "100644"),
    ("src/x/deep.c", "100644"),
    ("src/x/deeper/y.h", "100644"),
    ("docs/readme.md", "100644"),
    ("bin/tool", "100755"),
    ("data.bin", "100644"),
    ("z-last", "100644"),
    ("src.txt", "100644"),
    ("link", "120000"),
    ("docs/guide/ch1.md", "100644"),
    ("docs/guide/ch2.md", "100644"),
];

fn put_data(out: &mut Vec<u8>, d: &[u8]) {
    out.extend_from_slice(format!("data {}\n", d.len()).as_bytes());
    out.extend_from_slice(d);
    out.push(b'\n');
}

struct History {
    /// one fast-import chunk per commit (commit N carries mark :N); any prefix is a valid stream
    chunks: Vec<Vec<u8>>,
    /// (index of the commit it points at, tag name)
    tags: Vec<(usize, String)>,
}

fn gen_history(t: &mut Tape, rng: &mut Rng, ncommits: usize) -> History {
    let mut files: Vec<(usize, Vec<u8>)> = Vec::new();
    let mut many: Vec<Vec<u8>> = Vec::new();
    let mut chunks = Vec::new();
    let mut tags = Vec::new();
    let mut time = 1_000_000_000u64;
    for ci in 0..ncommits {
        let mut s: Vec<u8> = Vec::new();
        time += 1 + t.below(1000) as u64;
        s.extend_from_slice(b"commit refs/heads/main\n");
        s.extend_from_slice(format!("mark :{}\n", ci + 1).as_bytes());
        s.extend_from_slice(format!("author A U Thor <author@example.com> {time} +0100\n").as_bytes());
        s.extend_from_slice(format!("committer C O Mitter <committer@example.com> {time} -0230\n").as_bytes());
        let msg = if t.chance(24) { text_lines(rng, t.range(500, 3000)) } else { text_lines(rng, t.range(5, 120)) };
        put_data(&mut s, &msg);
        if ci > 0 {
            s.extend_from_slice(format!("from :{ci}\n").as_bytes());
        }
        for _ in 0..t.range(1, 4) {
            let op = if files.is_empty() { 0 } else { t.weighted(&[3, 8, 1, 2]) };
            match op {
                0 => {
                    let pi = t.below(PATHS.len());
                    let existing = files.iter().position(|f| f.0 == pi);
                    let content = if PATHS[pi].1 == "120000" {
                        format!("src/target-{}", t.below(50)).into_bytes()
                    } else if let Some(pos) = existing {
                        let prev = files[pos].1.clone();
                        mutate(t, rng, &prev)
                    } else {
                        new_content(t, rng)
                    };
                    s.extend_from_slice(format!("M {} inline {}\n", PATHS[pi].1, PATHS[pi].0).as_bytes());
                    put_data(&mut s, &content);
                    match existing {
                        Some(pos) => files[pos].1 = content,
                        None => files.push((pi, content)),
                    }
                }
                1 => {
                    // the oldest file is "hot": it collects many versions, so long delta chains can form
                    let fi = if t.bool() { 0 } else { t.below(files.len()) };
                    let (pi, prev) = files[fi].clone();
                    let content = if PATHS[pi].1 == "120000" {
                        format!("src/target-{}", t.below(50)).into_bytes()
                    } else {
                        mutate(t, rng, &prev)
                    };
                    s.extend_from_slice(format!("M {} inline {}\n", PATHS[pi].1, PATHS[pi].0).as_bytes());
                    put_data(&mut s, &content);
                    files[fi].1 = content;
                }
                2 => {
                    let fi = t.below(files.len());
                    let (pi, _) = files.remove(fi);
                    s.extend_from_slice(format!("D {}\n", PATHS[pi].0).as_bytes());
                }
                _ => {
                    if many.is_empty() {
                        let n = t.range(15, 45);
                        // the files are variations of three templates, so that many objects pick the same delta base and the
                        // delta trees branch (several children per base, each with descendants of its own once the files evolve)
                        let templates: Vec<Vec<u8>> = (0..3)
                            .map(|_| {
                                let l = 300 + rng.below(2500);
                                text_lines(rng, l)
                            })
                            .collect();
                        for i in 0..n {
                            let mut content = templates[i % 3].clone();
                            for _ in 0..1 + rng.below(3) {
                                let pos = rng.below(content.len());
                                let k = 1 + rng.below(8);
                            let r = rng.fill(k);
                                let end = (pos + r.len()).min(content.len());
                                content[pos..end].copy_from_slice(&r[..end - pos]);
                            }
                            content.extend_from_slice(format!("file {i}\n").as_bytes());
                            s.extend_from_slice(format!("M 100644 inline many/f{i:02}.txt\n").as_bytes());
                            put_data(&mut s, &content);
                            many.push(content);
                        }
                    } else {
                        for _ in 0..t.range(2, 8) {
                            let i = t.below(many.len());
                            let content = mutate(t, rng, &many[i]);
                            s.extend_from_slice(format!("M 100644 inline many/f{i:02}.txt\n").as_bytes());
                            put_data(&mut s, &content);
                            many[i] = content;
                        }
                    }
                }
            }
        }
        if t.chance(40) {
            let name = format!("v0.{ci}");
            s.extend_from_slice(format!("tag {name}\nfrom :{}\ntagger T Agger <tagger@example.com> {time} +0000\n", ci + 1).as_bytes());
            let msg = text_lines(rng, t.range(5, 300));
            put_data(&mut s, &msg);
            tags.push((ci, name));
        }
        chunks.push(s);
    }
    History { chunks, tags }
}

type Id = [u8; 20];

fn id20(hex_id: &str) -> Option<Id> {
    unhex(hex_id)?.try_into().ok()
}

#[derive(Debug, Clone, Hash)]
struct PackSpec {
    ncommits: usize,
    /// number of commits the receiver already has (0: full clone)
    base: usize,
    thin: bool,
    ofs: bool,
    depth: usize,
    window: usize,
    compression: &'static str,
    receiver_packed: bool,
}

fn gen_spec(t: &mut Tape) -> PackSpec {
    let ncommits = match t.weighted(&[1, 3, 4]) {
        0 => t.range(1, 4),
        1 => t.range(5, 16),
        _ => t.range(17, 40),
    };
    // the receiver tends to be far behind, so that the stream carries many objects and whole delta chains
    let base = match t.weighted(&[2, 3, 2]) {
        0 => 0,
        1 => t.range(0, ncommits.saturating_sub(1)) / 3,
        _ => t.range(0, ncommits.saturating_sub(1)),
    };
    let thin = base > 0 && !t.chance(64);
    let depth = match t.weighted(&[1, 2, 3, 3]) {
        0 => 0,
        1 => t.range(1, 2),
        2 => t.range(3, 10),
        _ => t.range(11, 50),
    };
    let window = match t.weighted(&[1, 2, 6]) {
        0 => 0,
        1 => t.range(1, 3),
        _ => t.range(4, 20),
    };
    PackSpec {
        ncommits,
        base,
        thin,
        ofs: true,
        depth,
        window,
        compression: *t.pick(&["", "", "pack.compression=0", "pack.compression=1", "pack.compression=9"]),
        receiver_packed: t.bool(),
    }
}

struct PackWorld {
    world: World,
    sender: Git,
    receiver: Git,
    receiver_objects: PathBuf,
    pack: Vec<u8>,
    tip: String,
}

/// Build sender + receiver and let git produce the pack stream.
fn build_world(spec: &PackSpec, hist: &History) -> Result<PackWorld, String> {
    let world = World::new("c10", true)?;
    let sender = world.git.clone().cfg("fastimport.unpackLimit=1000000").cfg("pack.threads=1").cfg("repack.writeBitmaps=false");
    let marks = world.scratch.join("marks");
    let all: Vec<u8> = hist.chunks.concat();
    sender.run_in(["fast-import".to_string(), "--quiet".into(), format!("--export-marks={}", marks.display())], Some(&all))?;
    let marks_txt = std::fs::read_to_string(&marks).map_err(|e| format!("read marks: {e}"))?;
    let mut commit_ids: BTreeMap<usize, String> = BTreeMap::new();
    for l in marks_txt.lines() {
        let mut it = l.split(' ');
        if let (Some(m), Some(id)) = (it.next(), it.next()) {
            if let Ok(n) = m.trim_start_matches(':').parse::<usize>() {
                commit_ids.insert(n, id.to_string());
            }
        }
    }
    let tip = commit_ids.get(&spec.ncommits).cloned().ok_or("no mark for the tip commit")?;
    let recv_dir = world.scratch.join("recv");
    std::fs::create_dir_all(&recv_dir).map_err(|e| e.to_string())?;
    let receiver = Git::new(&recv_dir, world.scratch.join("home"))
        .cfg("fastimport.unpackLimit=1000000")
        .cfg("pack.threads=1")
        .cfg("repack.writeBitmaps=false");
    receiver.run(["init", "-q", "--bare", "."])?;
    let mut revs = format!("{tip}\n");
    if spec.base > 0 {
        let prefix: Vec<u8> = hist.chunks[..spec.base].concat();
        receiver.run_in(["fast-import", "--quiet"], Some(&prefix))?;
        if spec.receiver_packed {
            receiver.run(["repack", "-a", "-d", "-q"])?;
        }
        let base_id = commit_ids.get(&spec.base).ok_or("no mark for the base commit")?;
        revs.push_str(&format!("^{base_id}\n"));
    }
    for (ci, name) in &hist.tags {
        if *ci >= spec.base {
            revs.push_str(&format!("refs/tags/{name}\n"));
        }
    }
    let mut args: Vec<String> = vec!["pack-objects".into(), "--stdout".into(), "--revs".into(), "-q".into(), format!("--depth={}", spec.depth), format!("--window={}", spec.window)];
    if spec.thin {
        args.push("--thin".into());
    }
    if spec.ofs {
        args.push("--delta-base-offset".into());
    }
    let mut packer = sender.clone();
    if !spec.compression.is_empty() {
        packer = packer.cfg(spec.compression);
    }
    let pack = packer.run_in(&args, Some(revs.as_bytes()))?;
    if pack.len() < 32 || &pack[..4] != b"PACK" {
        return Err("pack-objects produced no pack".into());
    }
    Ok(PackWorld {
        receiver_objects: recv_dir.join("objects"),
        world,
        sender,
        receiver,
        pack,
        tip,
    })
}

fn options(threads: usize) -> gix_pack::bundle::write::Options {
    gix_pack::bundle::write::Options {
        thread_limit: Some(threads),
        iteration_mode: gix_pack::data::input::Mode::Verify,
        index_version: gix_pack::index::Version::V2,
        object_hash: gix_hash::Kind::Sha1,
    }
}

/// Run the code under test. `lookup_dir`: object database used to resolve thin-pack bases.
fn write_pack(
    stream: &[u8],
    dir: &Path,
    lookup_dir: Option<&Path>,
    threads: usize,
) -> Result<Result<gix_pack::bundle::write::Outcome, String>, String> {
    let interrupt = AtomicBool::new(false);
    let mut rd: &[u8] = stream;
    let res = match lookup_dir {
        Some(objects) => {
            let odb = gix_odb::at(objects).map_err(|e| format!("gix_odb::at: {e}"))?;
            gix_pack::Bundle::write_to_directory(&mut rd, Some(dir), &mut gix_features::progress::Discard, &interrupt, Some(odb), options(threads))
        }
        None => gix_pack::Bundle::write_to_directory(
            &mut rd,
            Some(dir),
            &mut gix_features::progress::Discard,
            &interrupt,
            None::<gix_odb::Handle>,
            options(threads),
        ),
    };
    Ok(res.map_err(|e| {
        let mut s = e.to_string();
        let mut src = std::error::Error::source(&e);
        while let Some(x) = src {
            s.push_str(&format!(": {x}"));
            src = x.source();
        }
        s
    }))
}

fn list_recursive(dir: &Path) -> Vec<String> {
    let mut out = Vec::new();
    let mut stack = vec![dir.to_path_buf()];
    while let Some(d) = stack.pop() {
        if let Ok(rd) = std::fs::read_dir(&d) {
            for e in rd.flatten() {
                let p = e.path();
                if p.is_dir() {
                    stack.push(p.clone());
                }
                out.push(p.strip_prefix(dir).unwrap_or(&p).display().to_string());
            }
        }
    }
    out.sort();
    out
}

/// `git show-index` → (offset, id, crc)
fn show_index(git: &Git, idx: &[u8]) -> Result<Vec<(u64, Id, u32)>, String> {
    let out = git.run_in(["show-index"], Some(idx))?;
    let mut v = Vec::new();
    for l in String::from_utf8_lossy(&out).lines() {
        let f: Vec<&str> = l.split_whitespace().collect();
        if f.len() < 2 {
            return Err(format!("unexpected show-index line {l:?}"));
        }
        let ofs: u64 = f[0].parse().map_err(|_| format!("bad offset in {l:?}"))?;
        let id = id20(f[1]).ok_or_else(|| format!("bad id in {l:?}"))?;
        let crc = f.get(2).map(|c| u32::from_str_radix(c.trim_matches(|ch| ch == '(' || ch == ')'), 16).unwrap_or(0)).unwrap_or(0);
        v.push((ofs, id, crc));
    }
    Ok(v)
}

/// delta depth per entry of a stored bundle (labels / non-trivial rule only)
fn max_delta_depth(bundle: &gix_pack::Bundle) -> Result<(u32, usize, bool), String> {
    use gix_pack::data::entry::Header;
    let mut base_of: BTreeMap<u64, Option<u64>> = BTreeMap::new();
    let mut by_id: BTreeMap<Id, u64> = BTreeMap::new();
    for e in bundle.index.iter() {
        by_id.insert(e.oid.as_bytes().try_into().map_err(|_| "id")?, e.pack_offset);
    }
    let mut ndeltas = 0;
    for ofs in by_id.values() {
        let entry = bundle.pack.entry(*ofs).map_err(|e| format!("entry({ofs}): {e}"))?;
        let base = match entry.header {
            Header::OfsDelta { base_distance } => Some(ofs.wrapping_sub(base_distance)),
            Header::RefDelta { base_id } => {
                let k: Id = base_id.as_bytes().try_into().map_err(|_| "id")?;
                by_id.get(&k).copied()
            }
            _ => None,
        };
        if entry.header.is_delta() {
            ndeltas += 1;
        }
        base_of.insert(*ofs, base);
    }
    // a base with two or more delta children that have delta children themselves: the situation in which the index
    // writer's traversal hands work to additional threads
    let mut kids: BTreeMap<u64, Vec<u64>> = BTreeMap::new();
    for (ofs, base) in &base_of {
        if let Some(b) = base {
            kids.entry(*b).or_default().push(*ofs);
        }
    }
    let branching = kids.values().any(|ch| ch.iter().filter(|c| kids.contains_key(c)).count() >= 2);
    let mut max = 0;
    for ofs in base_of.keys() {
        let mut d = 0;
        let mut cur = base_of.get(ofs).copied().flatten();
        while let Some(b) = cur {
            d += 1;
            if d > 10_000 {
                return Err("delta cycle".into());
            }
            cur = base_of.get(&b).copied().flatten();
        }
        max = max.max(d);
    }
    Ok((max, ndeltas, branching))
}

/// Header classes with their own signature (decided by the `header-fields` sub-check).
fn known_header_class(stream: &[u8]) -> Option<&'static str> {
    if stream.len() < 12 || &stream[..4] != b"PACK" {
        return None;
    }
    let version = u32::from_be_bytes([stream[4], stream[5], stream[6], stream[7]]);
    let count = u32::from_be_bytes([stream[8], stream[9], stream[10], stream[11]]);
    if version == 3 {
        Some("pack-version-3")
    } else if version == 2 && count == 0 && stream.len() > 32 {
        Some("zero-object-count")
    } else if version == 2 && count >= 1 << 29 {
        // the index writer pre-allocates by this count: evaluated in a process of its own
        Some("huge-object-count")
    } else {
        None
    }
}

/// Mirror of the sequential entry parse, up to the first entry whose header declares a size of 8 GiB or more (the entry
/// reader pre-allocates by that size when entries are kept, i.e. whenever a base lookup is given): such streams are
/// evaluated in a child process. Returns the declared size.
fn first_huge_entry_size(stream: &[u8]) -> Option<u64> {
    const HUGE: u64 = 1 << 33;
    if stream.len() < 12 || &stream[..4] != b"PACK" {
        return None;
    }
    let count = u32::from_be_bytes([stream[8], stream[9], stream[10], stream[11]]);
    let mut pos = 12usize;
    let mut sink = vec![0u8; 64 * 1024];
    for _ in 0..count {
        let mut c = *stream.get(pos)?;
        pos += 1;
        let ty = (c >> 4) & 7;
        let mut size = u64::from(c & 15);
        let mut shift = 4u32;
        while c & 0x80 != 0 {
            c = *stream.get(pos)?;
            pos += 1;
            if shift >= 64 {
                return Some(u64::MAX);
            }
            size = size.saturating_add(u64::from(c & 0x7f).checked_shl(shift).unwrap_or(u64::MAX));
            shift += 7;
        }
        if size >= HUGE {
            return Some(size);
        }
        match ty {
            1..=4 => {}
            6 => loop {
                let b = *stream.get(pos)?;
                pos += 1;
                if b & 0x80 == 0 {
                    break;
                }
            },
            7 => pos += 20,
            _ => return None,
        }
        // skip the zlib stream
        let mut d = flate2::Decompress::new(true);
        loop {
            let input = stream.get(pos + d.total_in() as usize..)?;
            let before = (d.total_in(), d.total_out());
            match d.decompress(input, &mut sink, flate2::FlushDecompress::None) {
                Ok(flate2::Status::StreamEnd) => break,
                Ok(_) => {
                    if (d.total_in(), d.total_out()) == before {
                        return None;
                    }
                }
                Err(_) => return None,
            }
        }
        if d.total_out() != size {
            return None;
        }
        pos += d.total_in() as usize;
    }
    None
}

const THREAD_LIMITS: [usize; 6] = [1, 2, 3, 4, 8, 16];

// ------------------------------------------------------------------------------------------------ faults

#[derive(Debug, Clone, Hash)]
enum Fault {
    Truncate(usize),
    /// (position, xor mask)
    Xor(Vec<(usize, u8)>),
    /// (position, bytes)
    Overwrite(usize, Vec<u8>),
}

fn apply_fault(pack: &[u8], f: &Fault) -> Vec<u8> {
    let mut v = pack.to_vec();
    match f {
        Fault::Truncate(n) => v.truncate(*n),
        Fault::Xor(list) => {
            for (p, m) in list {
                if let Some(b) = v.get_mut(*p) {
                    *b ^= *m;
                }
            }
        }
        Fault::Overwrite(p, bytes) => {
            for (i, b) in bytes.iter().enumerate() {
                if let Some(x) = v.get_mut(*p + i) {
                    *x = *b;
                }
            }
        }
    }
    v
}

/// `offsets`: entry start offsets of the original stream, sorted.
fn gen_fault(t: &mut Tape, pack: &[u8], offsets: &[u64]) -> (Fault, &'static str) {
    let len = pack.len();
    let trailer = len - 20;
    let bit = |t: &mut Tape| 1u8 << t.below(8);
    let entry = |t: &mut Tape| -> usize {
        if offsets.is_empty() {
            12
        } else {
            offsets[t.below(offsets.len())] as usize
        }
    };
    // entries that are ofs-deltas, with the position of their distance varint
    let ofs_deltas: Vec<usize> = offsets
        .iter()
        .filter_map(|o| {
            let mut p = *o as usize;
            let first = *pack.get(p)?;
            if (first >> 4) & 7 != 6 {
                return None;
            }
            while *pack.get(p)? & 0x80 != 0 {
                p += 1;
            }
            Some(p + 1)
        })
        .collect();
    match t.weighted(&[2, 2, 2, 2, 2, 1, 2, 2, 3, 3, 2, 2, 2, 1, 1, 3]) {
        15 if !ofs_deltas.is_empty() => {
            // the base distance of an ofs-delta: far too large, slightly off, or zero
            let p = ofs_deltas[t.below(ofs_deltas.len())].min(trailer - 1);
            let bytes: Vec<u8> = match t.weighted(&[3, 2, 2, 1]) {
                0 => vec![0xff, 0xff, 0xff, 0x7f],
                1 => vec![pack[p] ^ 0x01],
                2 => vec![pack[p] ^ 0x40],
                _ => vec![0x00],
            };
            (Fault::Overwrite(p, bytes), "ofs-distance-field")
        }
        15 => (Fault::Truncate(trailer), "truncate-before-trailer"),
        0 => (Fault::Truncate(t.range(0, 11)), "truncate-in-header"),
        1 => (Fault::Truncate(12), "truncate-after-header"),
        2 => {
            // somewhere inside an entry
            let e = entry(t);
            let p = (e + 1 + t.below(40)).min(trailer.saturating_sub(1)).max(13);
            (Fault::Truncate(p), "truncate-mid-entry")
        }
        3 => (Fault::Truncate(entry(t).max(13)), "truncate-at-entry-boundary"),
        4 => (Fault::Truncate(12 + t.below(trailer - 12 + 1)), "truncate-uniform"),
        5 => (Fault::Truncate(trailer), "truncate-before-trailer"),
        6 => (Fault::Truncate(trailer + t.range(1, 19)), "truncate-in-trailer"),
        7 => {
            let p = t.below(12);
            (Fault::Xor(vec![(p, bit(t))]), "flip-header-bit")
        }
        8 => {
            // first bytes of an entry: type/size varint, ofs-delta distance or ref-delta id
            let e = entry(t);
            let p = (e + t.below(4)).min(trailer - 1);
            (Fault::Xor(vec![(p, bit(t))]), "flip-entry-header-bit")
        }
        9 => {
            let p = 12 + t.below(trailer - 12);
            (Fault::Xor(vec![(p, bit(t))]), "flip-data-bit")
        }
        10 => {
            let n = t.range(2, 5);
            let mut v = Vec::new();
            for _ in 0..n {
                let p = t.below(len);
                v.push((p, (t.u8() | 1)));
            }
            (Fault::Xor(v), "flip-multi-byte")
        }
        11 => {
            let p = trailer + t.below(20);
            (Fault::Xor(vec![(p, bit(t))]), "flip-trailer-bit")
        }
        12 => {
            // a run of 0x00 / 0xff at an entry start (size and distance varints explode) or anywhere
            let p = if t.bool() { entry(t) } else { 12 + t.below(trailer - 12) };
            let n = t.range(1, 12);
            let b = *t.pick(&[0xffu8, 0x00, 0x80]);
            (Fault::Overwrite(p.min(trailer - 1), vec![b; n]), "overwrite-run")
        }
        13 => {
            let v = *t.pick(&[0u32, 1, 3, 4, 0x0200_0000, u32::MAX]);
            (Fault::Overwrite(4, v.to_be_bytes().to_vec()), "version-field")
        }
        _ => {
            let n = u32::from_be_bytes([pack[8], pack[9], pack[10], pack[11]]);
            let v = match t.weighted(&[3, 3, 1, 2]) {
                0 => n.wrapping_add(1),
                1 => n.wrapping_sub(1),
                2 => 0,
                _ => n.wrapping_add(1 << t.range(8, 23)),
            };
            (Fault::Overwrite(8, v.to_be_bytes().to_vec()), "object-count-field")
        }
    }
}

/// Probe mode (`VP_C10_PROBE=<stream file>`): run the code under test on one stream in this (expendable) process.
fn probe_main() -> ! {
    let var = |k: &str| std::env::var_os(k).map(PathBuf::from);
    let stream = std::fs::read(var("VP_C10_PROBE").expect("probe stream")).expect("read probe stream");
    let dir = var("VP_C10_PROBE_DIR").expect("probe dir");
    let lookup = var("VP_C10_PROBE_LOOKUP");
    let threads: usize = std::env::var("VP_C10_PROBE_THREADS").ok().and_then(|s| s.parse().ok()).unwrap_or(1);
    match write_pack(&stream, &dir, lookup.as_deref(), threads) {
        Ok(Ok(o)) => println!("accepted {:?}", o.index),
        Ok(Err(e)) => println!("rejected {e}"),
        Err(e) => {
            println!("infra {e}");
            std::process::exit(3);
        }
    }
    std::process::exit(0)
}

/// Evaluate one stream in a child process; Ok(Ok(desc)) accepted, Ok(Err(msg)) rejected, Err((sig, msg)) died.
fn write_pack_in_child(stream: &[u8], scratch: &Path, dir: &Path, lookup: Option<&Path>, threads: usize) -> Result<Result<Result<String, String>, (&'static str, String)>, String> {
    let f = scratch.join("probe-stream");
    std::fs::write(&f, stream).map_err(|e| e.to_string())?;
    let exe = std::env::current_exe().map_err(|e| e.to_string())?;
    let mut cmd = std::process::Command::new(exe);
    cmd.env("VP_C10_PROBE", &f).env("VP_C10_PROBE_DIR", dir).env("VP_C10_PROBE_THREADS", threads.to_string());
    if let Some(l) = lookup {
        cmd.env("VP_C10_PROBE_LOOKUP", l);
    }
    let out = cmd.stdin(std::process::Stdio::null()).output().map_err(|e| format!("spawn probe: {e}"))?;
    let stdout = String::from_utf8_lossy(&out.stdout).trim().to_string();
    let stderr_tail: String = String::from_utf8_lossy(&out.stderr).lines().filter(|l| !l.trim().is_empty()).take(3).collect::<Vec<_>>().join(" | ");
    Ok(match out.status.code() {
        Some(0) if stdout.starts_with("accepted") => Ok(Ok(stdout)),
        Some(0) if stdout.starts_with("rejected") => Ok(Err(stdout)),
        Some(3) => return Err(format!("probe: {stdout}")),
        Some(code) => Err(("child-panics", format!("the process evaluating the stream exited with status {code}: {stderr_tail}"))),
        None => Err(("child-aborts", format!("the process evaluating the stream was killed ({}): {stderr_tail}", out.status))),
    })
}

pub fn main() {
    if std::env::var_os("VP_C10_PROBE").is_some() && !vp::fuzz::active() {
        probe_main();
    }
    let mut ck = Check::new("C10", "exploration");
    ck.rule("world = generated history of 1..40 commits (14 paths incl. nested dirs/exec/symlink, a 15..45-file directory, a hot file collecting many versions, annotated tags) in a sender repo; receiver holds the first `base` commits (loose or repacked); stream = git pack-objects --stdout --revs {full clone | incremental complete | --thin against ^base} --delta-base-offset with depth in 0..50, window in 0..20, pack.compression in {default,0,1,9}. index: all thread limits {1,2,3,4,8,16}, lookup None or receiver odb. faults: 1..60 per world from 16 classes (truncations at header/entry/trailer positions, bit flips in header/entry header/data/trailer, multi-byte, 0x00/0xff/0x80 runs, version field, object-count field, ofs-delta distance field) x generated thread limit. Non-trivial (index): stored pack has a delta chain of depth >= 2 (threads > 1 are always exercised; thin is labelled). Non-trivial (faults): the fault lies behind the 12-byte header. header-fields: one header fault (8 version values, 10 count values, 96 bit flips) on a 1..3-commit full pack; always non-trivial. Header classes version==3, count==0 and count>=2^29 are decided in header-fields only and skipped in faults; faulted streams in which an entry header declares >= 8 GiB are evaluated in a child process. Distinct by hash of import stream, pack options and faults.");
    ck.assume(&format!("oracle: {} (fast-import, pack-objects, index-pack [--fix-thin], show-index, cat-file --batch, fsck)", Git::version()));
    ck.assume("streams use --delta-base-offset, as every client that advertises ofs-delta receives them; complete packs with in-pack REF_DELTA entries are documented as unsupported by index::File::write_data_iter_to_stream and are not generated");
    ck.assume("a faulted stream must be rejected unless real git index-pack accepts the very same bytes");

    // ---------------------------------------------------------------------------------------------------------------
    ck.sub("index", SubCfg::new(40, 1_000).max_len(4000).max_shrink(12).threads(4), |t, c| {
        let mut rng = Rng(t.u64() | 1);
        let spec = gen_spec(t);
        let lookup_for_complete = t.bool();
        let install_threads = *t.pick(&THREAD_LIMITS);
        let hist = gen_history(t, &mut rng, spec.ncommits);
        c.key(&(&spec, lookup_for_complete, install_threads, &hist.chunks));
        c.label(if spec.base == 0 {
            "full-clone"
        } else if spec.thin {
            "thin"
        } else {
            "incremental-complete"
        });
        c.label_if(spec.depth == 0 || spec.window == 0, "no-deltas");
        c.label_if(spec.base > 0 && spec.receiver_packed, "receiver-packed");
        c.label_if(spec.base > 0 && !spec.receiver_packed, "receiver-loose");

        let w = infra!(c, build_world(&spec, &hist), "build world");
        let pack = &w.pack;
        let nobj_in = u32::from_be_bytes([pack[8], pack[9], pack[10], pack[11]]);
        let use_lookup = spec.thin || lookup_for_complete;
        c.label(if use_lookup { "lookup-odb" } else { "lookup-none" });

        // ---- every thread limit, each into its own directory
        let mut first: Option<(Vec<u8>, Vec<u8>, usize)> = None;
        for n in THREAD_LIMITS {
            let dir = w.world.scratch.join(format!("out-{n}"));
            infra!(c, std::fs::create_dir_all(&dir), "mkdir");
            let res = infra!(c, write_pack(pack, &dir, use_lookup.then_some(w.receiver_objects.as_path()), n), "open lookup odb");
            let outcome = match res {
                Ok(o) => o,
                Err(e) => {
                    c.fail_sig("valid-pack-rejected", format!("write_to_directory(thread_limit {n}) rejected a pack made by git ({spec:?}, {nobj_in} objects, {} bytes): {e}", pack.len()));
                    return;
                }
            };
            if nobj_in == 0 {
                ensure!(c, outcome.data_path.is_none() && list_recursive(&dir).is_empty(), "empty pack: expected nothing to be stored, got {outcome:?}");
                continue;
            }
            let (Some(data_path), Some(index_path)) = (outcome.data_path.clone(), outcome.index_path.clone()) else {
                c.fail(format!("outcome without paths for a pack of {nobj_in} objects: {outcome:?}"));
                return;
            };
            let stored_pack = infra!(c, std::fs::read(&data_path), "read stored pack");
            let stored_idx = infra!(c, std::fs::read(&index_path), "read stored index");
            let files = list_recursive(&dir);
            let pack_hash = hex(&stored_pack[stored_pack.len() - 20..]);
            let expect_files = vec![format!("pack-{pack_hash}.idx"), format!("pack-{pack_hash}.keep"), format!("pack-{pack_hash}.pack")];
            ensure_sig!(c, "unexpected-files", files == expect_files, "thread_limit {n}: directory holds {files:?}, expected {expect_files:?}");
            ensure_sig!(
                c,
                "outcome-differs-from-files",
                outcome.index.data_hash.to_hex().to_string() == pack_hash
                    && outcome.index.index_hash.as_bytes() == &stored_idx[stored_idx.len() - 20..]
                    && stored_idx[stored_idx.len() - 40..stored_idx.len() - 20] == stored_pack[stored_pack.len() - 20..],
                "thread_limit {n}: outcome {:?} does not describe the stored files (pack trailer {pack_hash}, idx trailer {})",
                outcome.index,
                hex(&stored_idx[stored_idx.len() - 20..])
            );
            if !spec.thin {
                ensure_sig!(
                    c,
                    "complete-pack-altered",
                    stored_pack == *pack,
                    "thread_limit {n}, lookup {use_lookup}: stored pack ({} bytes) differs from the complete input pack ({} bytes); first difference at {:?}",
                    stored_pack.len(),
                    pack.len(),
                    stored_pack.iter().zip(pack.iter()).position(|(a, b)| a != b)
                );
                ensure!(c, outcome.index.num_objects == nobj_in, "num_objects {} != {nobj_in} in the pack header", outcome.index.num_objects);
            }
            match &first {
                None => first = Some((stored_pack, stored_idx, n)),
                Some((p0, i0, n0)) => {
                    ensure_sig!(
                        c,
                        "thread-count-dependent",
                        *p0 == stored_pack && *i0 == stored_idx,
                        "thread_limit {n} gives a different {} than thread_limit {n0} (pack {} vs {} bytes, idx {} vs {} bytes, first idx difference at {:?})",
                        if *p0 == stored_pack { "index" } else { "pack" },
                        stored_pack.len(),
                        p0.len(),
                        stored_idx.len(),
                        i0.len(),
                        stored_idx.iter().zip(i0.iter()).position(|(a, b)| a != b)
                    );
                }
            }
        }
        let Some((stored_pack, stored_idx, _)) = first else {
            c.label("empty-pack");
            return;
        };

        // ---- git indexes the stored pack: byte-identical index
        let ppath = w.world.scratch.join("stored.pack");
        let ipath = w.world.scratch.join("git.idx");
        infra!(c, std::fs::write(&ppath, &stored_pack), "write pack copy");
        let (ok, _out, err) = infra!(
            c,
            w.receiver.try_run(["index-pack".to_string(), "-o".into(), ipath.display().to_string(), ppath.display().to_string()], None),
            "git index-pack"
        );
        ensure_sig!(c, "git-rejects-stored-pack", ok, "git index-pack refuses the pack gitoxide stored ({spec:?}): {}", String::from_utf8_lossy(&err));
        let git_idx = infra!(c, std::fs::read(&ipath), "read git idx");
        if git_idx != stored_idx {
            let a = infra!(c, show_index(&w.receiver, &stored_idx), "show-index (gitoxide idx)");
            let b = infra!(c, show_index(&w.receiver, &git_idx), "show-index (git idx)");
            let detail = a
                .iter()
                .zip(b.iter())
                .find(|(x, y)| x != y)
                .map(|(x, y)| format!("gitoxide (offset {}, id {}, crc {:08x}) vs git (offset {}, id {}, crc {:08x})", x.0, hex(&x.1), x.2, y.0, hex(&y.1), y.2))
                .unwrap_or_else(|| format!("{} vs {} entries", a.len(), b.len()));
            c.fail_sig("index-differs-from-git", format!("index written by gitoxide differs from git index-pack of the same pack ({spec:?}): {detail}"));
            return;
        }
        let entries = infra!(c, show_index(&w.receiver, &stored_idx), "show-index");
        let ids: BTreeSet<Id> = entries.iter().map(|e| e.1).collect();

        // ---- labels from the stored bundle
        {
            let b = match gix_pack::Bundle::at(w.world.scratch.join(format!("out-1/pack-{}.idx", hex(&stored_pack[stored_pack.len() - 20..]))), gix_hash::Kind::Sha1) {
                Ok(b) => b,
                Err(e) => {
                    c.fail(format!("cannot open the bundle just written: {e}"));
                    return;
                }
            };
            let (maxd, ndeltas, branching) = infra!(c, max_delta_depth(&b), "delta structure");
            c.label_if(branching, "branching-delta-tree");
            c.label(match maxd {
                0 => "max-depth-0",
                1 => "max-depth-1",
                2..=4 => "max-depth-2..4",
                _ => "max-depth-5+",
            });
            c.label_if(ids.len() as u32 > nobj_in, "bases-injected");
            c.label(match ids.len() {
                0..=19 => "objects<20",
                20..=99 => "objects-20..99",
                _ => "objects>=100",
            });
            c.nontrivial(maxd >= 2);
            c.sample_with(|| format!("{spec:?}: input {nobj_in} objects / {} bytes, stored {} objects, {ndeltas} deltas, max depth {maxd}, lookup {use_lookup}", pack.len(), ids.len()));
        }

        // ---- thin: git's own completion of the thin pack names the same objects
        if spec.thin {
            let fix_dir = w.world.scratch.join("fixthin");
            infra!(c, std::fs::create_dir_all(fix_dir.join("pack")), "mkdir");
            let g = w
                .receiver
                .clone()
                .env("GIT_OBJECT_DIRECTORY", fix_dir.to_str().unwrap_or(""))
                .env("GIT_ALTERNATE_OBJECT_DIRECTORIES", w.receiver_objects.to_str().unwrap_or(""));
            let (ok, _o, e) = infra!(c, g.try_run(["index-pack", "--fix-thin", "--stdin"], Some(pack)), "git index-pack --fix-thin");
            if !ok {
                c.infra(format!("git index-pack --fix-thin refuses git's own thin pack: {}", String::from_utf8_lossy(&e)));
                return;
            }
            let gidx_path = list_recursive(&fix_dir).into_iter().find(|f| f.ends_with(".idx"));
            let Some(gidx_path) = gidx_path else {
                c.infra("git index-pack --fix-thin wrote no index");
                return;
            };
            let gidx = infra!(c, std::fs::read(fix_dir.join(gidx_path)), "read fix-thin idx");
            let gids: BTreeSet<Id> = infra!(c, show_index(&w.receiver, &gidx), "show-index").into_iter().map(|e| e.1).collect();
            ensure_sig!(
                c,
                "thin-object-set-differs",
                gids == ids,
                "thin pack: gitoxide stored {} objects, git --fix-thin {}; only gitoxide: {:?}; only git: {:?}",
                ids.len(),
                gids.len(),
                ids.difference(&gids).take(3).map(|i| hex(i)).collect::<Vec<_>>(),
                gids.difference(&ids).take(3).map(|i| hex(i)).collect::<Vec<_>>()
            );
        }

        // ---- store into the receiver itself; everything must be retrievable, fsck clean
        let pack_dir = w.receiver_objects.join("pack");
        let res = infra!(c, write_pack(pack, &pack_dir, use_lookup.then_some(w.receiver_objects.as_path()), install_threads), "open lookup odb");
        if let Err(e) = res {
            c.fail_sig("valid-pack-rejected", format!("write_to_directory into the receiver's pack directory (thread_limit {install_threads}) failed: {e}"));
            return;
        }
        let odb = infra!(c, gix_odb::at(&w.receiver_objects), "gix_odb::at");
        let mut cat = infra!(c, CatFile::new(&w.sender), "cat-file --batch");
        let mut buf = Vec::new();
        for id in &ids {
            let hex_id = hex(id);
            let Some((kind, bytes)) = infra!(c, cat.get(&hex_id), "cat-file") else {
                c.fail_sig("invented-object", format!("index lists {hex_id}, which the sender does not have"));
                return;
            };
            let oid = gix_hash::ObjectId::from(*id);
            match gix_object::Find::try_find(&odb, &oid, &mut buf) {
                Ok(Some(d)) => ensure_sig!(
                    c,
                    "stored-object-differs",
                    d.kind.to_string() == kind && d.data == bytes.as_slice(),
                    "object {hex_id} read back as {} of {} bytes, sender has {kind} of {} bytes",
                    d.kind,
                    d.data.len(),
                    bytes.len()
                ),
                Ok(None) => {
                    c.fail_sig("stored-object-missing", format!("object {hex_id} is listed in the index but cannot be found through gix_odb"));
                    return;
                }
                Err(e) => {
                    c.fail_sig("stored-object-unreadable", format!("object {hex_id}: {e}"));
                    return;
                }
            }
        }
        drop(cat);
        infra!(c, w.receiver.run(["update-ref", "refs/heads/main", w.tip.as_str()]), "update-ref");
        let (ok, out, err) = infra!(c, w.receiver.try_run(["fsck", "--no-dangling", "--no-progress"], None), "git fsck");
        let text = format!("{}{}", String::from_utf8_lossy(&out), String::from_utf8_lossy(&err));
        let complaints: Vec<&str> = text.lines().filter(|l| !l.starts_with("notice:") && !l.trim().is_empty()).collect();
        ensure_sig!(c, "fsck-complains", ok && complaints.is_empty(), "git fsck of the receiver after storing the pack ({spec:?}): {:?}", &complaints[..complaints.len().min(6)]);
    });

    // ---------------------------------------------------------------------------------------------------------------
    ck.sub("faults", SubCfg::new(10, 250).max_len(4000).max_shrink(12).threads(4).isolated(600_000, false), |t, c| {
        let mut rng = Rng(t.u64() | 1);
        let mut spec = gen_spec(t);
        spec.ncommits = spec.ncommits.min(16);
        spec.base = spec.base.min(spec.ncommits.saturating_sub(1));
        spec.thin &= spec.base > 0;
        let nfaults = t.range(1, 60);
        let fault_seed = t.u64().to_be_bytes();
        let hist = gen_history(t, &mut rng, spec.ncommits);
        c.label(if spec.base == 0 {
            "full-clone"
        } else if spec.thin {
            "thin"
        } else {
            "incremental-complete"
        });
        let w = infra!(c, build_world(&spec, &hist), "build world");
        let pack = &w.pack;
        let nobj_in = u32::from_be_bytes([pack[8], pack[9], pack[10], pack[11]]);
        if nobj_in == 0 {
            c.discard();
            return;
        }
        // entry offsets of the intact stream, from git
        let git_env = |dir: &Path| {
            w.receiver
                .clone()
                .env("GIT_OBJECT_DIRECTORY", dir.to_str().unwrap_or(""))
                .env("GIT_ALTERNATE_OBJECT_DIRECTORIES", w.receiver_objects.to_str().unwrap_or(""))
        };
        let ref_dir = w.world.scratch.join("ref");
        infra!(c, std::fs::create_dir_all(ref_dir.join("pack")), "mkdir");
        infra!(c, git_env(&ref_dir).run_in(["index-pack", "--fix-thin", "--stdin"], Some(pack)), "git index-pack of the intact stream");
        let Some(ref_idx) = list_recursive(&ref_dir).into_iter().find(|f| f.ends_with(".idx")) else {
            c.infra("no idx for the intact stream");
            return;
        };
        let ref_idx = infra!(c, std::fs::read(ref_dir.join(ref_idx)), "read idx");
        let mut offsets: Vec<u64> = infra!(c, show_index(&w.receiver, &ref_idx), "show-index").into_iter().map(|e| e.0).filter(|o| (*o as usize) < pack.len() - 20).collect();
        offsets.sort();

        // faults are decoded from a tape of their own (seeded from the case tape) so that they do not depend on how
        // much tape the history consumed
        let mut frng = Rng(u64::from_be_bytes(fault_seed) | 1);
        let ftape_bytes = frng.fill(nfaults * 24);
        let mut ft = Tape::new(&ftape_bytes);
        let mut faults = Vec::new();
        for _ in 0..nfaults {
            let threads = *ft.pick(&THREAD_LIMITS);
            let (f, label) = gen_fault(&mut ft, pack, &offsets);
            faults.push((f, label, threads));
        }
        c.key(&(&spec, &hist.chunks, faults.iter().map(|f| (&f.0, f.2)).collect::<Vec<_>>()));
        c.sample_with(|| format!("{spec:?}: {nobj_in} objects / {} bytes; faults {:?}", pack.len(), faults.iter().map(|f| (f.1, &f.0, f.2)).collect::<Vec<_>>()));

        for (i, (fault, label, threads)) in faults.iter().enumerate() {
            let bad = apply_fault(pack, fault);
            if bad == *pack {
                continue;
            }
            if known_header_class(&bad).is_some() {
                // these two header classes are decided by the `header-fields` sub-check (known findings there)
                c.label("excluded-known-header-class");
                continue;
            }
            c.label(label);
            let behind_header = match fault {
                Fault::Truncate(n) => *n > 12,
                Fault::Xor(l) => l.iter().any(|(p, _)| *p >= 12),
                Fault::Overwrite(p, _) => *p >= 12,
            };
            c.nontrivial(behind_header);
            let dir = w.world.scratch.join(format!("fault-{i}"));
            infra!(c, std::fs::create_dir_all(&dir), "mkdir");
            let lookup = (spec.thin || i % 2 == 0).then_some(w.receiver_objects.as_path());
            let res: Result<String, String> = if let Some(size) = first_huge_entry_size(&bad) {
                if vp::fuzz::active() {
                    continue;
                }
                c.label("huge-entry-size");
                match infra!(c, write_pack_in_child(&bad, &w.world.scratch.path, &dir, lookup, *threads), "probe process") {
                    Ok(r) => r,
                    Err((kind, msg)) => {
                        c.fail_sig(
                            if kind == "child-aborts" { "huge-entry-size-aborts" } else { "huge-entry-size-panics" },
                            format!(
                                "{label} {fault:?} (thread_limit {threads}, lookup {}) makes an entry header declare {size} bytes: {msg}",
                                lookup.is_some()
                            ),
                        );
                        return;
                    }
                }
            } else {
                infra!(c, write_pack(&bad, &dir, lookup, *threads), "open lookup odb").map(|o| format!("{:?}", o.index))
            };
            let left = list_recursive(&dir);
            match res {
                Err(_) => {
                    ensure_sig!(
                        c,
                        "rejected-but-files-left",
                        left.is_empty(),
                        "{label} {fault:?} (thread_limit {threads}) was rejected but the directory holds {left:?}"
                    );
                }
                Ok(outcome) => {
                    // accepted: only fine if git accepts the same bytes
                    let gdir = w.world.scratch.join(format!("gfault-{i}"));
                    infra!(c, std::fs::create_dir_all(gdir.join("pack")), "mkdir");
                    let (git_ok, _o, _e) = infra!(c, git_env(&gdir).try_run(["index-pack", "--fix-thin", "--stdin"], Some(&bad)), "git index-pack on the faulted stream");
                    ensure_sig!(
                        c,
                        "corrupt-stream-accepted",
                        git_ok,
                        "{label} {fault:?} (thread_limit {threads}) of a {} byte stream with {nobj_in} objects was accepted ({}, files {left:?}); git index-pack rejects these bytes",
                        pack.len(),
                        outcome
                    );
                    c.label("git-accepts-faulted-stream");
                }
            }
        }
    });

    // ---------------------------------------------------------------------------------------------------------------
    // One fault in the 12-byte header of a small complete pack per case (the fault is decoded first, so a pinned case
    // is a two-byte tape).
    ck.sub("header-fields", SubCfg::new(96, 2_400).max_len(700).max_shrink(20).threads(4).isolated(600_000, false), |t, c| {
        let (what, a, b) = (t.weighted(&[3, 3, 4]), t.u8(), t.u8());
        let threads = *t.pick(&THREAD_LIMITS);
        let with_lookup = t.bool();
        let mut rng = Rng(t.u64() | 1);
        let spec = PackSpec {
            ncommits: t.range(1, 3),
            base: 0,
            thin: false,
            ofs: true,
            depth: t.range(0, 10),
            window: t.range(0, 10),
            compression: "",
            receiver_packed: false,
        };
        let hist = gen_history(t, &mut rng, spec.ncommits);
        let w = infra!(c, build_world(&spec, &hist), "build world");
        let pack = &w.pack;
        let n = u32::from_be_bytes([pack[8], pack[9], pack[10], pack[11]]);
        let (fault, label) = match what {
            0 => {
                let v = [3u32, 0, 1, 4, 0x0200_0000, 0x0000_0102, 0x8000_0002, u32::MAX][(a as usize * 8) >> 8];
                (Fault::Overwrite(4, v.to_be_bytes().to_vec()), "version-field")
            }
            1 => {
                let v = [0u32, n.wrapping_sub(1), n + 1, n + 256, n.wrapping_mul(2), n | 0x0001_0000, n | 0x0100_0000, n | 0x4000_0000, n | 0x8000_0000, u32::MAX][(a as usize * 10) >> 8];
                (Fault::Overwrite(8, v.to_be_bytes().to_vec()), "object-count-field")
            }
            _ => (Fault::Xor(vec![((a as usize * 12) >> 8, 1u8 << ((b as usize * 8) >> 8))]), "flip-header-bit"),
        };
        let bad = apply_fault(pack, &fault);
        if bad == *pack {
            c.discard();
            return;
        }
        c.label(label);
        c.key(&(&fault, threads, with_lookup, &hist.chunks));
        c.nontrivial(true);
        c.sample_with(|| format!("{label} {fault:?} on a pack of {n} objects / {} bytes, thread_limit {threads}, lookup {with_lookup}", pack.len()));
        let dir = w.world.scratch.join("fault");
        infra!(c, std::fs::create_dir_all(&dir), "mkdir");
        let lookup = with_lookup.then_some(w.receiver_objects.as_path());
        let huge_count = known_header_class(&bad) == Some("huge-object-count");
        // a wrong count also makes the reader take the trailer for an entry header, which may declare any size
        let huge_entry = !huge_count && first_huge_entry_size(&bad).is_some();
        let res: Result<String, String> = if huge_count || huge_entry {
            if vp::fuzz::active() {
                c.discard();
                return;
            }
            c.label(if huge_count { "huge-object-count" } else { "huge-entry-size" });
            match infra!(c, write_pack_in_child(&bad, &w.world.scratch.path, &dir, lookup, threads), "probe process") {
                Ok(r) => r,
                Err((kind, msg)) => {
                    c.fail_sig(
                        match (huge_count, kind == "child-aborts") {
                            (true, true) => "huge-object-count-aborts",
                            (true, false) => "huge-object-count-panics",
                            (false, true) => "huge-entry-size-aborts",
                            (false, false) => "huge-entry-size-panics",
                        },
                        format!("{label} {fault:?} (thread_limit {threads}, lookup {with_lookup}) on a {} byte stream with {n} objects: {msg}", pack.len()),
                    );
                    return;
                }
            }
        } else {
            infra!(c, write_pack(&bad, &dir, lookup, threads), "open lookup odb").map(|o| format!("{:?}", o.index))
        };
        let left = list_recursive(&dir);
        match res {
            Err(_) => ensure_sig!(c, "rejected-but-files-left", left.is_empty(), "{label} {fault:?} was rejected but the directory holds {left:?}"),
            Ok(outcome) => {
                let gdir = w.world.scratch.join("gfault");
                infra!(c, std::fs::create_dir_all(gdir.join("pack")), "mkdir");
                let g = w.receiver.clone().env("GIT_OBJECT_DIRECTORY", gdir.to_str().unwrap_or(""));
                let (git_ok, _o, e) = infra!(c, g.try_run(["index-pack", "--stdin"], Some(&bad)), "git index-pack on the faulted stream");
                let sig = if known_header_class(&bad) == Some("zero-object-count") { "zero-object-count-accepted" } else { "corrupt-stream-accepted" };
                ensure_sig!(
                    c,
                    sig,
                    git_ok,
                    "{label} {fault:?} (thread_limit {threads}, lookup {with_lookup}) of a {} byte stream with {n} objects was accepted ({}, files {left:?}); git index-pack rejects these bytes: {}",
                    pack.len(),
                    outcome,
                    String::from_utf8_lossy(&e).trim()
                );
                c.label("git-accepts-faulted-stream");
            }
        }
    });

    ck.finish();
}
