//! C18 — reference lookup and iteration match git.
//!
//! One sub-check `world`: a repository whose references are written by git (fast-import for objects, update-ref --stdin, pack-refs --all, then
//! update-ref --stdin for loose-only refs and for loose values shadowing now stale packed ones; symbolic refs as
//! files), compared with git itself:
//! * `store.iter().all()` and `.prefixed(p)` == `git for-each-ref [p]` as an ordered sequence (name, value, symref),
//! * `store.try_find(full name)` == git's value for every listed name, `None` for absent neighbours,
//! * `store.try_find(short name)` resolves to what `git rev-parse --symbolic-full-name` prints.
use gix_object::bstr::ByteSlice;
use gix_ref::Target;
use std::collections::BTreeMap;
use std::path::Path;
use vp::*;

const CATS: &[&str] = &["heads", "tags", "remotes/o", "notes", "x", "x-"];
/// components with bytes sorting below '/' ('-', '.', ',' '+') next to a possible directory boundary
const COMPS_BELOW: &[&str] = &["a", "a-", "a.b", "a0", "ab", "-", "0", "x", "b", "a-b", "a+", "HEAD"];
/// components that cannot make per-directory order differ from full-name order
const COMPS_PLAIN: &[&str] = &["a", "b", "ab", "a0", "0", "x", "z", "A", "a_", "HEAD"];

#[derive(Clone, Copy, Debug, PartialEq, Eq, Hash)]
enum Place {
    Loose,
    Packed,
    /// packed with a stale value, loose with the current one
    Both,
}

#[derive(Clone, Debug, Hash)]
struct RefSpec {
    name: String,
    place: Place,
    /// index into the object pool for the current value (and the stale one)
    value: usize,
    stale: usize,
}

#[derive(Debug, Hash)]
struct WorldSpec {
    refs: Vec<RefSpec>,
    /// (name, target name)
    symrefs: Vec<(String, String)>,
    below: bool,
    /// a short name that exists under two DWIM namespaces (always queried)
    twin_short: Option<String>,
}

fn conflicts(names: &[String], n: &str) -> bool {
    names.iter().any(|e| {
        e == n || e.starts_with(&format!("{n}/")) || n.starts_with(&format!("{e}/"))
    })
}

fn gen_world(t: &mut Tape) -> WorldSpec {
    let below = t.bool();
    let comps = if below { COMPS_BELOW } else { COMPS_PLAIN };
    let n = match t.weighted(&[1, 3, 5, 3]) {
        0 => t.range(1, 3),
        1 => t.range(4, 8),
        2 => t.range(9, 20),
        _ => t.range(21, 40),
    };
    let mut names: Vec<String> = Vec::new();
    let mut refs = Vec::new();
    for _ in 0..n {
        if t.is_empty() {
            break;
        }
        let name = if !names.is_empty() && t.chance(100) {
            // derive: sibling of an existing directory or file with a suffix byte
            let base = names[t.below(names.len())].clone();
            match t.below(3) {
                0 => match base.rfind('/') {
                    Some(p) if p > 5 => {
                        let dir = &base[..p];
                        if below {
                            format!("{dir}{}", t.pick(&["-", "-b", ".b", "+", "0", "b"]))
                        } else {
                            format!("{dir}{}", t.pick(&["0", "b", "_", "z"]))
                        }
                    }
                    _ => base,
                },
                1 => format!("{base}/{}", t.pick(comps)),
                _ => match base.rfind('/') {
                    Some(p) => format!("{}/{}", &base[..p], t.pick(comps)),
                    None => base,
                },
            }
        } else {
            let mut s = format!("refs/{}", t.pick(CATS));
            let depth = t.weighted(&[5, 4, 1]) + 1;
            for _ in 0..depth {
                s.push('/');
                s.push_str(*t.pick(comps));
            }
            s
        };
        if !name.starts_with("refs/")
            || name.matches('/').count() < 2
            || gix_validate::reference::name(name.as_bytes().as_bstr()).is_err()
            || conflicts(&names, &name)
            || name.ends_with("/HEAD")
        {
            continue;
        }
        let place = *t.pick(&[Place::Loose, Place::Packed, Place::Both, Place::Both]);
        // git refuses non-commits under refs/heads/: tags (pool 4, 5) only elsewhere
        let pool = if name.starts_with("refs/heads/") { 4 } else { 6 };
        let value = t.below(pool);
        let mut stale = t.below(pool);
        if stale == value {
            stale = (stale + 1) % pool;
        }
        names.push(name.clone());
        refs.push(RefSpec {
            name,
            place,
            value,
            stale,
        });
    }
    // ambiguity across the DWIM namespaces: the same short name under two of refs/{tags,heads,remotes}
    let mut twin_short: Option<String> = None;
    if !refs.is_empty() && t.chance(110) {
        let src = refs[t.below(refs.len())].clone();
        let rest = src.name.splitn(3, '/').nth(2).unwrap_or("").to_string();
        let from = src.name.splitn(3, '/').nth(1).unwrap_or("").to_string();
        let to = *t.pick(&["tags", "heads", "remotes"]);
        let name = format!("refs/{to}/{rest}");
        if !rest.is_empty()
            && to != from
            && gix_validate::reference::name(name.as_bytes().as_bstr()).is_ok()
            && !conflicts(&names, &name)
            && !name.ends_with("/HEAD")
        {
            let pool = if name.starts_with("refs/heads/") { 4 } else { 6 };
            let value = (src.value + 1 + t.below(pool - 1)) % pool;
            let value = if value == src.value % pool { (value + 1) % pool } else { value };
            names.push(name.clone());
            refs.push(RefSpec {
                name,
                place: *t.pick(&[Place::Loose, Place::Packed, Place::Both]),
                value,
                stale: (value + 1) % pool,
            });
            twin_short = Some(rest);
        }
    }
    // symbolic refs (always loose), never dangling
    let mut symrefs: Vec<(String, String)> = Vec::new();
    let nsym = t.weighted(&[3, 3, 2, 1]);
    for _ in 0..nsym {
        if refs.is_empty() {
            break;
        }
        let target = if !symrefs.is_empty() && t.chance(40) {
            symrefs[t.below(symrefs.len())].0.clone()
        } else {
            refs[t.below(refs.len())].name.clone()
        };
        let name = match t.below(3) {
            0 => "refs/remotes/o/HEAD".to_string(),
            1 => format!("refs/heads/{}", t.pick(&["sym", "a-sym", "a/sym", "0"])),
            _ => format!("refs/{}/{}", t.pick(CATS), t.pick(comps)),
        };
        let all: Vec<String> = names.iter().cloned().chain(symrefs.iter().map(|s| s.0.clone())).collect();
        if conflicts(&all, &name) || gix_validate::reference::name(name.as_bytes().as_bstr()).is_err() {
            continue;
        }
        symrefs.push((name, target));
    }
    WorldSpec {
        refs,
        symrefs,
        below,
        twin_short,
    }
}

/// component-wise comparison = order of a sorted directory walk
fn walk_cmp(a: &str, b: &str) -> std::cmp::Ordering {
    a.split('/').cmp(b.split('/'))
}

/// true if a per-directory sorted walk lists `names` in an order that is not ascending byte order
fn walk_order_differs(names: &[String]) -> bool {
    let mut w: Vec<&String> = names.iter().collect();
    w.sort_by(|a, b| walk_cmp(a, b));
    w.windows(2).any(|p| p[0] > p[1])
}

fn loose_files(dir: &Path, rel: &str, out: &mut Vec<String>) {
    if let Ok(rd) = std::fs::read_dir(dir) {
        for e in rd.flatten() {
            let name = e.file_name().to_string_lossy().to_string();
            let r = format!("{rel}/{name}");
            match e.file_type() {
                Ok(ft) if ft.is_dir() => loose_files(&e.path(), &r, out),
                Ok(ft) if ft.is_file() => out.push(r),
                _ => {}
            }
        }
    }
}

#[derive(Debug, Clone, PartialEq, Eq)]
struct Listed {
    name: String,
    oid: String,
    symref: String,
    peeled: String,
}

fn parse_for_each_ref(out: &[u8]) -> Result<Vec<Listed>, String> {
    let mut v = Vec::new();
    for line in out.split(|b| *b == b'\n') {
        if line.is_empty() {
            continue;
        }
        let f: Vec<&[u8]> = line.split(|b| *b == b' ').collect();
        if f.len() != 4 {
            return Err(format!("unparsable for-each-ref line {:?}", line.as_bstr()));
        }
        v.push(Listed {
            name: f[0].to_str_lossy().into_owned(),
            oid: f[1].to_str_lossy().into_owned(),
            symref: f[2].to_str_lossy().into_owned(),
            peeled: f[3].to_str_lossy().into_owned(),
        });
    }
    Ok(v)
}

const FORMAT: &str = "--format=%(refname) %(objectname) %(symref) %(*objectname)";

/// gitoxide's entry rendered like a `Listed` (object id only for direct refs; git prints the resolved id for symrefs)
fn render(r: &gix_ref::Reference) -> (String, String, String, Option<String>) {
    let (oid, sym) = match &r.target {
        Target::Object(id) => (id.to_hex().to_string(), String::new()),
        Target::Symbolic(n) => (String::new(), n.as_bstr().to_string()),
    };
    (
        r.name.as_bstr().to_string(),
        oid,
        sym,
        r.peeled.map(|p| p.to_hex().to_string()),
    )
}

fn entry_matches(r: &gix_ref::Reference, want: &Listed) -> bool {
    let (name, oid, sym, peeled) = render(r);
    name == want.name
        && sym == want.symref
        && (!sym.is_empty() || oid == want.oid)
        // a peeled id is only known for packed refs; when present it must be git's
        && peeled.map_or(true, |p| if want.peeled.is_empty() { p == want.oid } else { p == want.peeled })
}

fn show_got(got: &[Result<gix_ref::Reference, String>]) -> String {
    got.iter()
        .map(|r| match r {
            Ok(r) => {
                let (n, o, s, _) = render(r);
                format!("{n}={o}{s}")
            }
            Err(e) => format!("Err({e})"),
        })
        .collect::<Vec<_>>()
        .join(", ")
}
fn show_want(want: &[Listed]) -> String {
    want.iter()
        .map(|w| format!("{}={}", w.name, if w.symref.is_empty() { &w.oid } else { &w.symref }))
        .collect::<Vec<_>>()
        .join(", ")
}

/// compare an iteration with git's list; returns (signature, message) on mismatch
fn compare_iteration(
    what: &str,
    got: &[Result<gix_ref::Reference, String>],
    want: &[Listed],
    loose_in_scope: &[String],
) -> Option<(String, String)> {
    let same = got.len() == want.len()
        && got.iter().zip(want).all(|(g, w)| matches!(g, Ok(r) if entry_matches(r, w)));
    if same {
        return None;
    }
    let sig = if walk_order_differs(loose_in_scope) {
        // the loose refs in scope are walked directory by directory, which is not their byte order: the merge
        // with packed refs then misorders, duplicates and may prefer stale packed values
        "loose-walk-order".to_string()
    } else if got.iter().any(|g| g.is_err()) {
        "iter-error".to_string()
    } else {
        let names: Vec<String> = got.iter().flatten().map(|r| r.name.as_bstr().to_string()).collect();
        let mut sorted = names.clone();
        sorted.sort();
        sorted.dedup();
        if sorted.len() != names.len() {
            "iter-duplicate".to_string()
        } else if names.len() > want.len() {
            "iter-invented".to_string()
        } else if names.len() < want.len() {
            "iter-dropped".to_string()
        } else if names.iter().zip(want).any(|(n, w)| *n != w.name) {
            "iter-order-or-names".to_string()
        } else {
            "iter-value".to_string()
        }
    };
    Some((
        sig,
        format!("{what}: gitoxide yields [{}]\n  git for-each-ref prints [{}]", show_got(got), show_want(want)),
    ))
}

pub fn main() {
    let mut ck = Check::new("C18", "exploration");
    ck.rule("Worlds of 1..40 refs under refs/{heads,tags,remotes/o,notes,x,x-} with 1..3 components from {a,a-,a.b,a0,ab,-,0,x,b,a-b,a+,HEAD} (half of the worlds) or from {a,b,ab,a0,0,x,z,A,a_} (no byte below '/'), derived from each other (directory sibling with a suffix byte below/above '/', child, sibling); each ref loose, packed, or packed-stale + loose-current; values from 4 commits and 2 annotated tags (peeled lines); 0..3 symbolic refs incl. refs/remotes/o/HEAD (never dangling). Written by git fast-import (objects) + update-ref --stdin + pack-refs --all + update-ref --stdin. Queries: all(), 3 prefixes (category directories and parents of refs, with and without trailing '/', one absent), try_find of every name and of absent neighbours, up to 3 short names plus, in ~40 % of worlds, a short name planted under two of refs/{tags,heads,remotes} with different values. Non-trivial: some directory X/ has a sibling X<byte below '/'>.. and some ref is both packed and loose. Distinct by world spec.");
    ck.assume(&format!("oracle: {} for-each-ref (default refname order) and rev-parse --symbolic-full-name", Git::version()));
    ck.assume("prefixes are whole path components (a directory name with or without trailing '/'): for those git's pattern rule (match up to a '/') and gitoxide's documented rule ('refs/heads' is equivalent to 'refs/heads/') coincide; partial-component prefixes are not compared");
    ck.assume("dangling symbolic refs are not generated (git for-each-ref omits them with a warning); for a short name that resolves to a symbolic ref git prints the final target, gitoxide returns the symbolic ref itself: the chain is followed in the harness; for a short name that is ambiguous across namespaces git 2.39 prints no symbolic name (only a warning), so the object id of `git rev-parse --verify` is compared instead");

    ck.sub("world", SubCfg::new(400, 8_000).max_len(700).max_shrink(50), |t, c| {
        let spec = gen_world(t);
        if spec.refs.is_empty() {
            c.discard();
            return;
        }
        // queries decoded up front (tape monotone)
        let nprefix = 3;
        let prefix_picks: Vec<(usize, usize, bool)> = (0..nprefix).map(|_| (t.below(8), t.below(64), t.chance(192))).collect();
        let short_picks: Vec<(usize, usize)> = (0..3).map(|_| (t.below(64), t.below(4))).collect();
        // lookups below a loose ref *file* (open() fails with ENOTDIR) only in some worlds
        let probe_below_file = t.chance(40);
        c.key(&spec);
        c.key(&prefix_picks);
        c.key(&short_picks);
        c.key(&probe_below_file);

        let all_names: Vec<String> = spec
            .refs
            .iter()
            .map(|r| r.name.clone())
            .chain(spec.symrefs.iter().map(|s| s.0.clone()))
            .collect();
        let pair_below = walk_order_differs(&all_names);
        let has_both = spec.refs.iter().any(|r| r.place == Place::Both);
        c.label(if spec.below { "alphabet-below-slash" } else { "alphabet-plain" });
        c.label_if(pair_below, "dir-with-sibling-below-slash");
        c.label_if(has_both, "stale-packed-shadowed");
        c.label_if(!spec.symrefs.is_empty(), "symrefs");
        c.label_if(probe_below_file, "lookups-below-ref-file");
        c.label_if(spec.twin_short.is_some(), "short-name-in-two-namespaces");
        c.label(match spec.refs.len() {
            0..=3 => "refs-1..3",
            4..=8 => "refs-4..8",
            9..=20 => "refs-9..20",
            _ => "refs-21..40",
        });
        c.nontrivial(pair_below && has_both);
        c.sample_with(|| {
            format!(
                "{} refs {:?}; symrefs {:?}",
                spec.refs.len(),
                spec.refs.iter().map(|r| format!("{}:{:?}", r.name, r.place)).collect::<Vec<_>>(),
                spec.symrefs
            )
        });

        // ---- build the world with git
        let w = infra!(c, World::new("c18", true), "world");
        let git = &w.git;
        let mut fi = String::new();
        for i in 0..4 {
            fi.push_str(&format!(
                "commit refs/heads/zz-src\nmark :{}\ncommitter C <c@x> {} +0000\ndata 1\n{}\n",
                i + 1,
                100 + i,
                i
            ));
        }
        for i in 0..2 {
            fi.push_str(&format!(
                "tag zz-t{i}\nmark :{}\nfrom :{}\ntagger C <c@x> 200 +0000\ndata 1\n{i}\n",
                5 + i,
                1 + i
            ));
        }
        let marks = w.scratch.join("marks");
        infra!(
            c,
            git.run_in(
                vec![
                    std::ffi::OsString::from("fast-import"),
                    "--quiet".into(),
                    format!("--export-marks={}", marks.display()).into()
                ],
                Some(fi.as_bytes())
            ),
            "fast-import"
        );
        // object ids of the pool (marks :1..:6)
        let marks = infra!(c, std::fs::read_to_string(&marks), "read marks");
        let mut pool: Vec<String> = vec![String::new(); 6];
        for l in marks.lines() {
            if let Some((m, id)) = l.split_once(' ') {
                if let Ok(i) = m.trim_start_matches(':').parse::<usize>() {
                    if (1..=6).contains(&i) {
                        pool[i - 1] = id.trim().to_string();
                    }
                }
            }
        }
        if pool.iter().any(|p| p.len() != 40) {
            c.infra(format!("object pool from marks: {marks:?}"));
            return;
        }
        // phase 1: everything that ends up packed, with the value it has in packed-refs
        // (update-ref, not fast-import `reset`, which refuses refs to tag objects)
        let mut first = String::new();
        for r in &spec.refs {
            let v = match r.place {
                Place::Loose => continue,
                Place::Packed => r.value,
                Place::Both => r.stale,
            };
            first.push_str(&format!("create {} {}\n", r.name, pool[v]));
        }
        if !first.is_empty() {
            infra!(c, git.run_in(["update-ref", "--stdin"], Some(first.as_bytes())), "update-ref (phase 1)");
        }
        infra!(c, git.run(["pack-refs", "--all"]), "pack-refs");
        // phase 2: loose refs and loose values over stale packed ones
        let mut upd = String::new();
        for r in &spec.refs {
            match r.place {
                Place::Packed => {}
                Place::Loose => upd.push_str(&format!("create {} {}\n", r.name, pool[r.value])),
                Place::Both => upd.push_str(&format!("update {} {}\n", r.name, pool[r.value])),
            }
        }
        if !upd.is_empty() {
            infra!(c, git.run_in(["update-ref", "--stdin"], Some(upd.as_bytes())), "update-ref");
        }
        let git_dir = w.git_dir();
        for (name, target) in &spec.symrefs {
            let p = git_dir.join(name);
            if let Some(parent) = p.parent() {
                infra!(c, std::fs::create_dir_all(parent), "mkdir for symref");
            }
            infra!(c, std::fs::write(&p, format!("ref: {target}\n")), "write symref");
        }
        let mut loose: Vec<String> = Vec::new();
        loose_files(&git_dir.join("refs"), "refs", &mut loose);
        loose.sort();
        let trigger = walk_order_differs(&loose);
        c.label_if(trigger, "loose-walk-order-differs");

        // ---- git's view
        let all = infra!(c, git.run(["for-each-ref", FORMAT]), "for-each-ref");
        let want_all = infra!(c, parse_for_each_ref(&all), "for-each-ref output");
        // git prints the *final* target of a chain of symbolic refs; gitoxide (and the file) hold the immediate one
        let immediate = |mut v: Vec<Listed>| -> Result<Vec<Listed>, String> {
            for l in v.iter_mut() {
                if l.symref.is_empty() {
                    continue;
                }
                let Some((_, target)) = spec.symrefs.iter().find(|(n, _)| *n == l.name) else {
                    return Err(format!("git lists {} as symbolic ref, the world has none", l.name));
                };
                let mut end = target.clone();
                for _ in 0..5 {
                    match spec.symrefs.iter().find(|(n, _)| *n == end) {
                        Some((_, t)) => end = t.clone(),
                        None => break,
                    }
                }
                if end != l.symref {
                    return Err(format!("{} resolves to {end} in the world, git prints {}", l.name, l.symref));
                }
                l.symref = target.clone();
            }
            Ok(v)
        };
        let want_all = infra!(c, immediate(want_all), "symref chain");
        // sanity: the world is what was specified
        for r in &spec.refs {
            match want_all.iter().find(|l| l.name == r.name) {
                Some(l) if l.oid == pool[r.value] => {}
                other => {
                    c.infra(format!("world construction: {} should be {} but git lists {:?}", r.name, pool[r.value], other));
                    return;
                }
            }
        }
        if spec.symrefs.iter().any(|(n, _)| !want_all.iter().any(|l| l.name == *n && !l.symref.is_empty())) {
            c.infra("world construction: a symbolic ref is not listed by git".to_string());
            return;
        }

        let store = gix_ref::file::Store::at(
            git_dir.clone(),
            gix_ref::store::init::Options {
                write_reflog: gix_ref::store::WriteReflog::Disable,
                object_hash: gix_hash::Kind::Sha1,
                ..Default::default()
            },
        );
        let platform = match store.iter() {
            Ok(p) => p,
            Err(e) => {
                c.fail_sig("iter-open", format!("store.iter() failed: {e}"));
                return;
            }
        };
        let mut failures: Vec<(String, String)> = Vec::new();

        // ---- iteration: all
        match platform.all() {
            Ok(it) => {
                let got: Vec<_> = it.map(|r| r.map_err(|e| e.to_string())).collect();
                if let Some(f) = compare_iteration("all()", &got, &want_all, &loose) {
                    failures.push(f);
                }
            }
            Err(e) => failures.push(("iter-open".into(), format!("all() failed: {e}"))),
        }

        // ---- iteration: prefixed
        let dirs: [&str; 8] = [
            "refs/heads",
            "refs/tags",
            "refs/remotes/o",
            "refs/x",
            "refs/remotes",
            "refs/none",
            "refs/notes",
            "refs/x-",
        ];
        let parents: Vec<String> = want_all
            .iter()
            .filter_map(|l| l.name.rfind('/').map(|p| l.name[..p].to_string()))
            .filter(|p| p.matches('/').count() >= 2)
            .collect();
        let mut asked_prefixes: Vec<String> = Vec::new();
        for (fixed, pick, slash) in &prefix_picks {
            let dir = if *pick % 2 == 0 || parents.is_empty() {
                dirs[*fixed].to_string()
            } else {
                parents[*pick % parents.len()].clone()
            };
            let prefix = if *slash { format!("{dir}/") } else { dir.clone() };
            if asked_prefixes.contains(&prefix) {
                continue;
            }
            asked_prefixes.push(prefix.clone());
            let out = infra!(c, git.run(["for-each-ref", FORMAT, prefix.as_str()]), "for-each-ref prefix");
            let want = infra!(c, parse_for_each_ref(&out).and_then(&immediate), "for-each-ref output");
            let scope: Vec<String> = loose
                .iter()
                .filter(|n| n.starts_with(&format!("{dir}/")) || **n == dir)
                .cloned()
                .collect();
            c.label(if *slash { "prefix-with-slash" } else { "prefix-without-slash" });
            c.label_if(want.is_empty(), "prefix-matches-nothing");
            match platform.prefixed(Path::new(&prefix)) {
                Ok(it) => {
                    let got: Vec<_> = it.map(|r| r.map_err(|e| e.to_string())).collect();
                    if let Some((sig, msg)) = compare_iteration(&format!("prefixed({prefix:?})"), &got, &want, &scope) {
                        // more specific classes: entries outside the directory although the prefix names a directory
                        let outside: Vec<String> = got
                            .iter()
                            .flatten()
                            .map(|r| r.name.as_bstr().to_string())
                            .filter(|n| !(*n == dir || n.starts_with(&format!("{dir}/"))))
                            .collect();
                        let sig = if sig == "loose-walk-order" || outside.is_empty() {
                            sig
                        } else if outside.iter().all(|n| n.starts_with(&dir)) {
                            // e.g. refs/heads/zz for "refs/heads/z": only the string prefix matches
                            "prefix-dir-yields-string-prefix-sibling".to_string()
                        } else {
                            "prefix-yields-unrelated-ref".to_string()
                        };
                        failures.push((sig, msg));
                    }
                }
                Err(e) => failures.push(("iter-open".into(), format!("prefixed({prefix:?}) failed: {e}"))),
            }
        }

        // ---- lookup of full names
        let by_name: BTreeMap<&str, &Listed> = want_all.iter().map(|l| (l.name.as_str(), l)).collect();
        for l in &want_all {
            match store.try_find(l.name.as_str()) {
                Ok(Some(r)) => {
                    if !entry_matches(&r, l) {
                        failures.push((
                            "find-full-value".into(),
                            format!("try_find({:?}) = {:?}, git lists {l:?}", l.name, render(&r)),
                        ));
                    }
                }
                Ok(None) => failures.push(("find-full-missing".into(), format!("try_find({:?}) = None, git lists {l:?}", l.name))),
                Err(e) => failures.push(("find-full-error".into(), format!("try_find({:?}) failed: {e}", l.name))),
            }
        }
        // absent neighbours: directories and names with a suffix
        let mut absent: Vec<String> = Vec::new();
        for l in want_all.iter().take(12) {
            absent.push(format!("{}x", l.name));
            absent.push(format!("{}-", l.name));
            if probe_below_file {
                absent.push(format!("{}/a", l.name));
            }
            if let Some(p) = l.name.rfind('/') {
                absent.push(l.name[..p].to_string());
            }
        }
        absent.sort();
        absent.dedup();
        for a in &absent {
            if by_name.contains_key(a.as_str()) || a.matches('/').count() < 2 {
                continue;
            }
            if gix_validate::reference::name(a.as_bytes().as_bstr()).is_err() {
                continue;
            }
            match store.try_find(a.as_str()) {
                Ok(None) => {}
                Ok(Some(r)) => failures.push(("find-absent-found".into(), format!("try_find({a:?}) = {:?} but git lists no such ref", render(&r)))),
                Err(e) => {
                    // a loose ref file where the name needs a directory: open() fails with ENOTDIR, not ENOENT
                    let enotdir = loose.iter().any(|f| a.starts_with(&format!("{f}/")));
                    failures.push((
                        if enotdir { "find-enotdir".into() } else { "find-absent-error".into() },
                        format!("try_find({a:?}) failed: {e}; git lists no such ref"),
                    ))
                }
            }
        }

        // ---- short names
        let resolve = |mut name: String| -> String {
            for _ in 0..5 {
                match by_name.get(name.as_str()) {
                    Some(l) if !l.symref.is_empty() => name = l.symref.clone(),
                    _ => break,
                }
            }
            name
        };
        let mut asked: Vec<String> = Vec::new();
        let planted: Vec<Option<String>> = spec.twin_short.iter().cloned().map(Some).collect();
        for (forced, (pick, how)) in planted
            .into_iter()
            .chain(std::iter::repeat(None))
            .zip(short_picks.iter().chain(std::iter::once(&(0usize, 0usize))))
        {
            let l = &want_all[*pick % want_all.len()];
            let rest = &l.name[5..]; // after refs/
            let short = if let Some(f) = forced { f } else { match how {
                0 => rest.to_string(),
                1 => rest.splitn(2, '/').nth(1).unwrap_or(rest).to_string(),
                2 => l.name.rsplit('/').next().unwrap_or(rest).to_string(),
                _ => {
                    // drop the category and, for remotes, keep the remote: o/a
                    let s = rest.splitn(2, '/').nth(1).unwrap_or(rest);
                    s.strip_suffix("/HEAD").unwrap_or(s).to_string()
                }
            } };
            if short.is_empty()
                || short.starts_with('-') // an option to rev-parse
                || asked.contains(&short)
                || short.starts_with("refs/")
                || short.bytes().all(|b| b.is_ascii_uppercase() || b == b'_')
                || gix_validate::reference::name_partial(short.as_bytes().as_bstr()).is_err()
            {
                continue;
            }
            asked.push(short.clone());
            let (ok, out, err) = infra!(
                c,
                git.try_run(["rev-parse", "--symbolic-full-name", short.as_str()], None),
                "rev-parse"
            );
            let err = String::from_utf8_lossy(&err).to_string();
            let want: Option<String> = if ok {
                let s = String::from_utf8_lossy(&out).trim().to_string();
                if s.is_empty() && err.contains("is ambiguous") {
                    // git 2.39 refuses to print a symbolic name for an ambiguous short name, but it does resolve
                    // it (first matching DWIM rule wins): compare the object the name resolves to
                    c.label("short-query");
                    c.label("short-query-ambiguous");
                    let id = infra!(c, git.run_str(["rev-parse", "--verify", "-q", short.as_str()]), "rev-parse --verify");
                    match store.try_find(short.as_str()) {
                        Ok(Some(r)) => {
                            let final_name = resolve(r.name.as_bstr().to_string());
                            let got = by_name.get(final_name.as_str()).map(|l| l.oid.clone());
                            if got.as_deref() != Some(id.trim()) {
                                failures.push((
                                    "find-short-ambiguous-other-rule".into(),
                                    format!("try_find({short:?}) = {:?} (value {got:?}); git resolves the ambiguous name to {}", render(&r), id.trim()),
                                ));
                            }
                        }
                        Ok(None) => failures.push(("find-short-missing".into(), format!("try_find({short:?}) = None, git resolves it to {}", id.trim()))),
                        Err(e) => failures.push(("find-short-error".into(), format!("try_find({short:?}) failed: {e}"))),
                    }
                    continue;
                }
                if s.is_empty() {
                    // resolved as something that is not a ref (e.g. an abbreviated object id): not our subject
                    continue;
                }
                Some(s)
            } else if err.contains("unknown revision") || err.contains("ambiguous argument") {
                None
            } else {
                c.infra(format!("rev-parse {short:?}: {err}"));
                return;
            };
            c.label("short-query");
            c.label_if(want.is_none(), "short-query-unresolved");
            match (store.try_find(short.as_str()), want) {
                (Ok(None), None) => {}
                (Ok(Some(r)), Some(full)) => {
                    let got = resolve(r.name.as_bstr().to_string());
                    if got != full {
                        failures.push((
                            "find-short-other-ref".into(),
                            format!("try_find({short:?}) = {:?} (resolving to {got}), git rev-parse --symbolic-full-name prints {full}", render(&r)),
                        ));
                    } else if let Some(l) = by_name.get(r.name.as_bstr().to_string().as_str()) {
                        if !entry_matches(&r, l) {
                            failures.push(("find-short-value".into(), format!("try_find({short:?}) = {:?}, git lists {l:?}", render(&r))));
                        }
                    }
                }
                (Ok(Some(r)), None) => failures.push((
                    "find-short-invented".into(),
                    format!("try_find({short:?}) = {:?}, git cannot resolve that name", render(&r)),
                )),
                (Ok(None), Some(full)) => failures.push((
                    "find-short-missing".into(),
                    format!("try_find({short:?}) = None, git resolves it to {full}"),
                )),
                (Err(e), want) => {
                    let enotdir = ["refs/", "refs/tags/", "refs/heads/", "refs/remotes/"]
                        .iter()
                        .any(|p| loose.iter().any(|f| format!("{p}{short}").starts_with(&format!("{f}/"))));
                    failures.push((
                        if enotdir { "find-enotdir".into() } else { "find-short-error".into() },
                        format!("try_find({short:?}) failed: {e}; git: {want:?}"),
                    ))
                }
            }
        }

        // report: anything outside the known walk-order class first
        const KNOWN_CLASSES: &[&str] = &[
            "loose-walk-order",
            "prefix-dir-yields-string-prefix-sibling",
            "prefix-yields-unrelated-ref",
            "find-enotdir",
        ];
        let pick = failures
            .iter()
            .find(|(s, _)| !KNOWN_CLASSES.contains(&s.as_str()))
            .or(failures.first());
        if let Some((sig, msg)) = pick {
            let loose_note = format!("\n  loose files: {loose:?}");
            c.fail_sig(sig, format!("{msg}{loose_note}"));
        }
    });

    ck.finish();
}
