//! C47 — commit walks agree with `git rev-list`.
//!
//! One case = one commit DAG (same generator as C46: criss-cross and octopus merges, several roots, commit times
//! increasing / equal / colliding / inverted / random), a list of tips, a list of hidden commits and a cut-off date.
//! Every traversal mode of `gix_traverse::commit::{Simple, Topo}` is run:
//!   Simple: BreadthFirst, ByCommitTime(Newest|Oldest), ByCommitTimeCutoff(Newest|Oldest), each with Parents::All|First
//!   Topo:   TopoOrder, DateOrder with Parents::All|First, with hidden commits (`ends`)
//! and compared against
//!   * set level (all modes): pairwise distinct ids, exactly the commits git lists
//!     (`git rev-list [--first-parent] [--max-age=N] tips` / `git rev-list --topo-order tips ^hidden`);
//!   * sequence level: Topo == `git rev-list --topo-order|--date-order [--first-parent] tips ^hidden` and
//!     Simple ByCommitTime(Newest) == `git rev-list tips`, exactly, whenever the commit times involved are pairwise
//!     distinct; with colliding times a validity predicate instead (always a commit of maximal/minimal date among those
//!     available; no parent before its children for Topo);
//!   * with and without a commit-graph file (full v1/v2, partial, split chain) the results are the same.
//! Sub-check `in-memory` runs on an in-memory object store against transcriptions of git's walks (no processes, many
//! cases); the transcriptions are validated against real git in every case of sub-check `rev-list`, and a gitoxide/model
//! disagreement in `in-memory` is put to real git before it is reported.
use std::collections::BTreeSet;

use gix_hash::ObjectId;
use gix_traverse::commit::{simple, topo, Parents, Simple};
use vp::*;

// ------------------------------------------------------------------------------------------------ DAG generator

#[derive(Clone, Debug, Hash, PartialEq, Eq)]
struct Dag {
    /// parents[i] are indices < i (topological numbering), in parent order
    parents: Vec<Vec<usize>>,
    times: Vec<i64>,
    time_mode: &'static str,
}

const BASE_TIME: i64 = 1_500_000_000;

fn gen_dag(t: &mut Tape, small: bool) -> Dag {
    let n = if small {
        match t.weighted(&[6, 3, 1]) {
            0 => t.range(2, 8),
            1 => t.range(9, 16),
            _ => t.range(17, 40),
        }
    } else {
        match t.weighted(&[4, 4, 2]) {
            0 => t.range(2, 12),
            1 => t.range(13, 40),
            _ => t.range(41, 120),
        }
    };
    let window = t.range(1, 8);
    let root_chance = *t.pick(&[0u32, 8, 8, 24]);
    let merge_weight = *t.pick(&[10u32, 40, 40, 90]);
    let time_mode = *t.pick(&["increasing", "all-equal", "colliding", "inverted", "random-distinct", "mostly-increasing"]);
    let mut parents: Vec<Vec<usize>> = Vec::with_capacity(n);
    for i in 0..n {
        let mut ps: Vec<usize> = Vec::new();
        if i > 0 && !t.chance(root_chance) {
            let want = match t.weighted(&[100, merge_weight, merge_weight / 6 + 1, merge_weight / 12 + 1]) {
                0 => 1,
                1 => 2,
                2 => 3,
                _ => 4,
            };
            for _ in 0..want {
                // mostly recent commits (branchy, criss-cross histories), sometimes anything
                let p = if t.chance(40) {
                    t.below(i)
                } else {
                    i - 1 - t.below(window.min(i))
                };
                if !ps.contains(&p) {
                    ps.push(p);
                }
            }
        }
        parents.push(ps);
    }
    let mut times = Vec::with_capacity(n);
    for i in 0..n {
        let i = i as i64;
        let v = match time_mode {
            "increasing" => BASE_TIME + i * 10,
            "all-equal" => BASE_TIME,
            "colliding" => BASE_TIME + t.below(4) as i64,
            "inverted" => BASE_TIME + 100_000 - i * 10,
            "random-distinct" => BASE_TIME + (t.below(1000) as i64) * 1000 + i,
            _ => BASE_TIME + i * 10 + if t.chance(40) { -(t.below(60) as i64) } else { 0 },
        };
        times.push(v);
    }
    Dag {
        parents,
        times,
        time_mode,
    }
}

impl Dag {
    fn len(&self) -> usize {
        self.parents.len()
    }
    fn fast_import_stream(&self) -> Vec<u8> {
        let mut s = String::new();
        for i in 0..self.len() {
            let msg = format!("c{i}\n");
            s.push_str(&format!(
                "commit refs/c/{i}\nmark :{}\ncommitter C <c@example.com> {} +0000\ndata {}\n{}",
                i + 1,
                self.times[i],
                msg.len(),
                msg
            ));
            for (k, p) in self.parents[i].iter().enumerate() {
                s.push_str(&format!("{} :{}\n", if k == 0 { "from" } else { "merge" }, p + 1));
            }
        }
        s.into_bytes()
    }
    /// ancestors-or-self as bitsets
    fn ancestors(&self) -> Vec<u128> {
        let mut anc: Vec<u128> = Vec::with_capacity(self.len());
        for i in 0..self.len() {
            let mut a = 1u128 << i;
            for p in &self.parents[i] {
                a |= anc[*p];
            }
            anc.push(a);
        }
        anc
    }
}

fn bits(mut b: u128) -> Vec<usize> {
    let mut v = Vec::new();
    while b != 0 {
        let i = b.trailing_zeros() as usize;
        v.push(i);
        b &= b - 1;
    }
    v
}

// ------------------------------------------------------------------------------------------------ in-memory store

/// the commits of a DAG as an object store that lives in memory (same bytes and ids as `git fast-import` produces)
struct MemOdb {
    map: std::collections::HashMap<ObjectId, Vec<u8>>,
}

impl gix_object::Find for MemOdb {
    fn try_find<'a>(
        &self,
        id: &gix_hash::oid,
        buffer: &'a mut Vec<u8>,
    ) -> Result<Option<gix_object::Data<'a>>, gix_object::find::Error> {
        match self.map.get(id) {
            None => Ok(None),
            Some(bytes) => {
                buffer.clear();
                buffer.extend_from_slice(bytes);
                Ok(Some(gix_object::Data {
                    kind: gix_object::Kind::Commit,
                    data: buffer,
                }))
            }
        }
    }
}

fn mem_odb(dag: &Dag) -> (MemOdb, Vec<ObjectId>) {
    let mut ids: Vec<ObjectId> = Vec::with_capacity(dag.len());
    let mut map = std::collections::HashMap::new();
    for i in 0..dag.len() {
        let mut b = String::from("tree 4b825dc642cb6eb9a060e54bf8d69288fbee4904\n");
        for p in &dag.parents[i] {
            b.push_str(&format!("parent {}\n", ids[*p]));
        }
        b.push_str(&format!(
            "author C <c@example.com> {t} +0000\ncommitter C <c@example.com> {t} +0000\n\nc{i}\n",
            t = dag.times[i]
        ));
        let id = gix_object::compute_hash(gix_hash::Kind::Sha1, gix_object::Kind::Commit, b.as_bytes());
        map.insert(id, b.into_bytes());
        ids.push(id);
    }
    (MemOdb { map }, ids)
}

// ------------------------------------------------------------------------------------------------ world

struct FastWorld {
    #[allow(dead_code)]
    scratch: Scratch,
    git: Git,
}

impl FastWorld {
    fn new(tag: &str) -> Result<FastWorld, String> {
        let scratch = Scratch::new(tag).map_err(|e| format!("scratch: {e}"))?;
        let home = scratch.join("home");
        let repo = scratch.join("repo");
        let mk = |p: std::path::PathBuf| std::fs::create_dir_all(&p).map_err(|e| format!("mkdir {}: {e}", p.display()));
        mk(home.clone())?;
        mk(repo.join("objects").join("info"))?;
        mk(repo.join("objects").join("pack"))?;
        mk(repo.join("refs").join("heads"))?;
        mk(repo.join("refs").join("tags"))?;
        std::fs::write(repo.join("HEAD"), "ref: refs/heads/main\n").map_err(|e| e.to_string())?;
        std::fs::write(
            repo.join("config"),
            "[core]\n\trepositoryformatversion = 0\n\tfilemode = true\n\tbare = true\n",
        )
        .map_err(|e| e.to_string())?;
        let git = Git::new(&repo, &home);
        Ok(FastWorld { scratch, git })
    }
    fn repo(&self) -> std::path::PathBuf {
        self.git.dir.clone()
    }
}

fn import(world: &FastWorld, dag: &Dag) -> Result<Vec<ObjectId>, String> {
    let marks = world.scratch.join("marks");
    world.git.run_in(
        [
            "fast-import".to_string(),
            "--quiet".to_string(),
            format!("--export-marks={}", marks.display()),
        ],
        Some(&dag.fast_import_stream()),
    )?;
    let text = std::fs::read_to_string(&marks).map_err(|e| format!("read marks: {e}"))?;
    let mut ids = vec![None; dag.len()];
    for line in text.lines() {
        let (m, id) = line.split_once(' ').ok_or("bad marks line")?;
        let idx: usize = m.trim_start_matches(':').parse().map_err(|_| "bad mark")?;
        ids[idx - 1] = Some(ObjectId::from_hex(id.as_bytes()).map_err(|e| e.to_string())?);
    }
    ids.into_iter()
        .map(|i| i.ok_or_else(|| "mark missing".to_string()))
        .collect()
}

#[derive(Clone, Copy, Debug, Hash, PartialEq, Eq)]
enum GraphKind {
    FullV1,
    FullV2,
    /// covers only the history of the given commit
    Partial(usize),
    /// a chain of two files: history of the given commit first, then the rest
    Chain(usize),
}

fn write_commit_graph(world: &FastWorld, ids: &[ObjectId], kind: GraphKind) -> Result<(), String> {
    let git = &world.git;
    match kind {
        GraphKind::FullV1 => {
            git.clone()
                .cfg("commitGraph.generationVersion=1")
                .run(["commit-graph", "write", "--reachable"])?;
        }
        GraphKind::FullV2 => {
            git.clone()
                .cfg("commitGraph.generationVersion=2")
                .run(["commit-graph", "write", "--reachable"])?;
        }
        GraphKind::Partial(k) => {
            git.run_in(
                ["commit-graph", "write", "--stdin-commits"],
                Some(format!("{}\n", ids[k]).as_bytes()),
            )?;
        }
        GraphKind::Chain(k) => {
            git.run_in(
                ["commit-graph", "write", "--stdin-commits", "--split=no-merge"],
                Some(format!("{}\n", ids[k]).as_bytes()),
            )?;
            git.run(["commit-graph", "write", "--reachable", "--split=no-merge"])?;
        }
    }
    Ok(())
}

// ------------------------------------------------------------------------------------------------ walk parameters

#[derive(Clone, Debug, Hash, PartialEq, Eq)]
struct Walk {
    tips: Vec<usize>,
    hidden: Vec<usize>,
    cutoff: i64,
}

fn children_count(dag: &Dag) -> Vec<usize> {
    let mut n = vec![0; dag.len()];
    for ps in &dag.parents {
        for p in ps {
            n[*p] += 1;
        }
    }
    n
}

fn gen_walk(t: &mut Tape, dag: &Dag, anc: &[u128]) -> Walk {
    let n = dag.len();
    let kids = children_count(dag);
    let heads: Vec<usize> = (0..n).filter(|i| kids[*i] == 0).collect();
    let k = 1 + t.weighted(&[6, 4, 2, 1]);
    let mut tips: Vec<usize> = Vec::new();
    for _ in 0..k {
        let tip = match t.weighted(&[10, 6, 3, 1]) {
            0 => heads[heads.len() - 1 - t.below(heads.len().min(4))],
            1 => n - 1 - t.below(n.min(6)),
            2 => t.below(n),
            _ => match tips.last() {
                Some(x) => *x,
                None => n - 1,
            },
        };
        // the property speaks of a *set* of tips: no duplicates (Topo returns a tip given twice twice; not asserted)
        if !tips.contains(&tip) {
            tips.push(tip);
        }
    }
    let mut reach = 0u128;
    for tip in &tips {
        reach |= anc[*tip];
    }
    let nh = t.weighted(&[5, 4, 2]);
    let mut hidden = Vec::new();
    for _ in 0..nh {
        let r = bits(reach);
        let h = match t.weighted(&[12, 5, 3, 1]) {
            0 => r[t.below(r.len())],
            1 => {
                // a parent of a merge inside the walked history: cuts one side of the merge
                let merges: Vec<usize> = r.iter().copied().filter(|c| dag.parents[*c].len() > 1).collect();
                if merges.is_empty() {
                    r[t.below(r.len())]
                } else {
                    let m = merges[t.below(merges.len())];
                    dag.parents[m][t.below(dag.parents[m].len())]
                }
            }
            2 => t.below(n),
            _ => tips[t.below(tips.len())],
        };
        if !hidden.contains(&h) {
            hidden.push(h);
        }
    }
    let r = bits(reach);
    let cutoff = dag.times[r[t.below(r.len())]] + [0i64, 0, 1, -1][t.below(4)];
    Walk { tips, hidden, cutoff }
}

// ------------------------------------------------------------------------------------------------ models (git's walks)

/// `git rev-list [--first-parent] [--max-age=N] tips`: the date-sorted list walk of revision.c
fn model_plain(dag: &Dag, tips: &[usize], first_parent: bool, max_age: Option<i64>) -> Vec<usize> {
    let mut seen = vec![false; dag.len()];
    let mut list: Vec<usize> = Vec::new();
    for t in tips {
        if !seen[*t] {
            seen[*t] = true;
            list.push(*t);
        }
    }
    // commit_list_sort_by_date: stable, newest first
    list.sort_by(|a, b| dag.times[*b].cmp(&dag.times[*a]));
    let mut out = Vec::new();
    while !list.is_empty() {
        let c = list.remove(0);
        if let Some(age) = max_age {
            if dag.times[c] < age {
                continue;
            }
        }
        for p in dag.parents[c].iter().take(if first_parent { 1 } else { usize::MAX }) {
            if !seen[*p] {
                seen[*p] = true;
                // commit_list_insert_by_date: behind everything that is not older
                let pos = list.iter().position(|x| dag.times[*x] < dag.times[*p]).unwrap_or(list.len());
                list.insert(pos, *p);
            }
        }
        out.push(c);
    }
    out
}

/// the set git walks for `tips ^hidden` (hidden commits hide their whole ancestry through all parents)
fn walked_set(dag: &Dag, anc: &[u128], w: &Walk, first_parent: bool) -> u128 {
    let mut hid = 0u128;
    for h in &w.hidden {
        hid |= anc[*h];
    }
    let mut set = 0u128;
    let mut stack: Vec<usize> = w.tips.clone();
    while let Some(c) = stack.pop() {
        if hid & (1u128 << c) != 0 || set & (1u128 << c) != 0 {
            continue;
        }
        set |= 1u128 << c;
        for p in dag.parents[c].iter().take(if first_parent { 1 } else { usize::MAX }) {
            stack.push(*p);
        }
    }
    set
}

/// `git rev-list --topo-order|--date-order [--first-parent] tips ^hidden`
fn model_topo(dag: &Dag, anc: &[u128], w: &Walk, first_parent: bool, date_order: bool) -> Vec<usize> {
    let set = walked_set(dag, anc, w, first_parent);
    let in_set = |c: usize| set & (1u128 << c) != 0;
    let take = if first_parent { 1 } else { usize::MAX };
    let mut indeg = vec![0usize; dag.len()];
    for c in bits(set) {
        for p in dag.parents[c].iter().take(take) {
            if in_set(*p) {
                indeg[*p] += 1;
            }
        }
    }
    // revs->commits: the distinct tips, stably sorted by date, newest first
    let mut tips: Vec<usize> = Vec::new();
    for t in &w.tips {
        if !tips.contains(t) {
            tips.push(*t);
        }
    }
    tips.sort_by(|a, b| dag.times[*b].cmp(&dag.times[*a]));
    let ready: Vec<usize> = tips.into_iter().filter(|c| in_set(*c) && indeg[*c] == 0).collect();
    let mut out = Vec::new();
    if date_order {
        // priority queue by date, ties in insertion order
        let mut ctr = 0u64;
        let mut queue: Vec<(i64, u64, usize)> = Vec::new();
        for c in ready {
            queue.push((dag.times[c], ctr, c));
            ctr += 1;
        }
        while !queue.is_empty() {
            let mut best = 0;
            for i in 1..queue.len() {
                let (t, k, _) = queue[i];
                let (bt, bk, _) = queue[best];
                if t > bt || (t == bt && k < bk) {
                    best = i;
                }
            }
            let (_, _, c) = queue.remove(best);
            out.push(c);
            for p in dag.parents[c].iter().take(take) {
                if in_set(*p) {
                    indeg[*p] -= 1;
                    if indeg[*p] == 0 {
                        queue.push((dag.times[*p], ctr, *p));
                        ctr += 1;
                    }
                }
            }
        }
    } else {
        // LIFO; the initial tips come out in list order
        let mut stack: Vec<usize> = ready.into_iter().rev().collect();
        while let Some(c) = stack.pop() {
            out.push(c);
            for p in dag.parents[c].iter().take(take) {
                if in_set(*p) {
                    indeg[*p] -= 1;
                    if indeg[*p] == 0 {
                        stack.push(*p);
                    }
                }
            }
        }
    }
    out
}

// ------------------------------------------------------------------------------------------------ predicates

fn distinct_times(dag: &Dag, commits: impl Iterator<Item = usize>) -> bool {
    let mut seen = BTreeSet::new();
    for c in commits {
        if !seen.insert(dag.times[c]) {
            return false;
        }
    }
    true
}

fn unique(seq: &[usize]) -> Result<(), String> {
    let mut s = BTreeSet::new();
    for c in seq {
        if !s.insert(*c) {
            return Err(format!("c{c} is returned twice"));
        }
    }
    Ok(())
}

fn same_set(seq: &[usize], want: &[usize]) -> Result<(), String> {
    let a: BTreeSet<usize> = seq.iter().copied().collect();
    let b: BTreeSet<usize> = want.iter().copied().collect();
    if a == b {
        return Ok(());
    }
    let missing: Vec<String> = b.difference(&a).map(|c| format!("c{c}")).collect();
    let extra: Vec<String> = a.difference(&b).map(|c| format!("c{c}")).collect();
    Err(format!("missing [{}], not expected [{}]", missing.join(" "), extra.join(" ")))
}

/// Simple::ByCommitTime[Cutoff]: at every step a commit of maximal (minimal) date among the queued ones
fn frontier_order(dag: &Dag, tips: &[usize], seq: &[usize], newest: bool, cutoff: Option<i64>) -> Result<(), String> {
    let ok_time = |c: usize| cutoff.map_or(true, |s| dag.times[c] >= s);
    let mut seen = vec![false; dag.len()];
    let mut frontier: BTreeSet<usize> = BTreeSet::new();
    for t in tips {
        if !seen[*t] {
            seen[*t] = true;
            if ok_time(*t) {
                frontier.insert(*t);
            }
        }
    }
    for (i, y) in seq.iter().enumerate() {
        if !frontier.contains(y) {
            return Err(format!("step {i}: c{y} is not among the queued commits {frontier:?}"));
        }
        let best = if newest {
            frontier.iter().map(|c| dag.times[*c]).max()
        } else {
            frontier.iter().map(|c| dag.times[*c]).min()
        };
        if Some(dag.times[*y]) != best {
            return Err(format!(
                "step {i}: c{y} (time {}) although a queued commit has time {}",
                dag.times[*y] - BASE_TIME,
                best.unwrap_or(0) - BASE_TIME
            ));
        }
        frontier.remove(y);
        for p in &dag.parents[*y] {
            if !seen[*p] {
                seen[*p] = true;
                if ok_time(*p) {
                    frontier.insert(*p);
                }
            }
        }
    }
    if !frontier.is_empty() {
        return Err(format!("the walk ends although {frontier:?} are still queued"));
    }
    Ok(())
}

/// every returned commit is a tip or comes after one of its children (walked along `take` parents)
fn after_a_child(dag: &Dag, tips: &[usize], seq: &[usize], first_parent: bool) -> Result<(), String> {
    let take = if first_parent { 1 } else { usize::MAX };
    let mut announced = vec![false; dag.len()];
    for t in tips {
        announced[*t] = true;
    }
    for c in seq {
        if !announced[*c] {
            return Err(format!("c{c} is returned before any of its children"));
        }
        for p in dag.parents[*c].iter().take(take) {
            announced[*p] = true;
        }
    }
    Ok(())
}

/// Topo: no parent before its children; for date order additionally always a commit of maximal date among the ready ones
fn topo_valid(dag: &Dag, set: u128, seq: &[usize], first_parent: bool, date_order: bool) -> Result<(), String> {
    let in_set = |c: usize| set & (1u128 << c) != 0;
    let take = if first_parent { 1 } else { usize::MAX };
    let mut indeg = vec![0usize; dag.len()];
    for c in bits(set) {
        for p in dag.parents[c].iter().take(take) {
            if in_set(*p) {
                indeg[*p] += 1;
            }
        }
    }
    let mut ready: BTreeSet<usize> = bits(set).into_iter().filter(|c| indeg[*c] == 0).collect();
    for (i, y) in seq.iter().enumerate() {
        if !ready.contains(y) {
            return Err(format!("step {i}: c{y} is returned although not all of its children were"));
        }
        if date_order {
            let best = ready.iter().map(|c| dag.times[*c]).max().unwrap_or(0);
            if dag.times[*y] != best {
                return Err(format!(
                    "step {i}: c{y} (time {}) although c-ready commit has time {}",
                    dag.times[*y] - BASE_TIME,
                    best - BASE_TIME
                ));
            }
        }
        ready.remove(y);
        for p in dag.parents[*y].iter().take(take) {
            if in_set(*p) {
                indeg[*p] -= 1;
                if indeg[*p] == 0 {
                    ready.insert(*p);
                }
            }
        }
    }
    Ok(())
}

// ------------------------------------------------------------------------------------------------ running gitoxide

fn to_indices(ids: &[ObjectId], got: Vec<ObjectId>) -> Result<Vec<usize>, String> {
    got.into_iter()
        .map(|id| ids.iter().position(|i| *i == id).ok_or_else(|| format!("unknown commit {id} returned")))
        .collect()
}

#[derive(Clone, Copy, Debug, PartialEq, Eq)]
enum SimpleMode {
    Bfs,
    Newest,
    Oldest,
    CutoffNewest,
    CutoffOldest,
}

fn run_simple<F: gix_object::Find>(
    odb: F,
    graph: Option<gix_commitgraph::Graph>,
    ids: &[ObjectId],
    w: &Walk,
    mode: SimpleMode,
    first_parent: bool,
) -> Result<Vec<usize>, String> {
    let sorting = match mode {
        SimpleMode::Bfs => simple::Sorting::BreadthFirst,
        SimpleMode::Newest => simple::Sorting::ByCommitTime(simple::CommitTimeOrder::NewestFirst),
        SimpleMode::Oldest => simple::Sorting::ByCommitTime(simple::CommitTimeOrder::OldestFirst),
        SimpleMode::CutoffNewest => simple::Sorting::ByCommitTimeCutoff {
            order: simple::CommitTimeOrder::NewestFirst,
            seconds: w.cutoff,
        },
        SimpleMode::CutoffOldest => simple::Sorting::ByCommitTimeCutoff {
            order: simple::CommitTimeOrder::OldestFirst,
            seconds: w.cutoff,
        },
    };
    let walk = Simple::new(w.tips.iter().map(|t| ids[*t]), odb)
        .sorting(sorting)
        .map_err(|e| format!("sorting(): {e}"))?
        .parents(if first_parent { Parents::First } else { Parents::All })
        .commit_graph(graph);
    let mut out = Vec::new();
    for info in walk {
        let info = info.map_err(|e| format!("iteration failed: {e}"))?;
        out.push(info.id);
        if out.len() > ids.len() * 2 + 8 {
            return Err("the walk returns more commits than twice the history".into());
        }
    }
    to_indices(ids, out)
}

fn run_topo<F: gix_object::Find>(
    odb: F,
    graph: Option<gix_commitgraph::Graph>,
    ids: &[ObjectId],
    w: &Walk,
    date_order: bool,
    first_parent: bool,
) -> Result<Vec<usize>, String> {
    let walk = topo::Builder::from_iters(
        odb,
        w.tips.iter().map(|t| ids[*t]),
        Some(w.hidden.iter().map(|t| ids[*t])),
    )
    .sorting(if date_order { topo::Sorting::DateOrder } else { topo::Sorting::TopoOrder })
    .parents(if first_parent { Parents::First } else { Parents::All })
    .with_commit_graph(graph)
    .build()
    .map_err(|e| format!("build(): {e}"))?;
    let mut out = Vec::new();
    for info in walk {
        let info = info.map_err(|e| format!("iteration failed: {e}"))?;
        out.push(info.id);
        if out.len() > ids.len() * 2 + 8 {
            return Err("the walk returns more commits than twice the history".into());
        }
    }
    to_indices(ids, out)
}

fn show_seq(s: &[usize]) -> String {
    s.iter().map(|c| format!("c{c}")).collect::<Vec<_>>().join(" ")
}

fn show_dag(d: &Dag) -> String {
    let mut s = format!("{} commits, times {}: ", d.len(), d.time_mode);
    for i in 0..d.len() {
        s.push_str(&format!(
            "c{i}@{}<-[{}] ",
            d.times[i] - BASE_TIME,
            d.parents[i].iter().map(|p| p.to_string()).collect::<Vec<_>>().join(",")
        ));
    }
    s
}

fn show_walk(w: &Walk) -> String {
    format!(
        "tips [{}] hidden [{}] cutoff {}",
        show_seq(&w.tips),
        show_seq(&w.hidden),
        w.cutoff - BASE_TIME
    )
}

struct Failures {
    known: BTreeSet<String>,
    list: Vec<(String, String)>,
}

impl Failures {
    fn push(&mut self, sig: &str, msg: String) {
        if !self.list.iter().any(|(s, _)| s == sig) {
            self.list.push((sig.to_string(), msg));
        }
    }
    /// report the first failure whose class is not a known finding (so the search continues behind known ones)
    fn finish(self, c: &mut Case) {
        let pick = self
            .list
            .iter()
            .find(|(s, _)| !self.known.contains(s))
            .or_else(|| self.list.first());
        if let Some((sig, msg)) = pick {
            c.fail_sig(sig, msg.clone());
        }
    }
}

fn known_signatures() -> BTreeSet<String> {
    let mut out = BTreeSet::new();
    let p = std::path::Path::new(vp::runner::VERIF_ROOT).join("known_findings.json");
    if let Ok(s) = std::fs::read_to_string(p) {
        if let Ok(v) = serde_json::from_str::<serde_json::Value>(&s) {
            if let Some(a) = v["findings"].as_array() {
                for e in a {
                    if e["property"].as_str() == Some("C47") && e["status"].as_str() == Some("known") {
                        if let Some(sig) = e["signature"].as_str() {
                            out.insert(sig.to_string());
                        }
                    }
                }
            }
        }
    }
    out
}

/// What git says (or, in the in-memory sub-check, what the transcription of git says) for one case.
struct Expected {
    plain: Vec<usize>,
    plain_first: Vec<usize>,
    plain_cutoff: Vec<usize>,
    plain_first_cutoff: Vec<usize>,
    /// [topo, date, topo-first-parent, date-first-parent]
    topo: [Vec<usize>; 4],
    /// The first-parent walk contains a commit that is also a non-first parent of another walked commit. git then
    /// orders the two differently depending on whether generation numbers are available (the walk that uses them counts
    /// first-parent edges only, `sort_in_topological_order()` counts all edges), so there is no single git sequence.
    fp_cross_edges: bool,
}

fn fp_cross_edges(dag: &Dag, anc: &[u128], w: &Walk) -> bool {
    let set = walked_set(dag, anc, w, true);
    bits(set)
        .into_iter()
        .any(|c| dag.parents[c].iter().skip(1).any(|p| set & (1u128 << *p) != 0))
}

fn model_expected(dag: &Dag, anc: &[u128], w: &Walk) -> Expected {
    Expected {
        plain: model_plain(dag, &w.tips, false, None),
        plain_first: model_plain(dag, &w.tips, true, None),
        plain_cutoff: model_plain(dag, &w.tips, false, Some(w.cutoff)),
        plain_first_cutoff: model_plain(dag, &w.tips, true, Some(w.cutoff)),
        topo: [
            model_topo(dag, anc, w, false, false),
            model_topo(dag, anc, w, false, true),
            model_topo(dag, anc, w, true, false),
            model_topo(dag, anc, w, true, true),
        ],
        fp_cross_edges: fp_cross_edges(dag, anc, w),
    }
}

const TOPO_NAMES: [&str; 4] = ["topo-order", "date-order", "topo-order-first-parent", "date-order-first-parent"];

/// Run every mode on `odb` (+ optional commit-graph, re-opened per walk by `graph`) and compare with `exp`.
/// Returns the sequences (for the with/without commit-graph comparison).
fn check_all<F: gix_object::Find + Copy>(
    odb: F,
    graph: &dyn Fn() -> Option<gix_commitgraph::Graph>,
    ids: &[ObjectId],
    dag: &Dag,
    anc: &[u128],
    w: &Walk,
    exp: &Expected,
    state: &str,
    f: &mut Failures,
) -> Vec<(String, Vec<usize>)> {
    let ctx = |mode: &str| format!("{mode} {state}; {}; DAG: {}", show_walk(w), show_dag(dag));
    let mut seqs: Vec<(String, Vec<usize>)> = Vec::new();
    let mut reach = 0u128;
    for t in &w.tips {
        reach |= anc[*t];
    }
    let reach_distinct = distinct_times(dag, bits(reach).into_iter());

    // ---- Simple
    for mode in [
        SimpleMode::Bfs,
        SimpleMode::Newest,
        SimpleMode::Oldest,
        SimpleMode::CutoffNewest,
        SimpleMode::CutoffOldest,
    ] {
        for first_parent in [false, true] {
            let name = format!("simple-{mode:?}{}", if first_parent { "-first-parent" } else { "" }).to_lowercase();
            let got = match run_simple(odb, graph(), ids, w, mode, first_parent) {
                Ok(g) => g,
                Err(e) => {
                    f.push(&format!("{name}:error"), format!("{e}; {}", ctx(&name)));
                    continue;
                }
            };
            if let Err(e) = unique(&got) {
                f.push(&format!("{name}:duplicate"), format!("{e}: {}; {}", show_seq(&got), ctx(&name)));
                continue;
            }
            let cutoff = matches!(mode, SimpleMode::CutoffNewest | SimpleMode::CutoffOldest);
            if first_parent {
                let want = if cutoff { &exp.plain_first_cutoff } else { &exp.plain_first };
                if let Err(e) = same_set(&got, want) {
                    // known class: in first-parent mode the cut-off is applied to the tips only
                    let extra_on_chain = got.iter().filter(|x| !want.contains(x)).all(|x| exp.plain_first.contains(x));
                    let nothing_missing = want.iter().all(|x| got.contains(x));
                    if cutoff && nothing_missing && extra_on_chain {
                        f.push(
                            "simple-cutoff-first-parent:cutoff-ignored",
                            format!("commits older than the cut-off are returned ({e}): got {}; {}", show_seq(&got), ctx(&name)),
                        );
                    } else {
                        f.push(&format!("{name}:set"), format!("{e}: got {}; {}", show_seq(&got), ctx(&name)));
                    }
                } else if let Err(e) = after_a_child(dag, &w.tips, &got, true) {
                    f.push(&format!("{name}:order"), format!("{e}: got {}; {}", show_seq(&got), ctx(&name)));
                }
            } else {
                let want = if cutoff { &exp.plain_cutoff } else { &exp.plain };
                if let Err(e) = same_set(&got, want) {
                    f.push(&format!("{name}:set"), format!("{e}: got {}; {}", show_seq(&got), ctx(&name)));
                } else {
                    let res = match mode {
                        SimpleMode::Bfs => after_a_child(dag, &w.tips, &got, false),
                        SimpleMode::Newest => frontier_order(dag, &w.tips, &got, true, None),
                        SimpleMode::Oldest => frontier_order(dag, &w.tips, &got, false, None),
                        SimpleMode::CutoffNewest => frontier_order(dag, &w.tips, &got, true, Some(w.cutoff)),
                        SimpleMode::CutoffOldest => frontier_order(dag, &w.tips, &got, false, Some(w.cutoff)),
                    };
                    if let Err(e) = res {
                        f.push(&format!("{name}:order"), format!("{e}: got {}; {}", show_seq(&got), ctx(&name)));
                    } else if reach_distinct && matches!(mode, SimpleMode::Newest | SimpleMode::CutoffNewest) && &got != want {
                        f.push(
                            &format!("{name}:sequence"),
                            format!(
                                "commit times are distinct but the sequence differs from git's: got {} git {}; {}",
                                show_seq(&got),
                                show_seq(want),
                                ctx(&name)
                            ),
                        );
                    }
                }
            }
            seqs.push((name, got));
        }
    }

    // ---- Topo
    for (i, (first_parent, date_order)) in [(false, false), (false, true), (true, false), (true, true)].into_iter().enumerate() {
        let name = format!("topo-{}", TOPO_NAMES[i]);
        let want = &exp.topo[i];
        let got = match run_topo(odb, graph(), ids, w, date_order, first_parent) {
            Ok(g) => g,
            Err(e) => {
                f.push(&format!("{name}:error"), format!("{e}; {}", ctx(&name)));
                continue;
            }
        };
        if let Err(e) = unique(&got) {
            f.push(&format!("{name}:duplicate"), format!("{e}: {}; {}", show_seq(&got), ctx(&name)));
            continue;
        }
        if let Err(e) = same_set(&got, want) {
            let mut hid = 0u128;
            for h in &w.hidden {
                hid |= anc[*h];
            }
            let nothing_missing = want.iter().all(|x| got.contains(x));
            let extra_are_hidden_tips = got
                .iter()
                .filter(|x| !want.contains(x))
                .all(|x| w.tips.contains(x) && hid & (1u128 << *x) != 0);
            let extra_are_hidden = got.iter().filter(|x| !want.contains(x)).all(|x| hid & (1u128 << *x) != 0);
            if first_parent && nothing_missing && extra_are_hidden && !extra_are_hidden_tips {
                // residual class: only with a commit-graph, where hidden ancestry is explored lazily by generation and a
                // commit can be queued before it is known to be hidden (git drops those when they are popped)
                let sig = if state.starts_with("with commit-graph") {
                    "topo-first-parent:hidden-ancestor-returned-with-commit-graph"
                } else {
                    "topo-first-parent:hidden-ancestry-followed-along-first-parents-only"
                };
                f.push(
                    sig,
                    format!(
                        "commits that are ancestors of a hidden commit through a second parent are returned ({e}): got {} git {}; {}",
                        show_seq(&got),
                        show_seq(want),
                        ctx(&name)
                    ),
                );
            } else if nothing_missing && extra_are_hidden_tips {
                f.push(
                    "topo:hidden-tip-returned",
                    format!(
                        "a tip that is hidden (an end or an ancestor of one) is returned ({e}): got {} git {}; {}",
                        show_seq(&got),
                        show_seq(want),
                        ctx(&name)
                    ),
                );
            } else {
                f.push(
                    &format!("{name}:set"),
                    format!("{e}: got {} git {}; {}", show_seq(&got), show_seq(want), ctx(&name)),
                );
            }
            continue;
        }
        let set = walked_set(dag, anc, w, first_parent);
        if let Err(e) = topo_valid(dag, set, &got, first_parent, date_order) {
            f.push(
                &format!("{name}:order"),
                format!("{e}: got {} git {}; {}", show_seq(&got), show_seq(want), ctx(&name)),
            );
        } else if &got != want {
            // exact agreement is demanded when no two commits involved share a date; for topo order only the dates
            // of the tips matter (they decide the initial order)
            let exact = if date_order {
                distinct_times(dag, bits(set).into_iter())
            } else {
                distinct_times(dag, w.tips.iter().copied().collect::<BTreeSet<_>>().into_iter())
            } && !(first_parent && exp.fp_cross_edges);
            if exact {
                f.push(
                    &format!("{name}:sequence"),
                    format!(
                        "the sequence differs from git's although no dates collide: got {} git {}; {}",
                        show_seq(&got),
                        show_seq(want),
                        ctx(&name)
                    ),
                );
            }
        }
        seqs.push((name, got));
    }
    seqs
}

fn remove_commit_graph(world: &FastWorld) {
    let info = world.repo().join("objects").join("info");
    let _ = std::fs::remove_file(info.join("commit-graph"));
    let _ = std::fs::remove_dir_all(info.join("commit-graphs"));
}

fn git_rev_list(git: &Git, ids: &[ObjectId], args: &[String]) -> Result<Vec<usize>, String> {
    let mut a = vec!["rev-list".to_string()];
    a.extend(args.iter().cloned());
    let out = git.run(&a)?;
    let mut v = Vec::new();
    for line in String::from_utf8_lossy(&out).lines() {
        let id = ObjectId::from_hex(line.trim().as_bytes()).map_err(|e| e.to_string())?;
        v.push(ids.iter().position(|i| *i == id).ok_or("git printed an unknown commit")?);
    }
    Ok(v)
}

fn git_expected(git: &Git, ids: &[ObjectId], w: &Walk, fp_cross_edges: bool) -> Result<Expected, String> {
    let tips: Vec<String> = w.tips.iter().map(|t| ids[*t].to_string()).collect();
    let hidden: Vec<String> = w.hidden.iter().map(|t| format!("^{}", ids[*t])).collect();
    let with = |pre: &[&str], hide: bool| -> Vec<String> {
        let mut a: Vec<String> = pre.iter().map(|s| s.to_string()).collect();
        a.extend(tips.iter().cloned());
        if hide {
            a.extend(hidden.iter().cloned());
        }
        a
    };
    let max_age = format!("--max-age={}", w.cutoff);
    Ok(Expected {
        plain: git_rev_list(git, ids, &with(&[], false))?,
        plain_first: git_rev_list(git, ids, &with(&["--first-parent"], false))?,
        plain_cutoff: git_rev_list(git, ids, &with(&[max_age.as_str()], false))?,
        plain_first_cutoff: git_rev_list(git, ids, &with(&["--first-parent", max_age.as_str()], false))?,
        topo: [
            git_rev_list(git, ids, &with(&["--topo-order"], true))?,
            git_rev_list(git, ids, &with(&["--date-order"], true))?,
            git_rev_list(git, ids, &with(&["--topo-order", "--first-parent"], true))?,
            git_rev_list(git, ids, &with(&["--date-order", "--first-parent"], true))?,
        ],
        fp_cross_edges,
    })
}

/// compare the transcriptions with real git; Err = the model is wrong (a harness bug)
fn validate_model(model: &Expected, git: &Expected) -> Result<(), String> {
    let pairs: [(&str, &Vec<usize>, &Vec<usize>); 8] = [
        ("rev-list --first-parent --max-age", &model.plain_first_cutoff, &git.plain_first_cutoff),
        ("rev-list", &model.plain, &git.plain),
        ("rev-list --first-parent", &model.plain_first, &git.plain_first),
        ("rev-list --max-age", &model.plain_cutoff, &git.plain_cutoff),
        ("rev-list --topo-order", &model.topo[0], &git.topo[0]),
        ("rev-list --date-order", &model.topo[1], &git.topo[1]),
        ("rev-list --topo-order --first-parent", &model.topo[2], &git.topo[2]),
        ("rev-list --date-order --first-parent", &model.topo[3], &git.topo[3]),
    ];
    for (name, m, g) in pairs {
        let set_only = model.fp_cross_edges && name.contains("-order --first-parent");
        let same = if set_only {
            m.iter().collect::<BTreeSet<_>>() == g.iter().collect::<BTreeSet<_>>() && m.len() == g.len()
        } else {
            m == g
        };
        if !same {
            return Err(format!("{name}: model {} git {}", show_seq(m), show_seq(g)));
        }
    }
    Ok(())
}

fn label_case(c: &mut Case, dag: &Dag, anc: &[u128], w: &Walk) {
    c.label(dag.time_mode);
    let mut reach = 0u128;
    for t in &w.tips {
        reach |= anc[*t];
    }
    let merges = bits(reach).into_iter().any(|x| dag.parents[x].len() > 1);
    let colliding = !distinct_times(dag, bits(reach).into_iter());
    let mut hid = 0u128;
    for h in &w.hidden {
        hid |= anc[*h];
    }
    let hidden_cuts = hid & reach != 0 && (reach & !hid) != 0;
    c.label_if(merges, "merge-in-walk");
    c.label_if(colliding, "colliding-times-in-walk");
    c.label_if(hidden_cuts, "hidden-cuts-history");
    c.label_if(!w.hidden.is_empty() && reach & !hid == 0, "everything-hidden");
    c.label_if(w.tips.len() > 1, "several-tips");
    c.label_if(w.hidden.iter().any(|h| w.tips.contains(h)), "tip-is-hidden");
    c.label_if(dag.parents.iter().filter(|p| p.is_empty()).count() > 1, "multiple-roots");
    c.nontrivial(merges && (colliding || hidden_cuts));
}

/// Developer aid (never used by ./check): `C47_SURVEY=<cases> c47` tallies every failure class of the in-memory
/// comparison (model not arbitrated by git) over pseudo-random tapes and prints the smallest example of each.
fn survey(cases: u64) {
    let mut state = 0x9e3779b97f4a7c15u64;
    let mut tally: std::collections::BTreeMap<String, (u64, String, Vec<u8>, usize)> = Default::default();
    for _ in 0..cases {
        let len = 30 + (state % 200) as usize;
        let mut tape = Vec::with_capacity(len);
        for _ in 0..len {
            state ^= state << 13;
            state ^= state >> 7;
            state ^= state << 17;
            tape.push((state >> 32) as u8);
        }
        let mut t = Tape::new(&tape);
        let dag = gen_dag(&mut t, true);
        let anc = dag.ancestors();
        let w = gen_walk(&mut t, &dag, &anc);
        let (odb, ids) = mem_odb(&dag);
        let exp = model_expected(&dag, &anc, &w);
        let mut f = Failures {
            known: BTreeSet::new(),
            list: Vec::new(),
        };
        check_all(&odb, &|| None, &ids, &dag, &anc, &w, &exp, "(in-memory store)", &mut f);
        for (i, (sig, msg)) in f.list.into_iter().enumerate() {
            let weight = msg.len() + if i == 0 { 0 } else { 100_000 };
            let e = tally.entry(sig).or_insert((0, msg.clone(), tape.clone(), usize::MAX));
            e.0 += 1;
            if weight < e.3 {
                e.1 = msg;
                e.2 = tape.clone();
                e.3 = weight;
            }
        }
    }
    for (sig, (n, msg, tape, _)) in tally {
        println!("{n:>7}  {sig}\n         {}\n         tape {}", &msg[..msg.len().min(1200)], hex(&tape));
    }
}

pub fn main() {
    if let Ok(n) = std::env::var("C47_SURVEY") {
        survey(n.parse().unwrap_or(20_000));
        return;
    }
    let mut ck = Check::new("C47", "exploration");
    ck.rule("Commit DAGs as in C46 (2..120 commits by `git fast-import`, or 2..40 in memory: criss-cross and octopus merges, several roots, commit times increasing / all equal / colliding / inverted / random / mostly increasing); tips 1..4 (branch heads, late commits, any commit, duplicates), hidden commits 0..2 (ancestors of tips, parents of merges inside the walk, any commit, a tip itself), a cut-off date taken from a walked commit (+-1); every mode (Simple x {BreadthFirst, ByCommitTime Newest/Oldest, ByCommitTimeCutoff Newest/Oldest} x {All, First}; Topo x {TopoOrder, DateOrder} x {All, First} with the hidden commits as ends) is run per case, in sub-check rev-list both without and with a commit-graph (full v1/v2, partial, chain). Non-trivial: the walked history contains a merge and (two walked commits share a date, or a hidden commit cuts off a part of it). Distinct by hash of (DAG, tips, hidden, cut-off, graph kind).");
    ck.assume(&format!(
        "oracle: {} `rev-list [--topo-order|--date-order] [--first-parent] [--max-age=N] tips ^hidden`, asked while a full commit-graph is present (without generation numbers git does not reliably hide the ancestry of ^hidden when commit dates are skewed); sequences are compared exactly only when the commit dates involved are pairwise distinct (git breaks ties by insertion order, gitoxide by heap order), otherwise by a validity predicate; for --first-parent topological walks that contain a commit which is also a non-first parent of another walked commit git itself prints two different orders with and without generation numbers, these are compared by set and validity predicate (first-parent edges) only; Simple has no notion of hidden commits in this version and is compared without them; OldestFirst and BreadthFirst have no git equivalent and are checked as sets plus a validity predicate",
        Git::version()
    ));
    ck.assume("Simple is configured in the order sorting() then parents() (the order gix::revision::walk uses)");
    let known = known_signatures();

    let known1 = known.clone();
    ck.sub(
        "in-memory",
        SubCfg::new(40_000, 1_000_000).max_len(600).max_shrink(150),
        move |t, c| {
            let dag = gen_dag(t, true);
            let anc = dag.ancestors();
            let w = gen_walk(t, &dag, &anc);
            c.key(&(&dag, &w));
            label_case(c, &dag, &anc, &w);
            c.sample_with(|| format!("{} | {}", show_dag(&dag), show_walk(&w)));
            let (odb, ids) = mem_odb(&dag);
            let exp = model_expected(&dag, &anc, &w);
            let mut f = Failures {
                known: known1.clone(),
                list: Vec::new(),
            };
            check_all(&odb, &|| None, &ids, &dag, &anc, &w, &exp, "(in-memory store)", &mut f);
            // Classes that are recorded findings were confirmed against real git when they were recorded (and sub-check
            // rev-list keeps comparing them with git directly), so only a new class costs a round of git processes.
            let only_known = f.list.iter().all(|(s, _)| f.known.contains(s));
            if !f.list.is_empty() && !only_known && std::env::var_os("C47_NO_ARBITRATION").is_none() {
                // before anything new is reported: is the transcription of git right about this case?
                let world = infra!(c, FastWorld::new("c47m"), "world");
                let git_ids = infra!(c, import(&world, &dag), "fast-import");
                if git_ids != ids {
                    c.infra("fast-import produced other commit ids than the in-memory serialisation".to_string());
                    return;
                }
                // git hides the ancestry of `^commit` reliably only with generation numbers (see sub-check rev-list)
                infra!(c, write_commit_graph(&world, &ids, GraphKind::FullV2), "git commit-graph write");
                let git = infra!(c, git_expected(&world.git, &ids, &w, exp.fp_cross_edges), "git rev-list");
                if let Err(e) = validate_model(&exp, &git) {
                    c.infra(format!("MODEL-BUG: {e}; {}; DAG: {}", show_walk(&w), show_dag(&dag)));
                    return;
                }
            }
            f.finish(c);
        },
    );

    let known2 = known.clone();
    ck.sub(
        "rev-list",
        SubCfg::new(400, 10_000).max_len(1600).max_shrink(40),
        move |t, c| {
            let dag = gen_dag(t, false);
            let anc = dag.ancestors();
            let n = dag.len();
            let w = gen_walk(t, &dag, &anc);
            let graph_kind = match t.weighted(&[3, 3, 2, 2]) {
                0 => GraphKind::FullV1,
                1 => GraphKind::FullV2,
                2 => GraphKind::Partial(t.below(n)),
                _ => GraphKind::Chain(t.below(n)),
            };
            c.key(&(&dag, &w, graph_kind));
            label_case(c, &dag, &anc, &w);
            c.label(match graph_kind {
                GraphKind::FullV1 => "graph-full-v1",
                GraphKind::FullV2 => "graph-full-v2",
                GraphKind::Partial(_) => "graph-partial",
                GraphKind::Chain(_) => "graph-chain",
            });
            c.sample_with(|| format!("{} | {} | {graph_kind:?}", show_dag(&dag), show_walk(&w)));

            let world = infra!(c, FastWorld::new("c47"), "world");
            let ids = infra!(c, import(&world, &dag), "fast-import");
            let model = model_expected(&dag, &anc, &w);
            // The oracle runs with a full commit-graph: without generation numbers git's own walk does not reliably
            // hide the ancestry of `^commit` when commit dates are skewed (it stops propagating after a few commits
            // that look older), and then prints commits that are ancestors of a hidden commit.
            infra!(c, write_commit_graph(&world, &ids, GraphKind::FullV2), "git commit-graph write (oracle)");
            let git = infra!(c, git_expected(&world.git, &ids, &w, model.fp_cross_edges), "git rev-list");
            remove_commit_graph(&world);
            c.label_if(model.fp_cross_edges, "first-parent-walk-with-cross-edges");
            if let Err(e) = validate_model(&model, &git) {
                c.infra(format!("MODEL-BUG: {e}; {}; DAG: {}", show_walk(&w), show_dag(&dag)));
                return;
            }
            let mut f = Failures {
                known: known2.clone(),
                list: Vec::new(),
            };
            let odb = infra!(c, gix_odb::at(world.repo().join("objects")), "open object database");
            let without = check_all(&odb, &|| None, &ids, &dag, &anc, &w, &git, "without commit-graph", &mut f);
            infra!(c, write_commit_graph(&world, &ids, graph_kind), "git commit-graph write");
            let info = world.repo().join("objects").join("info");
            if let Err(e) = gix_commitgraph::at(&info) {
                c.infra(format!("cannot open the commit-graph git wrote: {e}"));
                return;
            }
            let open = || gix_commitgraph::at(&info).ok();
            let state = format!("with commit-graph {graph_kind:?}");
            let with = check_all(&odb, &open, &ids, &dag, &anc, &w, &git, &state, &mut f);
            // the oracle itself must not depend on the kind of commit-graph (checked where git is reliable: nothing
            // hidden, or commit dates that grow with the topology)
            if t.chance(64) && (w.hidden.is_empty() || dag.time_mode == "increasing") {
                c.label("oracle-rechecked-with-this-commit-graph");
                let again = infra!(c, git_expected(&world.git, &ids, &w, model.fp_cross_edges), "git rev-list");
                if let Err(e) = validate_model(&git, &again) {
                    c.infra(format!("git changes its answer with commit-graph {graph_kind:?}: {e}"));
                    return;
                }
            }
            // results do not depend on the presence of a commit-graph
            let mut reach = 0u128;
            for tip in &w.tips {
                reach |= anc[*tip];
            }
            let reach_distinct = distinct_times(&dag, bits(reach).into_iter());
            for (name, a) in &without {
                if let Some((_, b)) = with.iter().find(|(n, _)| n == name) {
                    let sa: BTreeSet<&usize> = a.iter().collect();
                    let sb: BTreeSet<&usize> = b.iter().collect();
                    if sa != sb {
                        f.push(
                            &format!("{name}:set-depends-on-commit-graph"),
                            format!(
                                "{name}: without commit-graph {} with {graph_kind:?} {}; {}; DAG: {}",
                                show_seq(a),
                                show_seq(b),
                                show_walk(&w),
                                show_dag(&dag)
                            ),
                        );
                    } else if a != b && reach_distinct {
                        f.push(
                            &format!("{name}:sequence-depends-on-commit-graph"),
                            format!(
                                "{name}: dates are distinct but the sequence changes: without commit-graph {} with {graph_kind:?} {}; {}; DAG: {}",
                                show_seq(a),
                                show_seq(b),
                                show_walk(&w),
                                show_dag(&dag)
                            ),
                        );
                    } else if a != b {
                        c.label("tie-order-depends-on-commit-graph");
                    }
                }
            }
            f.finish(c);
        },
    );

    ck.finish();
}
