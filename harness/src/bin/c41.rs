//! C41 — checkout stays inside the destination and reproduces the index.
//!
//! One case = one sandbox `S` holding `S/dest` (destination, with a canary `.git` directory), `S/outside` (canary files and
//! directories) and an index of 1..30 entries (+ optional filler entries so that several chunks/threads are used). The index is
//! built in memory through gix-index' own API (git refuses to create the hostile ones), blobs live in an in-memory store.
//! * `containment` (always): a recursive snapshot (type, mode, size, content hash, symlink target, mtime) of everything in `S`
//!   except the worktree part of `S/dest` is identical before and after `gix_worktree_state::checkout` — whatever the result.
//! * `fidelity` (indices which real git accepts entry for entry, empty destination or overwrite): every entry has the bytes,
//!   executable bit / symlink target that `git checkout-index -a --prefix=` produced from the same index (eol filters through a
//!   `.gitattributes` blob included), unless it is listed in `Outcome::collisions/errors`.
use gix::bstr::{BString, ByteSlice};
use gix_hash::ObjectId;
use std::collections::BTreeMap;
use std::collections::HashMap;
use std::os::unix::fs::{MetadataExt, PermissionsExt};
use std::path::{Path, PathBuf};
use std::sync::atomic::AtomicBool;
use std::sync::Arc;
use vp::*;

#[derive(Clone, Copy, Debug, Hash, PartialEq)]
enum Kind {
    File,
    Exec,
    Link,
    Commit,
}

#[derive(Clone, Debug, Hash)]
struct EntrySpec {
    path: Vec<u8>,
    kind: Kind,
    /// content, or the symlink target ("@OUT@" stands for the absolute path of S/outside)
    data: Vec<u8>,
}

#[derive(Clone, Debug, Hash)]
enum Plant {
    File(String, Vec<u8>),
    Dir(String),
    Symlink(String, String),
}

#[derive(Clone, Debug, Hash)]
struct CaseSpec {
    entries: Vec<EntrySpec>,
    plants: Vec<Plant>,
    overwrite: bool,
    keep_going: bool,
    threads: usize,
    validate: u8,
    hostile: bool,
}

const DIRS: [&str; 5] = ["a", "b", "d", "A", "sub"];
const FILES: [&str; 7] = ["f", "g", "a", "F", "x.txt", "h", "b"];
const LINK_TARGETS: [&str; 16] = [
    "f",
    "../b/g",
    "nope",
    "..",
    "../outside",
    "../outside/dir",
    "../../outside/dir",
    "@OUT@",
    "@OUT@/dir",
    "@OUT@/canary",
    "/vp-c41-nonexistent",
    ".",
    "a",
    ".git",
    ".git/hooks",
    "../outside/canary",
];
const HOSTILE_PATHS: [&str; 30] = [
    "..",
    "../outside/pwn",
    "../outside/dir/pwn",
    "a/../../outside/pwn",
    "a/../../outside/canary",
    ".git/hooks/pwn",
    ".git/config",
    ".GIT/config",
    ".git",
    ".Git/hooks/pwn",
    "a/.git/x",
    "@OUT@/pwn",
    "@OUT@/canary",
    "a\\..\\..\\outside\\pwn",
    ".g\u{200c}it/hooks/pwn",
    "git~1/hooks/pwn",
    ".git /x",
    ".git./x",
    ".git::$INDEX_ALLOCATION/x",
    "a//b",
    "a/./b",
    "./c",
    "a/",
    "",
    "a/../b",
    ".gitmodules",
    "dest/../../outside/pwn",
    "../dest/.git/pwn",
    ".git/../.git/pwn",
    "sub/../../outside/dir/inner",
];

fn content(t: &mut Tape) -> Vec<u8> {
    match t.weighted(&[4, 2, 1, 1]) {
        0 => t.string_of(b"abc\n xyz", 0, 12),
        1 => b"line1\nline2\n".to_vec(),
        2 => b"crlf\r\nline\n".to_vec(),
        _ => Vec::new(),
    }
}

fn gen_case(t: &mut Tape, c: &mut Case) -> CaseSpec {
    let hostile = t.chance(140);
    let mut entries: Vec<EntrySpec> = Vec::new();
    let n = t.range(1, 14);
    for _ in 0..n {
        let depth = t.weighted(&[4, 5, 2]);
        let mut comps: Vec<&str> = (0..depth).map(|_| *t.pick(&DIRS)).collect();
        comps.push(*t.pick(&FILES));
        let path = comps.join("/").into_bytes();
        let kind = *t.pick(&[Kind::File, Kind::File, Kind::File, Kind::File, Kind::Exec, Kind::Exec, Kind::Link, Kind::Link]);
        let data = if kind == Kind::Link {
            c.label("symlink");
            t.pick(&LINK_TARGETS).as_bytes().to_vec()
        } else {
            content(t)
        };
        entries.push(EntrySpec { path, kind, data });
    }
    if t.chance(50) {
        c.label("eol-attributes");
        entries.push(EntrySpec {
            path: b".gitattributes".to_vec(),
            kind: Kind::File,
            data: t.pick(&[&b"*.txt text eol=crlf\n"[..], &b"* text=auto eol=crlf\n"[..], &b"f text eol=crlf\ng -text\n"[..]]).to_vec(),
        });
    }
    if t.chance(40) {
        c.label("many-entries");
        let k = t.range(20, 130);
        for i in 0..k {
            entries.push(EntrySpec {
                path: format!("fill/{:03}", i).into_bytes(),
                kind: Kind::File,
                data: format!("{i}\n").into_bytes(),
            });
        }
    }
    if hostile {
        let k = t.range(1, 4);
        for _ in 0..k {
            match t.weighted(&[5, 4, 2, 1]) {
                0 => {
                    c.label("hostile-component");
                    let kind = *t.pick(&[Kind::File, Kind::File, Kind::Exec, Kind::Link, Kind::Commit]);
                    entries.push(EntrySpec {
                        path: t.pick(&HOSTILE_PATHS).as_bytes().to_vec(),
                        kind,
                        data: if kind == Kind::Link { t.pick(&LINK_TARGETS).as_bytes().to_vec() } else { b"pwned\n".to_vec() },
                    });
                }
                1 => {
                    // the classic: a symlink and entries below it
                    c.label("entries-below-symlink");
                    let name = *t.pick(&["L", "a", "b", "A"]);
                    let target = *t.pick(&["../outside", "../outside/dir", "@OUT@", "@OUT@/dir", "..", ".git", ".git/hooks", "../../outside"]);
                    entries.push(EntrySpec {
                        path: name.as_bytes().to_vec(),
                        kind: Kind::Link,
                        data: target.as_bytes().to_vec(),
                    });
                    let below = t.range(1, 3);
                    for _ in 0..below {
                        let tail = *t.pick(&["pwn", "canary", "dir/pwn", "inner", "hooks/pwn", "config", "d/e/pwn"]);
                        entries.push(EntrySpec {
                            path: format!("{name}/{tail}").into_bytes(),
                            kind: *t.pick(&[Kind::File, Kind::Exec, Kind::Link, Kind::Commit]),
                            data: b"pwned\n".to_vec(),
                        });
                    }
                }
                2 => {
                    // file and directory with the same name in one index
                    c.label("df-conflict-in-index");
                    let d = *t.pick(&DIRS);
                    entries.push(EntrySpec {
                        path: d.as_bytes().to_vec(),
                        kind: *t.pick(&[Kind::File, Kind::Link, Kind::Exec]),
                        data: b"../outside".to_vec(),
                    });
                    entries.push(EntrySpec {
                        path: format!("{d}/{}", t.pick(&FILES)).into_bytes(),
                        kind: Kind::File,
                        data: b"below\n".to_vec(),
                    });
                }
                _ => {
                    c.label("submodule-entry");
                    entries.push(EntrySpec {
                        path: format!("{}/{}", t.pick(&DIRS), t.pick(&["m", "a", "f"])).into_bytes(),
                        kind: Kind::Commit,
                        data: Vec::new(),
                    });
                }
            }
        }
    }
    // unique paths (first wins)
    let mut seen: Vec<Vec<u8>> = Vec::new();
    entries.retain(|e| {
        if seen.contains(&e.path) {
            false
        } else {
            seen.push(e.path.clone());
            true
        }
    });
    if !hostile {
        // a consistent index: nothing below a non-directory
        let all: Vec<Vec<u8>> = entries.iter().map(|e| e.path.clone()).collect();
        entries.retain(|e| {
            !all.iter().any(|p| e.path.len() > p.len() && e.path.starts_with(p) && e.path[p.len()] == b'/')
        });
    }

    // what is already there
    let mut plants = Vec::new();
    if t.chance(150) {
        let k = t.range(1, 4);
        for _ in 0..k {
            let e = &entries[t.below(entries.len())];
            let Ok(p) = std::str::from_utf8(&e.path) else { continue };
            let comps: Vec<&str> = p.split('/').collect();
            if comps.iter().any(|c| c.is_empty() || *c == "." || *c == ".." || c.starts_with(".git") || c.starts_with('@') || c.starts_with(".G")) {
                continue;
            }
            let lead = comps[..t.range(1, comps.len())].join("/");
            let is_leaf = lead == p;
            match t.weighted(&[4, 2, 2, 2]) {
                0 => {
                    c.label(if is_leaf { "planted-symlink-at-leaf" } else { "planted-symlink-at-directory" });
                    let target = if is_leaf {
                        *t.pick(&["../outside/canary", "@OUT@/canary", "../outside/dir", ".git/config", "../outside/fresh", ".git/hooks"])
                    } else {
                        *t.pick(&["../outside", "../outside/dir", "@OUT@/dir", "@OUT@", ".git", ".git/hooks", "..", "../outside/canary"])
                    };
                    // relative targets are relative to the link's directory: add one "../" per directory level
                    let ups = "../".repeat(lead.split('/').count() - 1);
                    let target = if target.starts_with('@') { target.to_string() } else { format!("{ups}{target}") };
                    plants.push(Plant::Symlink(lead, target));
                }
                1 => {
                    c.label("planted-file");
                    plants.push(Plant::File(lead, b"already here\n".to_vec()));
                }
                2 => {
                    c.label("planted-directory");
                    plants.push(Plant::Dir(lead));
                }
                _ => {
                    c.label("planted-readonly-file");
                    plants.push(Plant::File(lead, Vec::new()));
                }
            }
        }
    }
    let overwrite = t.bool();
    CaseSpec {
        entries,
        plants,
        overwrite,
        keep_going: t.chance(180),
        threads: *t.pick(&[1usize, 2, 8]),
        validate: t.below(3) as u8,
        hostile,
    }
}

// ---------------------------------------------------------------------------------------------

#[derive(Clone)]
struct Mem(Arc<HashMap<ObjectId, Vec<u8>>>);

impl gix_object::Find for Mem {
    fn try_find<'a>(
        &self,
        id: &gix_hash::oid,
        buffer: &'a mut Vec<u8>,
    ) -> Result<Option<gix_object::Data<'a>>, gix_object::find::Error> {
        match self.0.get(id) {
            Some(d) => {
                buffer.clear();
                buffer.extend_from_slice(d);
                Ok(Some(gix_object::Data {
                    kind: gix_object::Kind::Blob,
                    data: buffer,
                }))
            }
            None => Ok(None),
        }
    }
}

type Snap = BTreeMap<PathBuf, String>;

/// Everything below `root` except what is below `skip` (but `skip/.git` is included). Symlinks are not followed.
fn snapshot(root: &Path, skip: &Path) -> std::io::Result<Snap> {
    fn walk(dir: &Path, root: &Path, skip: &Path, out: &mut Snap) -> std::io::Result<()> {
        let mut names: Vec<_> = std::fs::read_dir(dir)?.collect::<Result<Vec<_>, _>>()?;
        names.sort_by_key(|e| e.file_name());
        for e in names {
            let p = e.path();
            let meta = std::fs::symlink_metadata(&p)?;
            let rel = p.strip_prefix(root).unwrap_or(&p).to_owned();
            let ft = meta.file_type();
            let desc = if ft.is_symlink() {
                format!("link -> {:?} mtime {}.{}", std::fs::read_link(&p)?, meta.mtime(), meta.mtime_nsec())
            } else if ft.is_dir() {
                format!("dir mode {:o} mtime {}.{}", meta.mode() & 0o7777, meta.mtime(), meta.mtime_nsec())
            } else {
                format!(
                    "file mode {:o} size {} sha1 {} mtime {}.{}",
                    meta.mode() & 0o7777,
                    meta.len(),
                    sha1_hex(&std::fs::read(&p)?),
                    meta.mtime(),
                    meta.mtime_nsec()
                )
            };
            if p == skip {
                // only its .git directory is part of the protected area (the directory's own mtime may change)
                let g = p.join(".git");
                if g.exists() {
                    let m = std::fs::symlink_metadata(&g)?;
                    out.insert(
                        g.strip_prefix(root).unwrap_or(&g).to_owned(),
                        format!("dir mode {:o} mtime {}.{}", m.mode() & 0o7777, m.mtime(), m.mtime_nsec()),
                    );
                    if m.is_dir() {
                        walk(&g, root, skip, out)?;
                    }
                }
                continue;
            }
            out.insert(rel, desc);
            if ft.is_dir() {
                walk(&p, root, skip, out)?;
            }
        }
        Ok(())
    }
    let mut out = Snap::new();
    walk(root, root, skip, &mut out)?;
    Ok(out)
}

fn snap_diff(a: &Snap, b: &Snap) -> Vec<String> {
    let mut v = Vec::new();
    for (k, va) in a {
        match b.get(k) {
            None => v.push(format!("REMOVED {k:?} (was {va})")),
            Some(vb) if vb != va => v.push(format!("CHANGED {k:?}: {va} => {vb}")),
            _ => {}
        }
    }
    for (k, vb) in b {
        if !a.contains_key(k) {
            v.push(format!("CREATED {k:?}: {vb}"));
        }
    }
    v
}

fn subst(data: &[u8], outside: &Path) -> Vec<u8> {
    data.replace("@OUT@", outside.display().to_string().as_bytes())
}

pub fn main() {
    let mut ck = Check::new("C41", "exploration");
    ck.rule("Indices of 1..30 entries (files, executables, symlinks with relative/absolute/dangling/outside/'.git' targets, optional .gitattributes with eol filters, optional 20..130 filler entries for several chunks) built in memory; hostile class adds entries with components '..', '.git' look-alikes, absolute paths, '.', empty components, backslashes, a symlink plus entries below it, file/directory conflicts, submodule entries; destinations pre-populated with files, directories and symlinks (to outside, to .git) at leading directories or leaves of index paths; overwrite_existing on/off, keep_going on/off, thread_limit in {1,2,8}, three validation option sets. Non-trivial: hostile entry, or a symlink in the index that is a leading path of another entry, or a planted conflicting destination. Distinct by case content.");
    ck.assume(&format!("fidelity reference: {} `checkout-index -a --prefix=`; only for indices git accepts entry for entry (update-index --index-info, no 'Ignoring path', same entry count)", Git::version()));
    ck.assume("destination_is_initially_empty is only set when nothing but the canary .git directory exists in the destination; the file system is a case-sensitive tmpfs with symlink and executable-bit support");

    ck.sub("sandbox", SubCfg::new(600, 50_000).max_len(700).max_shrink(60), |t, c| {
        let spec = gen_case(t, c);
        c.key(&spec);
        let link_prefix = spec.entries.iter().any(|l| {
            l.kind == Kind::Link
                && spec
                    .entries
                    .iter()
                    .any(|e| e.path.len() > l.path.len() && e.path.starts_with(&l.path) && e.path[l.path.len()] == b'/')
        });
        c.nontrivial(spec.hostile || link_prefix || !spec.plants.is_empty());
        c.label(if spec.hostile { "class:hostile" } else { "class:benign" });
        c.label(if spec.overwrite { "overwrite" } else { "no-overwrite" });
        c.sample_with(|| {
            format!(
                "entries {:?} plants {:?} overwrite={} keep_going={} threads={} validate={}",
                spec.entries
                    .iter()
                    .filter(|e| !e.path.starts_with(b"fill/"))
                    .map(|e| format!("{}:{:?}:{}", show(&e.path), e.kind, show(&e.data[..e.data.len().min(24)])))
                    .collect::<Vec<_>>(),
                spec.plants,
                spec.overwrite,
                spec.keep_going,
                spec.threads,
                spec.validate
            )
        });

        // ---- sandbox
        let scratch = infra!(c, Scratch::new("c41"), "scratch");
        let s = scratch.path.clone();
        let dest = s.join("dest");
        let outside = s.join("outside");
        for d in [dest.join(".git/hooks"), outside.join("dir"), s.join("home")] {
            infra!(c, std::fs::create_dir_all(&d), "mkdir");
        }
        infra!(c, std::fs::write(dest.join(".git/HEAD"), "ref: refs/heads/main\n"), "canary");
        infra!(c, std::fs::write(dest.join(".git/config"), "[core]\n\tbare = false\n"), "canary");
        infra!(c, std::fs::write(outside.join("canary"), "canary\n"), "canary");
        infra!(c, std::fs::write(outside.join("dir/inner"), "inner\n"), "canary");

        // ---- index + objects
        let mut mem = HashMap::new();
        let mut index = gix_index::State::new(gix_hash::Kind::Sha1);
        let mut ids: Vec<ObjectId> = Vec::new();
        let mut sorted = spec.entries.clone();
        sorted.sort_by(|a, b| a.path.cmp(&b.path));
        for e in &sorted {
            let data = subst(&e.data, &outside);
            let path = subst(&e.path, &outside);
            let id = if e.kind == Kind::Commit {
                ObjectId::from_hex(b"1111111111111111111111111111111111111111").unwrap()
            } else {
                let id = gix_object::compute_hash(gix_hash::Kind::Sha1, gix_object::Kind::Blob, &data);
                mem.insert(id, data);
                id
            };
            ids.push(id);
            let mode = match e.kind {
                Kind::File => gix_index::entry::Mode::FILE,
                Kind::Exec => gix_index::entry::Mode::FILE_EXECUTABLE,
                Kind::Link => gix_index::entry::Mode::SYMLINK,
                Kind::Commit => gix_index::entry::Mode::COMMIT,
            };
            index.dangerously_push_entry(Default::default(), id, gix_index::entry::Flags::empty(), mode, path.as_bstr());
        }
        index.sort_entries();
        let objects = Mem(Arc::new(mem));

        // ---- git reference (only meaningful if git accepts every entry)
        let repo = s.join("repo");
        let reference = s.join("ref");
        let mut git_accepts_all = false;
        if !spec.hostile {
            for d in [repo.join(".git/objects"), repo.join(".git/refs"), reference.clone()] {
                infra!(c, std::fs::create_dir_all(&d), "mkdir");
            }
            infra!(c, std::fs::write(repo.join(".git/HEAD"), "ref: refs/heads/main\n"), "HEAD");
            let git = Git::new(&repo, s.join("home"));
            // blobs
            let mut paths = String::new();
            for (i, e) in sorted.iter().enumerate() {
                let p = s.join("home").join(format!("blob{i}"));
                infra!(c, std::fs::write(&p, subst(&e.data, &outside)), "blob file");
                paths.push_str(&format!("{}\n", p.display()));
            }
            let out = infra!(c, git.run_in(["hash-object", "-w", "--no-filters", "--stdin-paths"], Some(paths.as_bytes())), "hash-object");
            let got: Vec<String> = String::from_utf8_lossy(&out).lines().map(|l| l.to_string()).collect();
            if got.len() != sorted.len() || got.iter().zip(&ids).any(|(g, i)| *g != i.to_hex().to_string()) {
                c.infra("blob ids differ between git and the harness");
                return;
            }
            let mut info = Vec::new();
            for (e, id) in sorted.iter().zip(&ids) {
                let mode = match e.kind {
                    Kind::File => "100644",
                    Kind::Exec => "100755",
                    Kind::Link => "120000",
                    Kind::Commit => "160000",
                };
                info.extend_from_slice(format!("{mode} {id}\t").as_bytes());
                info.extend_from_slice(&subst(&e.path, &outside));
                info.push(0);
            }
            let (ok, _o, err) = infra!(c, git.try_run(["update-index", "--add", "-z", "--index-info"], Some(&info)), "index-info");
            if ok && err.is_empty() {
                let ls = infra!(c, git.run(["ls-files", "-z"]), "ls-files");
                let count = ls.split(|b| *b == 0).filter(|p| !p.is_empty()).count();
                if count == sorted.len() {
                    let prefix = format!("--prefix={}/", reference.display());
                    let (ok, _o, _e) = infra!(c, git.try_run(["checkout-index", "-a", prefix.as_str()], None), "checkout-index");
                    git_accepts_all = ok;
                }
            }
            // the eol filters of the reference use the same (default) configuration as the gitoxide pipeline below
        }
        c.label_if(git_accepts_all, "fidelity-checked");

        // ---- destination
        let mut planted = false;
        for p in &spec.plants {
            let (rel, res) = match p {
                Plant::File(rel, data) => {
                    let path = dest.join(rel);
                    let r = path
                        .parent()
                        .map_or(Ok(()), std::fs::create_dir_all)
                        .and_then(|_| std::fs::write(&path, data))
                        .and_then(|_| {
                            if data.is_empty() {
                                std::fs::set_permissions(&path, std::fs::Permissions::from_mode(0o444))
                            } else {
                                Ok(())
                            }
                        });
                    (rel, r)
                }
                Plant::Dir(rel) => {
                    let path = dest.join(rel);
                    (rel, std::fs::create_dir_all(&path).and_then(|_| std::fs::write(path.join("child"), "child\n")))
                }
                Plant::Symlink(rel, target) => {
                    let path = dest.join(rel);
                    let target = String::from_utf8_lossy(&subst(target.as_bytes(), &outside)).to_string();
                    (
                        rel,
                        path.parent()
                            .map_or(Ok(()), std::fs::create_dir_all)
                            .and_then(|_| std::os::unix::fs::symlink(&target, &path)),
                    )
                }
            };
            // an earlier plant may be in the way (file where a directory is needed): that plant is simply skipped
            let _ = rel;
            planted |= res.is_ok();
        }
        // a planted symlink must never have created something outside by itself: take the snapshot now
        let before = infra!(c, snapshot(&s, &dest), "snapshot");

        // ---- checkout
        let validate = match spec.validate {
            0 => gix_validate::path::component::Options::default(),
            1 => gix_validate::path::component::Options {
                protect_windows: false,
                protect_hfs: false,
                protect_ntfs: true,
            },
            _ => gix_validate::path::component::Options {
                protect_windows: false,
                protect_hfs: false,
                protect_ntfs: false,
            },
        };
        let opts = gix_worktree_state::checkout::Options {
            fs: gix_fs::Capabilities {
                precompose_unicode: false,
                ignore_case: false,
                executable_bit: true,
                symlink: true,
            },
            validate,
            thread_limit: Some(spec.threads),
            destination_is_initially_empty: !planted,
            overwrite_existing: spec.overwrite,
            keep_going: spec.keep_going,
            ..Default::default()
        };
        let res = gix_worktree_state::checkout(
            &mut index,
            dest.clone(),
            objects.clone(),
            &gix_features::progress::Discard,
            &gix_features::progress::Discard,
            &AtomicBool::new(false),
            opts,
        );
        c.label(if res.is_ok() { "checkout-ok" } else { "checkout-err" });

        // ---- containment
        let after = infra!(c, snapshot(&s, &dest), "snapshot");
        let diff = snap_diff(&before, &after);
        if !diff.is_empty() {
            let inside_git = diff.iter().any(|d| d.contains("dest/.git"));
            // narrow classes of known findings (by the shape of the index that is needed to trigger them)
            // an index entry that is no directory (file, executable, symlink) is a leading path of another entry
            let entry_below_leaf = sorted.iter().any(|l| {
                l.kind != Kind::Commit
                    && sorted
                        .iter()
                        .any(|e| e.path.len() > l.path.len() && e.path.starts_with(&l.path) && e.path[l.path.len()] == b'/')
            });
            let sig = if sorted.iter().any(|e| e.path.is_empty()) && spec.overwrite && diff.iter().any(|d| d.starts_with("REMOVED \"dest/.git\"")) {
                "empty-path-entry-removes-destination"
            } else if entry_below_leaf {
                "entry-below-leaf-entry-written-through-symlink"
            } else {
                ""
            };
            c.fail_sig(
                sig,
                format!(
                    "checkout ({}) touched {} the destination: {}; entries {:?}; plants {:?}; overwrite={} keep_going={} threads={} validate={:?}",
                    if res.is_ok() { "Ok" } else { "Err" },
                    if inside_git { "the .git directory of" } else { "the file system outside" },
                    diff.join("; "),
                    sorted
                        .iter()
                        .filter(|e| !e.path.starts_with(b"fill/"))
                        .map(|e| format!("{} {:?} {:?}", show(&subst(&e.path, &outside)), e.kind, show(&subst(&e.data, &outside))))
                        .collect::<Vec<_>>(),
                    spec.plants,
                    spec.overwrite,
                    spec.keep_going,
                    spec.threads,
                    validate
                ),
            );
            return;
        }

        // ---- fidelity
        if git_accepts_all && (!planted || spec.overwrite) {
            let outcome = match &res {
                Ok(o) => o,
                Err(_) if planted && spec.threads > 1 => {
                    // With several threads, each chunk has its own path stack and replaces a planted file/symlink that is in the
                    // way of a directory on its own: which thread wins is a race, the loser reports an IO error (remove of what is
                    // a directory by now / already gone). The result depends on scheduling, so nothing is asserted here
                    // (containment was asserted above; the single-threaded variant of the same case is strict).
                    c.label("order-dependent-error-with-plants-and-threads");
                    return;
                }
                Err(e) => {
                    c.fail(format!("git checks this index out, gitoxide fails: {e}; entries {:?} plants {:?}", sorted.iter().map(|e| show(&e.path)).collect::<Vec<_>>(), spec.plants));
                    return;
                }
            };
            let excluded: Vec<BString> = outcome
                .collisions
                .iter()
                .map(|c| c.path.clone())
                .chain(outcome.errors.iter().map(|e| e.path.clone()))
                .collect();
            for e in &sorted {
                if e.kind == Kind::Commit {
                    continue;
                }
                let rel = String::from_utf8_lossy(&e.path).to_string();
                if excluded.iter().any(|x| x.as_slice() == e.path.as_slice()) {
                    c.label("entry-reported-as-collision-or-error");
                    if !planted {
                        c.fail(format!("entry {rel:?} is reported as collision/error although the destination was empty and git checks it out: collisions {:?} errors {:?}", outcome.collisions, outcome.errors.iter().map(|e| (e.path.clone(), e.error.to_string())).collect::<Vec<_>>()));
                        return;
                    }
                    continue;
                }
                let (g, r) = (dest.join(&rel), reference.join(&rel));
                let (mg, mr) = (std::fs::symlink_metadata(&g), std::fs::symlink_metadata(&r));
                let (Ok(mg), Ok(mr)) = (mg, mr) else {
                    // an entry can legitimately be shadowed by a later planted/overwritten path only with plants
                    ensure!(c, planted, "entry {rel:?}: present in git's checkout = {}, in gitoxide's = {}; entries {:?}", std::fs::symlink_metadata(&r).is_ok(), std::fs::symlink_metadata(&g).is_ok(), sorted.iter().map(|e| show(&e.path)).collect::<Vec<_>>());
                    continue;
                };
                ensure!(c, mg.file_type().is_symlink() == mr.file_type().is_symlink() && mg.is_dir() == mr.is_dir(), "entry {rel:?}: file types differ (git {:?}, gitoxide {:?})", mr.file_type(), mg.file_type());
                if mg.file_type().is_symlink() {
                    let (tg, tr) = (std::fs::read_link(&g).ok(), std::fs::read_link(&r).ok());
                    ensure!(c, tg == tr, "symlink {rel:?}: git -> {tr:?}, gitoxide -> {tg:?}");
                } else if mg.is_file() {
                    let (bg, br) = (infra!(c, std::fs::read(&g), "read"), infra!(c, std::fs::read(&r), "read"));
                    ensure!(c, bg == br, "file {rel:?}: git writes {:?}, gitoxide writes {:?} (blob {:?})", show(&br), show(&bg), show(&e.data));
                    ensure!(
                        c,
                        (mg.mode() & 0o111 != 0) == (mr.mode() & 0o111 != 0),
                        "file {rel:?}: executable bit differs (git mode {:o}, gitoxide mode {:o})",
                        mr.mode() & 0o7777,
                        mg.mode() & 0o7777
                    );
                }
            }
        }
    });

    ck.finish();
}
