//! C32 — refspec matching agrees with git.
//!
//! gitoxide: `MatchGroup::from_fetch_specs(specs).match_remotes(items).validated()`.
//! Oracle: a transcription of git's remote.c / builtin/fetch.c rules (`parse_refspec`, `get_fetch_map`,
//! `get_expanded_map`, `match_name_with_pattern`, `find_ref_by_name_abbrev`/`refname_match`, `get_local_ref`,
//! the "funny ref" filter, `apply_negative_refspecs`, `ref_remove_duplicates`), validated in every run against
//! real `git fetch` (sub-check `git-fetch`) and consulted for every disagreement (3-way vote).
use bstr::ByteSlice;
use gix_hash::ObjectId;
use gix_refspec::{
    match_group::{Item, SourceRef},
    parse::Operation,
    MatchGroup,
};
use std::collections::{BTreeMap, BTreeSet};
use std::sync::OnceLock;
use vp::*;

// ---------------------------------------------------------------------------------------------
// scenario

#[derive(Clone, Debug, Hash, PartialEq, Eq)]
struct RefDef {
    name: String,
    annotated: bool,
}

#[derive(Clone, Debug, Hash)]
struct Scenario {
    refs: Vec<RefDef>,
    /// index of the refs/heads/ ref HEAD points to (HEAD is advertised only then)
    head: Option<usize>,
    /// spec templates: `{T3}` = target id of ref 3, `{O3}` = peeled object of ref 3 (target if not annotated), `{X}` = an id no ref has
    spec_lists: Vec<Vec<String>>,
}

#[derive(Clone, Debug)]
struct Adv {
    name: String,
    target: ObjectId,
    object: Option<ObjectId>,
}

const SEG: &[&str] = &[
    "a", "b", "aa", "ab", "ba", "aba", "a-b", "a.b", "f1", "f2", "main", "x", "HEAD", "v1", "heads", "origin", "tags",
];
const NS: &[&str] = &[
    "refs/heads/",
    "refs/heads/",
    "refs/heads/",
    "refs/heads/",
    "refs/tags/",
    "refs/tags/",
    "refs/remotes/origin/",
    "refs/remotes/",
    "refs/notes/",
    "refs/",
    "refs/refs/heads/",
    "refs/heads/a/",
];

fn ps(t: &mut Tape, items: &[&'static str]) -> &'static str {
    items[t.below(items.len())]
}

fn gen_name(t: &mut Tape) -> String {
    let mut n = format!("{}{}", ps(t, NS), ps(t, SEG));
    if t.chance(40) {
        n.push('/');
        n.push_str(ps(t, SEG));
        if t.chance(40) {
            n.push('/');
            n.push_str(ps(t, SEG));
        }
    }
    n
}

fn df_conflict(a: &str, b: &str) -> bool {
    a == b || (a.len() > b.len() && a.starts_with(b) && a.as_bytes()[b.len()] == b'/') || (b.len() > a.len() && b.starts_with(a) && b.as_bytes()[a.len()] == b'/')
}

fn gen_refs(t: &mut Tape) -> (Vec<RefDef>, Option<usize>) {
    let want = match t.weighted(&[1, 3, 4, 2]) {
        0 => 1,
        1 => t.range(2, 5),
        2 => t.range(6, 14),
        _ => t.range(15, 25),
    };
    let mut refs: Vec<RefDef> = Vec::new();
    for _ in 0..want {
        let name = gen_name(t);
        let annotated = name.starts_with("refs/tags/") && t.chance(96);
        if refs.iter().any(|r| df_conflict(&r.name, &name)) {
            continue;
        }
        // an annotated tag points at the commit of the previous ref
        let annotated = annotated && !refs.is_empty();
        refs.push(RefDef { name, annotated });
    }
    if refs.is_empty() {
        refs.push(RefDef {
            name: "refs/heads/main".into(),
            annotated: false,
        });
    }
    let heads: Vec<usize> = refs
        .iter()
        .enumerate()
        .filter(|(_, r)| r.name.starts_with("refs/heads/") && !r.annotated)
        .map(|(i, _)| i)
        .collect();
    let head = if heads.is_empty() || t.chance(40) {
        None
    } else {
        Some(heads[t.below(heads.len())])
    };
    (refs, head)
}

fn partial_forms(name: &str) -> Vec<String> {
    let mut v = Vec::new();
    for p in ["refs/", "refs/heads/", "refs/tags/", "refs/remotes/"] {
        if let Some(rest) = name.strip_prefix(p) {
            if !rest.is_empty() && !rest.starts_with("refs/") {
                v.push(rest.to_string());
            }
        }
    }
    if let Some(rest) = name.strip_prefix("refs/remotes/") {
        if let Some(mid) = rest.strip_suffix("/HEAD") {
            if !mid.is_empty() {
                v.push(mid.to_string());
            }
        }
    }
    v
}

struct SpecGen<'a> {
    refs: &'a [RefDef],
    prev_dst: Vec<String>,
    prev_glob_dst: Vec<String>,
}

impl SpecGen<'_> {
    fn existing(&self, t: &mut Tape) -> String {
        self.refs[t.below(self.refs.len())].name.clone()
    }

    fn plain_dst(&mut self, t: &mut Tape) -> Option<String> {
        let d = match t.weighted(&[3, 1, 5, 3, 2, 1]) {
            0 => return None,
            1 => String::new(),
            2 => format!(
                "refs/{}/{}",
                ps(t, &["remotes/origin", "heads", "tags", "r", "remotes/origin"]),
                ps(t, SEG)
            ),
            3 => format!("{}{}", ps(t, &["", "", "heads/", "tags/", "remotes/", "origin/", "notes/"]), ps(t, SEG)),
            4 => {
                if self.prev_dst.is_empty() {
                    "refs/remotes/origin/x".to_string()
                } else {
                    self.prev_dst[t.below(self.prev_dst.len())].clone()
                }
            }
            _ => "1111111111111111111111111111111111111111".to_string(),
        };
        if !d.is_empty() {
            self.prev_dst.push(d.clone());
        }
        Some(d)
    }

    fn glob_src(&mut self, t: &mut Tape) -> String {
        match t.weighted(&[3, 8, 1, 1, 1]) {
            0 => format!("{}*", ps(t, NS)),
            1 => {
                // cut an existing name: prefix = n[..i], suffix = n[j..] with j <= i possible (overlap)
                let n = self.existing(t);
                let lo = if t.chance(230) { n.rfind('/').map(|p| p + 1).unwrap_or(0).min(n.len()) } else { 0 };
                let lo = if t.chance(64) { 5.min(n.len()) } else { lo };
                let i = t.range(lo, n.len());
                let back = t.weighted(&[4, 3, 2, 1]);
                let fwd = t.weighted(&[3, 2, 1, 1]);
                let j = if t.bool() {
                    i.saturating_sub(back)
                } else {
                    (i + fwd).min(n.len())
                };
                let j = if t.chance(40) { n.len() } else { j };
                format!("{}*{}", &n[..i], &n[j..])
            }
            2 => "refs/*".to_string(),
            3 => format!("{}{}/*", ps(t, NS), ps(t, SEG)),
            _ => ps(t, &["heads/*", "f*", "*", "a*", "tags/*"]).to_string(),
        }
    }

    fn glob_dst(&mut self, t: &mut Tape, src: &str) -> String {
        let d = match t.weighted(&[3, 5, 1, 1, 2]) {
            0 => "refs/remotes/origin/*".to_string(),
            1 => format!(
                "refs/{}/{}*{}",
                ps(t, &["r", "x", "heads", "tags", "remotes/o"]),
                ps(t, &["", "", "a", "p-", "q/"]),
                ps(t, &["", "", "a", "-s", "/t"])
            ),
            2 => src.to_string(),
            3 => ps(t, &["foo/*", "*", "heads/*", "refs*"]).to_string(),
            _ => {
                if self.prev_glob_dst.is_empty() {
                    "refs/remotes/origin/*".to_string()
                } else {
                    self.prev_glob_dst[t.below(self.prev_glob_dst.len())].clone()
                }
            }
        };
        self.prev_glob_dst.push(d.clone());
        d
    }

    /// returns (spec template, kind label)
    fn spec(&mut self, t: &mut Tape) -> (String, &'static str) {
        let kind = t.weighted(&[4, 4, 8, 3, 2, 1]);
        if kind == 3 {
            // negative
            let src = match t.weighted(&[8, 1, 1, 1]) {
                0 => self.existing(t),
                1 => "HEAD".to_string(),
                2 => gen_name(t),
                _ => {
                    // forms gitoxide's parser refuses (partial names, globs)
                    if t.bool() {
                        let n = self.existing(t);
                        partial_forms(&n).pop().unwrap_or_else(|| "main".into())
                    } else {
                        self.glob_src(t)
                    }
                }
            };
            return (format!("^{src}"), "negative");
        }
        let force = if t.chance(64) { "+" } else { "" };
        match kind {
            0 => {
                let src = if t.chance(220) { self.existing(t) } else { gen_name(t) };
                let dst = self.plain_dst(t);
                (join(force, &src, dst), "exact")
            }
            1 => {
                let src = if t.chance(220) {
                    let n = self.existing(t);
                    let forms = partial_forms(&n);
                    if forms.is_empty() {
                        ps(t, SEG).to_string()
                    } else {
                        forms[t.below(forms.len())].clone()
                    }
                } else {
                    ps(t, SEG).to_string()
                };
                let dst = self.plain_dst(t);
                (join(force, &src, dst), "partial")
            }
            2 => {
                let src = self.glob_src(t);
                let dst = self.glob_dst(t, &src);
                (join(force, &src, Some(dst)), "glob")
            }
            4 => {
                let i = t.below(self.refs.len());
                let src = match t.weighted(&[4, 2, 1]) {
                    0 => format!("{{T{i}}}"),
                    1 => format!("{{O{i}}}"),
                    _ => "{X}".to_string(),
                };
                let dst = self.plain_dst(t);
                (join(force, &src, dst), "oid")
            }
            _ => {
                let src = ps(t, &["", "HEAD", "@"]);
                let dst = self.plain_dst(t);
                (join(force, src, dst), "head")
            }
        }
    }
}

fn join(force: &str, src: &str, dst: Option<String>) -> String {
    match dst {
        None => format!("{force}{src}"),
        Some(d) => format!("{force}{src}:{d}"),
    }
}

fn gen_scenario(t: &mut Tape, c: &mut Case, nlists: usize) -> Scenario {
    let (refs, head) = gen_refs(t);
    let mut spec_lists = Vec::new();
    for _ in 0..nlists {
        let mut g = SpecGen {
            refs: &refs,
            prev_dst: Vec::new(),
            prev_glob_dst: Vec::new(),
        };
        let n = t.weighted(&[0, 4, 4, 3, 2, 1]).max(1);
        let mut list = Vec::new();
        for _ in 0..n {
            let (s, kind) = g.spec(t);
            c.label(kind);
            list.push(s);
        }
        spec_lists.push(list);
    }
    Scenario { refs, head, spec_lists }
}

/// the advertisement the model-only sub-check uses (HEAD first, then refs sorted by name, like git)
fn synthetic_adv(s: &Scenario) -> Vec<Adv> {
    let id = |b: u8| ObjectId::from_bytes_or_panic(&[b; 20]);
    let mut out = Vec::new();
    for (i, r) in s.refs.iter().enumerate() {
        let commit = id(i as u8 + 1);
        if r.annotated {
            out.push(Adv {
                name: r.name.clone(),
                target: id(0x80 + i as u8),
                object: Some(id(i as u8)), // the previous ref's commit
            });
        } else {
            out.push(Adv {
                name: r.name.clone(),
                target: commit,
                object: None,
            });
        }
    }
    let head = s.head.map(|h| Adv {
        name: "HEAD".into(),
        target: out[h].target,
        object: None,
    });
    out.sort_by(|a, b| a.name.cmp(&b.name));
    if let Some(h) = head {
        out.insert(0, h);
    }
    out
}

fn substitute(template: &str, s: &Scenario, adv: &[Adv]) -> String {
    let mut out = String::new();
    let mut rest = template;
    while let Some(p) = rest.find('{') {
        out.push_str(&rest[..p]);
        let end = rest[p..].find('}').map(|e| p + e).unwrap_or(rest.len() - 1);
        let tag = &rest[p + 1..end];
        let hex = if tag == "X" {
            "123456789abcdef0123456789abcdef012345678".to_string()
        } else {
            let idx: usize = tag[1..].parse().unwrap_or(0);
            let name = &s.refs[idx.min(s.refs.len() - 1)].name;
            let a = adv.iter().find(|a| &a.name == name);
            match a {
                Some(a) if tag.starts_with('O') => a.object.unwrap_or(a.target).to_hex().to_string(),
                Some(a) => a.target.to_hex().to_string(),
                None => "123456789abcdef0123456789abcdef012345678".to_string(),
            }
        };
        out.push_str(&hex);
        rest = &rest[end + 1..];
    }
    out.push_str(rest);
    out
}

// ---------------------------------------------------------------------------------------------
// the model: git's rules (remote.c, refspec.c, refs.c of git 2.39)

/// refs.c: check_refname_format() with REFNAME_ALLOW_ONELEVEL / REFNAME_REFSPEC_PATTERN
fn check_refname_format(name: &str, allow_onelevel: bool, mut pattern: bool) -> bool {
    if name == "@" {
        return false;
    }
    let b = name.as_bytes();
    let mut components = 0;
    for comp in b.split(|c| *c == b'/') {
        // check_refname_component
        if comp.is_empty() {
            return false;
        }
        let mut last = 0u8;
        for &ch in comp {
            match ch {
                0..=0x1f | 0x7f | b' ' | b'~' | b'^' | b':' | b'?' | b'[' | b'\\' => return false,
                b'*' => {
                    if !pattern {
                        return false;
                    }
                    pattern = false;
                }
                b'.' if last == b'.' => return false,
                b'{' if last == b'@' => return false,
                _ => {}
            }
            last = ch;
        }
        if comp[0] == b'.' {
            return false;
        }
        if comp.ends_with(b".lock") {
            return false;
        }
        components += 1;
    }
    if b.last() == Some(&b'.') {
        return false;
    }
    if !allow_onelevel && components < 2 {
        return false;
    }
    true
}

#[derive(Clone, Debug)]
struct GSpec {
    /// parsed for completeness; the force flag of a mapping is not compared (not observable with an empty client)
    #[allow(dead_code)]
    force: bool,
    negative: bool,
    pattern: bool,
    exact_sha1: bool,
    src: String,
    /// None: no colon; Some(""): empty
    dst: Option<String>,
}

/// refspec.c: parse_refspec(item, refspec, fetch = 1)
fn git_parse_fetch(spec: &str) -> Option<GSpec> {
    let mut lhs = spec;
    let mut force = false;
    let mut negative = false;
    if let Some(r) = lhs.strip_prefix('+') {
        force = true;
        lhs = r;
    } else if let Some(r) = lhs.strip_prefix('^') {
        negative = true;
        lhs = r;
    }
    let rhs_pos = lhs.rfind(':');
    if negative && rhs_pos.is_some() {
        return None;
    }
    let mut is_glob = false;
    let dst = rhs_pos.map(|p| {
        let rhs = &lhs[p + 1..];
        is_glob = !rhs.is_empty() && rhs.contains('*');
        rhs.to_string()
    });
    let l = match rhs_pos {
        Some(p) => &lhs[..p],
        None => lhs,
    };
    if !l.is_empty() && l.contains('*') {
        if (dst.is_some() && !is_glob) || (dst.is_none() && !negative) {
            return None;
        }
        is_glob = true;
    } else if dst.is_some() && is_glob {
        return None;
    }
    let src = if l == "@" { "HEAD".to_string() } else { l.to_string() };
    let is_hex40 = |s: &str| s.len() == 40 && s.bytes().all(|b| b.is_ascii_hexdigit());
    let mut exact_sha1 = false;
    if negative {
        if src.is_empty() || is_hex40(&src) || !check_refname_format(&src, true, is_glob) {
            return None;
        }
        return Some(GSpec {
            force,
            negative,
            pattern: is_glob,
            exact_sha1,
            src,
            dst: None,
        });
    }
    if src.is_empty() {
    } else if is_hex40(&src) {
        exact_sha1 = true;
    } else if !check_refname_format(&src, true, is_glob) {
        return None;
    }
    match &dst {
        None => {}
        Some(d) if d.is_empty() => {}
        Some(d) => {
            if !check_refname_format(d, true, is_glob) {
                return None;
            }
        }
    }
    Some(GSpec {
        force,
        negative,
        pattern: is_glob,
        exact_sha1,
        src,
        dst,
    })
}

/// remote.c: match_name_with_pattern(key, name, value, &result)
fn match_name_with_pattern(key: &str, name: &str, value: Option<&str>) -> Option<Option<String>> {
    let kstar = key.find('*').expect("pattern has a star");
    let klen = kstar;
    let ksuffix = &key[kstar + 1..];
    let matches = name.len() >= klen
        && name.as_bytes()[..klen] == key.as_bytes()[..klen]
        && name.len() >= klen + ksuffix.len()
        && name.as_bytes()[name.len() - ksuffix.len()..] == *ksuffix.as_bytes();
    if !matches {
        return None;
    }
    Some(value.map(|value| {
        let vstar = value.find('*').expect("value has a star");
        format!("{}{}{}", &value[..vstar], &name[klen..name.len() - ksuffix.len()], &value[vstar + 1..])
    }))
}

/// refs.c: refname_match(abbrev, full) -> score (0: no match)
fn refname_match(abbrev: &str, full: &str) -> usize {
    let rules: [(&str, &str); 6] = [
        ("", ""),
        ("refs/", ""),
        ("refs/tags/", ""),
        ("refs/heads/", ""),
        ("refs/remotes/", ""),
        ("refs/remotes/", "/HEAD"),
    ];
    for (i, (pre, post)) in rules.iter().enumerate() {
        if full.len() == pre.len() + abbrev.len() + post.len()
            && full.starts_with(pre)
            && full.ends_with(post)
            && &full[pre.len()..pre.len() + abbrev.len()] == abbrev
        {
            return rules.len() - i;
        }
    }
    0
}

/// remote.c: get_local_ref()
fn get_local_ref(name: &str) -> Option<String> {
    if name.is_empty() {
        return None;
    }
    if name.starts_with("refs/") {
        return Some(name.to_string());
    }
    if name.starts_with("heads/") || name.starts_with("tags/") || name.starts_with("remotes/") {
        return Some(format!("refs/{name}"));
    }
    Some(format!("refs/heads/{name}"))
}

type Mapping = (String, Option<String>);

#[derive(Debug, Default, Clone)]
struct ModelOut {
    /// final mappings in git's order (after funny filter, negatives, duplicate removal)
    maps: Vec<Mapping>,
    /// `Cannot fetch both A and B to C`
    conflict: Option<(String, String, String)>,
    /// indices of specs for which git dies with "couldn't find remote ref"
    missing: Vec<usize>,
    /// mappings dropped as "funny ref"
    funny: Vec<Mapping>,
    /// mappings removed by negative specs
    negated: Vec<Mapping>,
    /// everything matched (including destinations git ignores), minus what negative specs remove, before duplicate handling
    raw: Vec<Mapping>,
}

/// builtin/fetch.c:get_ref_map() for command line refspecs, URL remote, --no-tags
fn model(specs: &[GSpec], adv: &[Adv]) -> ModelOut {
    let mut out = ModelOut::default();
    let mut ref_map: Vec<Mapping> = Vec::new();
    for (idx, spec) in specs.iter().enumerate() {
        // get_fetch_map()
        if spec.negative {
            continue;
        }
        let mut this: Vec<Mapping> = Vec::new();
        if spec.pattern {
            // get_expanded_map()
            for r in adv {
                if r.name.contains('^') {
                    continue;
                }
                if let Some(expn) = match_name_with_pattern(&spec.src, &r.name, Some(spec.dst.as_deref().unwrap_or(""))) {
                    this.push((r.name.clone(), expn));
                }
            }
        } else {
            let name = if spec.src.is_empty() { "HEAD" } else { spec.src.as_str() };
            let local = spec.dst.as_deref().and_then(get_local_ref);
            if spec.exact_sha1 {
                this.push((name.to_ascii_lowercase(), local));
            } else {
                // get_remote_ref() -> find_ref_by_name_abbrev()
                let mut best: Option<&Adv> = None;
                let mut best_score = 0;
                for r in adv {
                    let score = refname_match(name, &r.name);
                    if best_score < score {
                        best = Some(r);
                        best_score = score;
                    }
                }
                match best {
                    Some(r) => this.push((r.name.clone(), local)),
                    None => out.missing.push(idx),
                }
            }
        }
        for m in this {
            if let Some(peer) = &m.1 {
                if !peer.starts_with("refs/") || !check_refname_format(peer, false, false) {
                    out.funny.push(m);
                    continue;
                }
            }
            ref_map.push(m);
        }
    }
    // apply_negative_refspecs()
    let negs: Vec<&GSpec> = specs.iter().filter(|s| s.negative).collect();
    let mut kept = Vec::new();
    for m in ref_map {
        let omit = negs.iter().any(|n| {
            if n.pattern {
                match_name_with_pattern(&n.src, &m.0, None).is_some()
            } else {
                n.src == m.0
            }
        });
        if omit {
            out.negated.push(m);
        } else {
            kept.push(m);
        }
    }
    out.raw = kept.clone();
    for f in &out.funny {
        let omit = negs.iter().any(|n| {
            if n.pattern {
                match_name_with_pattern(&n.src, &f.0, None).is_some()
            } else {
                n.src == f.0
            }
        });
        if !omit {
            out.raw.push(f.clone());
        }
    }
    // ref_remove_duplicates()
    let mut by_dst: BTreeMap<String, String> = BTreeMap::new();
    for m in kept {
        match &m.1 {
            None => out.maps.push(m),
            Some(d) => match by_dst.get(d) {
                Some(src) => {
                    if *src != m.0 && out.conflict.is_none() {
                        out.conflict = Some((src.clone(), m.0.clone(), d.clone()));
                    }
                }
                None => {
                    by_dst.insert(d.clone(), m.0.clone());
                    out.maps.push(m);
                }
            },
        }
    }
    out
}

// ---------------------------------------------------------------------------------------------
// gitoxide

#[derive(Debug, Clone, PartialEq, Eq)]
enum Final {
    Maps(BTreeSet<Mapping>),
    Conflict,
}

struct GixOut {
    raw: Vec<(String, Option<String>, usize)>,
    fin: Final,
    detail: String,
}

fn gix_eval(specs: &[String], adv: &[Adv]) -> Result<GixOut, String> {
    let mut parsed = Vec::new();
    for s in specs {
        parsed.push(gix_refspec::parse(s.as_bytes().as_bstr(), Operation::Fetch).map_err(|e| format!("{s:?}: {e}"))?);
    }
    let group = MatchGroup::from_fetch_specs(parsed.iter().copied());
    let items = adv.iter().map(|a| Item {
        full_ref_name: a.name.as_bytes().as_bstr(),
        target: &a.target,
        object: a.object.as_deref(),
    });
    let out = group.match_remotes(items);
    let conv = |m: &gix_refspec::match_group::Mapping<'_, '_>| {
        let lhs = match m.lhs {
            SourceRef::FullName(n) => n.to_string(),
            SourceRef::ObjectId(id) => id.to_hex().to_string(),
        };
        (lhs, m.rhs.as_ref().map(|r| r.to_string()), m.spec_index)
    };
    let raw: Vec<_> = out.mappings.iter().map(conv).collect();
    let (fin, detail) = match out.validated() {
        Ok((o, fixes)) => (
            Final::Maps(o.mappings.iter().map(conv).map(|(a, b, _)| (a, b)).collect()),
            format!("{} fixes", fixes.len()),
        ),
        Err(e) => (Final::Conflict, e.to_string()),
    };
    Ok(GixOut { raw, fin, detail })
}

fn model_final(m: &ModelOut) -> Final {
    if m.conflict.is_some() {
        Final::Conflict
    } else {
        Final::Maps(m.maps.iter().cloned().collect())
    }
}

// ---------------------------------------------------------------------------------------------
// real git

struct Server {
    world: World,
    adv: Vec<Adv>,
}

fn build_server(s: &Scenario) -> Result<Server, String> {
    let world = World::new("c32", true)?;
    let mut fi = String::new();
    let mut dummy_marks = 0;
    for (i, r) in s.refs.iter().enumerate() {
        let mark = i + 1;
        if r.annotated {
            // tag object pointing at the previous ref's commit (or tag: then at its commit mark)
            let mut prev = i; // mark of previous ref = i (1-based marks)
            while prev > 0 && s.refs[prev - 1].annotated {
                prev -= 1;
            }
            let short = r.name.strip_prefix("refs/tags/").ok_or("annotated tag outside refs/tags")?;
            if prev == 0 {
                dummy_marks += 1;
                return Err(format!("generator bug: annotated tag without commit ({dummy_marks})"));
            }
            fi.push_str(&format!(
                "tag {short}\nfrom :{prev}\ntagger T <t@example.com> 1112911993 +0000\ndata 3\nt{:02}\n",
                i
            ));
        } else {
            fi.push_str(&format!(
                "commit {}\nmark :{mark}\ncommitter C <c@example.com> 1112911993 +0000\ndata 3\nc{:02}\n\n",
                r.name, i
            ));
        }
    }
    fi.push_str("done\n");
    world.git.run_in(["fast-import", "--quiet", "--done"], Some(fi.as_bytes()))?;
    let head = match s.head {
        Some(h) => format!("ref: {}\n", s.refs[h].name),
        None => "ref: refs/heads/unborn-branch\n".to_string(),
    };
    std::fs::write(world.repo().join("HEAD"), head).map_err(|e| e.to_string())?;
    let cfgp = world.repo().join("config");
    let mut cfg = std::fs::read_to_string(&cfgp).map_err(|e| e.to_string())?;
    cfg.push_str("[uploadpack]\n\tallowAnySHA1InWant = true\n\tallowTipSHA1InWant = true\n");
    std::fs::write(&cfgp, cfg).map_err(|e| e.to_string())?;
    let out = world.git.run(["ls-remote", "."])?;
    let mut adv: Vec<Adv> = Vec::new();
    for line in String::from_utf8_lossy(&out).lines() {
        let (id, name) = line.split_once('\t').ok_or_else(|| format!("ls-remote line {line:?}"))?;
        let id = ObjectId::from_hex(id.as_bytes()).map_err(|e| e.to_string())?;
        if let Some(base) = name.strip_suffix("^{}") {
            let last = adv.last_mut().ok_or("peeled line first")?;
            if last.name != base {
                return Err(format!("peeled line {name} after {}", last.name));
            }
            last.object = Some(id);
        } else {
            adv.push(Adv {
                name: name.to_string(),
                target: id,
                object: None,
            });
        }
    }
    // the advertisement must be what the scenario says
    let expect: BTreeSet<String> = s
        .refs
        .iter()
        .map(|r| r.name.clone())
        .chain(s.head.map(|_| "HEAD".to_string()))
        .collect();
    let got: BTreeSet<String> = adv.iter().map(|a| a.name.clone()).collect();
    if expect != got {
        return Err(format!("server advertises {got:?}, scenario has {expect:?}"));
    }
    Ok(Server { world, adv })
}

#[derive(Debug, Clone, PartialEq, Eq)]
enum GitOutcome {
    /// (set of fetched source names or hex ids, dst -> object id hex)
    Fetched {
        sources: BTreeSet<String>,
        dsts: BTreeMap<String, String>,
    },
    Conflict,
    Missing,
    InvalidSpec(String),
    Other(String),
}

fn git_fetch(server: &Server, k: usize, specs: &[String]) -> Result<GitOutcome, String> {
    let client = server.world.scratch.join(format!("client{k}"));
    std::fs::create_dir_all(&client).map_err(|e| e.to_string())?;
    let g = server.world.git.at(&client);
    g.run(["init", "-q", "--bare", "."])?;
    let mut args: Vec<String> = vec![
        "fetch".into(),
        "--no-tags".into(),
        "-q".into(),
        "--no-recurse-submodules".into(),
        "--".into(),
        server.world.repo().display().to_string(),
    ];
    args.extend(specs.iter().cloned());
    let (ok, _out, err) = g.try_run(&args, None)?;
    let err = String::from_utf8_lossy(&err).to_string();
    if !ok {
        return Ok(if err.contains("Cannot fetch both") {
            GitOutcome::Conflict
        } else if err.contains("couldn't find remote ref") {
            GitOutcome::Missing
        } else if err.contains("invalid refspec") || err.contains("nvalid refspec") {
            GitOutcome::InvalidSpec(err)
        } else {
            GitOutcome::Other(err)
        });
    }
    let refs = g.run(["for-each-ref", "--format=%(refname) %(objectname)"])?;
    let mut dsts = BTreeMap::new();
    for line in String::from_utf8_lossy(&refs).lines() {
        let (n, id) = line.split_once(' ').ok_or("for-each-ref line")?;
        dsts.insert(n.to_string(), id.to_string());
    }
    let mut sources = BTreeSet::new();
    let fh = std::fs::read_to_string(client.join("FETCH_HEAD")).unwrap_or_default();
    let url = server.world.repo().display().to_string();
    for line in fh.lines() {
        let mut parts = line.splitn(3, '\t');
        let id = parts.next().unwrap_or("");
        let _merge = parts.next();
        let note = parts.next().unwrap_or("");
        let what = note
            .strip_suffix(url.as_str())
            .map(|s| s.strip_suffix(" of ").unwrap_or(s))
            .ok_or_else(|| format!("FETCH_HEAD note {note:?}"))?;
        let unq = |s: &str| s.trim_matches('\'').to_string();
        let name = if what.is_empty() {
            "HEAD".to_string()
        } else if let Some(r) = what.strip_prefix("branch ") {
            format!("refs/heads/{}", unq(r))
        } else if let Some(r) = what.strip_prefix("tag ") {
            format!("refs/tags/{}", unq(r))
        } else if let Some(r) = what.strip_prefix("remote-tracking branch ") {
            format!("refs/remotes/{}", unq(r))
        } else {
            unq(what)
        };
        let _ = id;
        sources.insert(name);
    }
    Ok(GitOutcome::Fetched { sources, dsts })
}

/// what the model predicts `git_fetch` observes
fn model_observable(m: &ModelOut, adv: &[Adv]) -> GitOutcome {
    if !m.missing.is_empty() {
        return GitOutcome::Missing;
    }
    if m.conflict.is_some() {
        return GitOutcome::Conflict;
    }
    observable(&m.maps.iter().cloned().collect(), adv)
}

fn observable(maps: &BTreeSet<Mapping>, adv: &[Adv]) -> GitOutcome {
    let id_of = |src: &str| {
        adv.iter()
            .find(|a| a.name == src)
            .map(|a| a.target.to_hex().to_string())
            .unwrap_or_else(|| src.to_string())
    };
    let mut sources = BTreeSet::new();
    let mut dsts = BTreeMap::new();
    for (s, d) in maps {
        sources.insert(s.clone());
        if let Some(d) = d {
            dsts.insert(d.clone(), id_of(s));
        }
    }
    GitOutcome::Fetched { sources, dsts }
}

fn client_df_conflict(maps: &[Mapping]) -> bool {
    let d: Vec<&String> = maps.iter().filter_map(|m| m.1.as_ref()).collect();
    for i in 0..d.len() {
        for j in i + 1..d.len() {
            if d[i] != d[j] && df_conflict(d[i], d[j]) {
                return true;
            }
        }
    }
    false
}

// ---------------------------------------------------------------------------------------------
// one spec list against one advertisement

static KNOWN: OnceLock<Vec<String>> = OnceLock::new();

thread_local! {
    static VOTES: std::cell::Cell<(u32, bool)> = std::cell::Cell::new((0, false));
}

fn is_known(sig: &str) -> bool {
    KNOWN.get().map(|k| k.iter().any(|s| s == sig)).unwrap_or(false)
}

struct Prepared {
    specs: Vec<String>,
    gspecs: Vec<GSpec>,
}

/// Keep only the specs both parsers accept (the property's domain: valid fetch refspecs) and for which git finds the remote ref.
fn prepare(templates: &[String], s: &Scenario, adv: &[Adv], c: &mut Case) -> Option<Prepared> {
    let mut specs = Vec::new();
    let mut gspecs = Vec::new();
    for tpl in templates {
        let spec = substitute(tpl, s, adv);
        let gix = gix_refspec::parse(spec.as_bytes().as_bstr(), Operation::Fetch);
        let git = git_parse_fetch(&spec);
        match (gix, git) {
            (Ok(_), Some(g)) => {
                specs.push(spec);
                gspecs.push(g);
            }
            (Err(_), Some(_)) => c.label("spec-dropped:gitoxide-parse-rejects"),
            (Ok(_), None) => c.label("spec-dropped:git-parse-rejects"),
            (Err(_), None) => c.label("spec-dropped:both-reject"),
        }
    }
    // specs naming a ref the remote does not have: git dies; gitoxide must produce nothing for them
    loop {
        let m = model(&gspecs, adv);
        let Some(&idx) = m.missing.first() else { break };
        c.label("spec-dropped:remote-ref-missing");
        let alone = gix_eval(&specs[idx..idx + 1], adv).ok()?;
        if !alone.raw.is_empty() {
            c.fail_sig(
                "missing-remote-ref-matched",
                format!(
                    "git finds no remote ref for spec {:?} among {:?}, gitoxide maps {:?}",
                    specs[idx],
                    adv.iter().map(|a| &a.name).collect::<Vec<_>>(),
                    alone.raw
                ),
            );
            return None;
        }
        specs.remove(idx);
        gspecs.remove(idx);
    }
    if specs.is_empty() {
        return None;
    }
    Some(Prepared { specs, gspecs })
}

fn overlap_class(gspecs: &[GSpec], adv: &[Adv]) -> bool {
    gspecs.iter().any(|g| {
        g.pattern && {
            let star = g.src.find('*').unwrap();
            let (p, sfx) = (&g.src[..star], &g.src[star + 1..]);
            adv.iter()
                .any(|a| a.name.starts_with(p) && a.name.ends_with(sfx) && p.len() + sfx.len() > a.name.len())
        }
    })
}

/// Attribute the disagreement to classes. Classes are predicates over the case (specs, names), so a *different*
/// disagreement stays "unclassified" and is reported on its own. First the mappings before validation are compared
/// (as sets); only if those agree the difference is attributed to the validation step.
fn classify(p: &Prepared, adv: &[Adv], gix: &GixOut, m: &ModelOut) -> Vec<String> {
    let mut classes: BTreeSet<String> = BTreeSet::new();
    let plain_specs = || p.gspecs.iter().filter(|s| !s.pattern && !s.negative && !s.exact_sha1);
    let best_for = |abbrev: &str| {
        let mut best: Option<&Adv> = None;
        let mut score = 0;
        for r in adv {
            let sc = refname_match(abbrev, &r.name);
            if score < sc {
                best = Some(r);
                score = sc;
            }
        }
        best.map(|b| b.name.clone())
    };
    let g: BTreeSet<Mapping> = gix.raw.iter().map(|(a, b, _)| (a.clone(), b.clone())).collect();
    let mm: BTreeSet<Mapping> = m.raw.iter().cloned().collect();
    let mut lacking: BTreeSet<&Mapping> = mm.difference(&g).collect();
    for e in g.difference(&mm) {
        // (D) partial destination "heads/x": git -> refs/heads/x, gitoxide -> refs/heads/heads/x
        if let Some(d) = &e.1 {
            if let Some(rest) = d.strip_prefix("refs/heads/heads/") {
                let git_side = (e.0.clone(), Some(format!("refs/heads/{rest}")));
                let spec_has_it = p
                    .gspecs
                    .iter()
                    .any(|s| !s.pattern && !s.negative && s.dst.as_deref() == Some(&format!("heads/{rest}")));
                if spec_has_it && (lacking.remove(&git_side) || g.contains(&git_side)) {
                    classes.insert("partial-dst-heads-prefix".into());
                    continue;
                }
            }
        }
        // (C) a partial name matches every expansion in gitoxide, only the best ranked one in git
        if plain_specs().any(|s| {
            let abbrev = if s.src.is_empty() { "HEAD" } else { s.src.as_str() };
            let local = s.dst.as_deref().and_then(get_local_ref);
            let local_gix = local.as_ref().map(|l| match s.dst.as_deref().and_then(|d| d.strip_prefix("heads/")) {
                Some(rest) => format!("refs/heads/heads/{rest}"),
                None => l.clone(),
            });
            refname_match(abbrev, &e.0) > 0
                && best_for(abbrev).as_deref() != Some(e.0.as_str())
                && (local == e.1 || local_gix == e.1)
        }) {
            classes.insert("partial-name-matches-all-expansions".into());
            continue;
        }
        classes.insert("unclassified".into());
    }
    for l in lacking {
        // (F) a source starting with refs/ is still an abbreviation for git (refs/heads/a finds refs/refs/heads/a)
        if plain_specs().any(|s| {
            s.src.starts_with("refs/")
                && s.src != l.0
                && best_for(&s.src).as_deref() == Some(l.0.as_str())
                && s.dst.as_deref().and_then(get_local_ref) == l.1
        }) {
            classes.insert("full-name-source-not-resolved-as-abbreviation".into());
            continue;
        }
        // (G) ^HEAD removes every expansion of HEAD (refs/heads/HEAD ..), git compares the name literally
        if l.0 != "HEAD" && refname_match("HEAD", &l.0) > 0 && p.gspecs.iter().any(|s| s.negative && s.src == "HEAD") {
            classes.insert("negative-head-removes-expansions".into());
            continue;
        }
        classes.insert("unclassified".into());
    }
    if !classes.is_empty() {
        return classes.into_iter().collect();
    }
    // same mappings before validation
    match (&gix.fin, model_final(m)) {
        (Final::Maps(g), Final::Maps(mm)) => {
            if mm.difference(g).next().is_some() {
                classes.insert("unclassified".into());
            }
            for e in g.difference(&mm) {
                if m.funny.iter().any(|f| f == e) {
                    classes.insert("glob-dst-invalid-name-kept".into());
                } else {
                    classes.insert("unclassified".into());
                }
            }
        }
        (Final::Conflict, Final::Maps(_)) => {
            // gitoxide looks for conflicts before it removes destinations git ignores
            let mut by_dst: BTreeMap<&String, BTreeSet<&String>> = BTreeMap::new();
            for f in &m.funny {
                by_dst.entry(f.1.as_ref().unwrap()).or_default().insert(&f.0);
            }
            for k in &m.maps {
                if let Some(d) = &k.1 {
                    if by_dst.contains_key(d) {
                        by_dst.entry(d).or_default().insert(&k.0);
                    }
                }
            }
            if by_dst.values().any(|srcs| srcs.len() > 1) {
                classes.insert("conflict-among-ignored-destinations".into());
            } else {
                classes.insert("unclassified".into());
            }
        }
        _ => {
            classes.insert("unclassified".into());
        }
    }
    classes.into_iter().collect()
}

fn describe(p: &Prepared, adv: &[Adv]) -> String {
    format!(
        "specs={:?} refs={:?}",
        p.specs,
        adv.iter()
            .map(|a| match a.object {
                Some(o) => format!("{}={}^{}", a.name, &a.target.to_hex().to_string()[..6], &o.to_hex().to_string()[..6]),
                None => format!("{}={}", a.name, &a.target.to_hex().to_string()[..6]),
            })
            .collect::<Vec<_>>()
    )
}

/// The class to report: an unclassified difference first, then a class not yet recorded, then a recorded one.
fn pick_signature(classes: &[String]) -> String {
    if classes.iter().any(|c| c == "unclassified") {
        return "mapping-mismatch".into();
    }
    classes
        .iter()
        .find(|c| !is_known(c))
        .or(classes.first())
        .cloned()
        .unwrap_or_else(|| "mapping-mismatch".into())
}

/// gitoxide vs model for one prepared list. Returns the disagreement (signature, message) if any.
fn compare(p: &Prepared, adv: &[Adv], c: &mut Case) -> Option<(String, String)> {
    let m = model(&p.gspecs, adv);
    c.label_if(m.conflict.is_some(), "conflict");
    c.label_if(!m.funny.is_empty(), "funny-dst-dropped");
    c.label_if(!m.negated.is_empty(), "negative-removes-mapping");
    let overlap = overlap_class(&p.gspecs, adv);
    c.label_if(overlap, "glob-prefix-suffix-overlap");
    c.label_if(m.maps.len() >= 5, "many-mappings");
    c.label_if(m.maps.is_empty() && m.conflict.is_none(), "no-mapping");
    c.nontrivial(overlap || !m.negated.is_empty());
    let gix = match std::panic::catch_unwind(std::panic::AssertUnwindSafe(|| gix_eval(&p.specs, adv))) {
        Ok(Ok(g)) => g,
        Ok(Err(e)) => {
            return Some(("".into(), format!("spec accepted before is now rejected: {e}")));
        }
        Err(payload) => {
            if overlap {
                let this = (
                    "glob-overlap-panic".to_string(),
                    format!(
                        "match_remotes()/validated() panicked for a glob whose prefix+suffix is longer than a name it is applied to; {}",
                        describe(p, adv)
                    ),
                );
                if is_known(&this.0) {
                    // recorded class: keep searching behind it with the overlapping specs taken out
                    let mut rest = Prepared {
                        specs: Vec::new(),
                        gspecs: Vec::new(),
                    };
                    for (s, g) in p.specs.iter().zip(&p.gspecs) {
                        if !overlap_class(std::slice::from_ref(g), adv) {
                            rest.specs.push(s.clone());
                            rest.gspecs.push(g.clone());
                        }
                    }
                    if !rest.specs.is_empty() {
                        if let Some(other) = compare(&rest, adv, &mut Case::new(false)) {
                            if !is_known(&other.0) {
                                return Some(other);
                            }
                        }
                    }
                }
                return Some(this);
            }
            std::panic::resume_unwind(payload);
        }
    };
    let mf = model_final(&m);
    if gix.fin == mf {
        return None;
    }
    let classes = classify(p, adv, &gix, &m);
    let sig = pick_signature(&classes);
    Some((
        sig,
        format!(
            "classes={classes:?} gitoxide: {:?} ({}); git rules: {:?} (conflict={:?} funny={:?} negated={:?}); {}",
            gix.fin,
            gix.detail,
            mf,
            m.conflict,
            m.funny,
            m.negated,
            describe(p, adv)
        ),
    ))
}

enum Vote {
    /// real git does what the transcribed rules predict
    Agree,
    /// real git cannot be asked (object the server lacks, D/F conflict between destinations, tag object under refs/heads/)
    NotExpressible,
    Disagree(String),
}

/// Put the list to real git and compare it with the model's prediction. Err = infrastructure.
fn validate_model(server: &Server, k: usize, p: &Prepared) -> Result<Vote, String> {
    let m = model(&p.gspecs, &server.adv);
    if client_df_conflict(&m.maps) {
        return Ok(Vote::NotExpressible);
    }
    // not expressible: an object the server does not have; a tag object stored under refs/heads/ (refused by the ref update)
    let is_tag_object = |src: &str| {
        server
            .adv
            .iter()
            .any(|a| a.object.is_some() && (a.name == src || a.target.to_hex().to_string() == src))
    };
    let has_object = |hex: &str| {
        server
            .adv
            .iter()
            .any(|a| a.target.to_hex().to_string() == hex || a.object.map(|o| o.to_hex().to_string() == hex).unwrap_or(false))
    };
    if p.gspecs.iter().any(|g| g.exact_sha1 && !has_object(&g.src.to_ascii_lowercase()))
        || m.maps
            .iter()
            .any(|(s, d)| d.as_deref().map(|d| d.starts_with("refs/heads/")).unwrap_or(false) && is_tag_object(s))
    {
        return Ok(Vote::NotExpressible);
    }
    let git = git_fetch(server, k, &p.specs)?;
    let want = model_observable(&m, &server.adv);
    if git == want {
        Ok(Vote::Agree)
    } else {
        Ok(Vote::Disagree(format!(
            "real git: {git:?}; transcribed rules predict: {want:?}; {}",
            describe(p, &server.adv)
        )))
    }
}

pub fn main() {
    let mut ck = Check::new("C32", "exploration");
    let known: Vec<String> = std::fs::read_to_string("/verif/known_findings.json")
        .ok()
        .and_then(|s| serde_json::from_str::<serde_json::Value>(&s).ok())
        .and_then(|v| {
            v["findings"].as_array().map(|a| {
                a.iter()
                    .filter(|e| e["property"] == "C32" && e["status"] == "known")
                    .filter_map(|e| e["signature"].as_str().map(|s| s.to_string()))
                    .collect()
            })
        })
        .unwrap_or_default();
    let _ = KNOWN.set(known);

    ck.rule("A scenario = 1..25 remote refs (names from shared fragments under refs/heads, refs/tags, refs/remotes, refs/notes, refs/, no D/F conflicts; annotated tags with peeled ids; HEAD advertised or not) + lists of 1..5 fetch refspecs: exact, partial (every abbreviation git resolves), globs cut out of existing names with prefix/suffix overlapping or adjacent, glob destinations with prefix/suffix, '+', negative, 40-hex sources (a tip, a peeled id, unknown), empty/HEAD/@ sources, missing/empty/partial/full/hex/reused destinations. Only specs both gitoxide's and git's parser accept and for which the remote ref exists take part. Non-trivial: a glob spec whose prefix+suffix is longer than a remote name that starts with the prefix and ends with the suffix, or a negative spec that removes at least one mapping. Distinct by (refs, specs).");
    ck.assume(&format!("the mapping rules are a transcription of git 2.39 remote.c/refspec.c/builtin/fetch.c; each run validates them against real `git fetch` ({}) into an empty bare client (sub-check git-fetch) and every gitoxide/model disagreement of a not yet recorded class is put to real git before it is reported", Git::version()));
    ck.assume("gitoxide side is match_remotes(..).validated(): Err(conflict) corresponds to git's 'Cannot fetch both'; mappings are compared as sets of (source name or object id, destination); order, spec_index and the force flag are not compared");

    // gitoxide vs transcribed rules
    ck.sub("model", SubCfg::new(400_000, 8_000_000).max_len(256).max_shrink(if std::env::var_os("C32_PIN").is_some() { 5000 } else { 300 }), |t, c| {
        let s = gen_scenario(t, c, 1);
        c.key(&s);
        let adv = synthetic_adv(&s);
        let Some(p) = prepare(&s.spec_lists[0], &s, &adv, c) else {
            if !c.failed() {
                c.discard();
            }
            return;
        };
        c.sample_with(|| describe(&p, &adv));
        let Some((sig, msg)) = compare(&p, &adv, c) else { return };
        if std::env::var("C32_PIN").ok().as_deref() == Some(sig.as_str()) {
            // development aid: produce a shrunk pinned case for a recorded class
            c.fail_sig(&format!("pin:{sig}"), msg);
            return;
        }
        if is_known(&sig) {
            c.fail_sig(&sig, msg);
            return;
        }
        // 3-way vote: ask real git about this very scenario. Shrinking re-evaluates hundreds of variants, so a
        // thread asks git about its first disagreements only; later ones of the same run are reported as confirmed
        // for the class.
        let (confirmed, model_bug) = VOTES.with(|v| v.get());
        if model_bug {
            c.infra(format!("MODEL-BUG seen earlier in this search thread; not judging: {msg}"));
            return;
        }
        if confirmed >= 8 {
            c.fail_sig(&sig, format!("{msg} [real git sided with the transcribed rules on 8 earlier disagreements of this search thread]"));
            return;
        }
        let server = infra!(c, build_server(&s), "server for vote");
        let Some(p2) = prepare(&s.spec_lists[0], &s, &server.adv, &mut Case::new(false)) else {
            c.fail_sig(&sig, format!("{msg} [not re-creatable with real ids]"));
            return;
        };
        match validate_model(&server, 0, &p2) {
            Err(e) => c.infra(format!("vote: {e}")),
            Ok(Vote::Disagree(model_wrong)) => {
                VOTES.with(|v| v.set((v.get().0, true)));
                c.infra(format!("MODEL-BUG: {model_wrong}; original disagreement: {msg}"))
            }
            Ok(Vote::NotExpressible) => c.fail_sig(&sig, format!("{msg} [real git cannot be asked about this case; transcribed rules only]")),
            Ok(Vote::Agree) => {
                VOTES.with(|v| v.set((v.get().0 + 1, false)));
                c.fail_sig(&sig, format!("{msg} [real git sides with the transcribed rules]"))
            }
        }
    });

    // transcribed rules AND gitoxide vs real git fetch
    ck.sub(
        "git-fetch",
        SubCfg::new(32, 1_500).max_len(500).max_shrink(40),
        |t, c| {
            let s = gen_scenario(t, c, 3);
            c.key(&s);
            let server = infra!(c, build_server(&s), "server");
            c.sample_with(|| format!("{:?} refs, {:?}", server.adv.len(), s.spec_lists));
            let mut prepared = Vec::new();
            for (k, list) in s.spec_lists.iter().enumerate() {
                let Some(p) = prepare(list, &s, &server.adv, c) else {
                    if c.failed() {
                        return;
                    }
                    continue;
                };
                match validate_model(&server, k, &p) {
                    Err(e) => {
                        c.infra(e);
                        return;
                    }
                    Ok(Vote::Disagree(model_wrong)) => {
                        c.infra(format!("MODEL-BUG: {model_wrong}"));
                        return;
                    }
                    Ok(Vote::NotExpressible) => c.label("list-not-expressible-with-real-git"),
                    Ok(Vote::Agree) => c.label("lists-validated-against-real-git"),
                }
                prepared.push(p);
            }
            // the rules hold for real git here; now gitoxide against them (a not yet recorded class first)
            let mut recorded: Option<(String, String)> = None;
            for p in &prepared {
                if let Some((sig, msg)) = compare(p, &server.adv, c) {
                    let msg = format!("{msg} [real git fetch agrees with the transcribed rules]");
                    if !is_known(&sig) {
                        c.fail_sig(&sig, msg);
                        return;
                    }
                    recorded.get_or_insert((sig, msg));
                }
            }
            // recorded classes are reported (and pinned) by the `model` sub-check; here they only get a label
            c.label_if(recorded.is_some(), "recorded-class-disagreement-seen");

        },
    );

    ck.finish();
}
