//! C57 — ANSI-C unquoting (`gix_quote::ansi_c::undo`) inverts git's path quoting (`quote_c_style`).
use bstr::ByteSlice;
use vp::*;

/// Escape kinds git uses (bit set).
const K_NAMED: u8 = 1; // \a \b \t \n \v \f \r
const K_OCTAL: u8 = 2; // \ooo
const K_QUOTE: u8 = 4; // \" and \\

/// Transcription of git's `quote_c_style` (quote.c, `cq_lookup`): returns the printed form and the set of escape kinds
/// used; the form is surrounded by double quotes iff at least one byte must be quoted.
/// `quote_path_fully` is `core.quotePath` (default true: bytes >= 0x80 are written as octal escapes).
fn git_quote(s: &[u8], quote_path_fully: bool) -> (Vec<u8>, u8) {
    fn class(b: u8) -> i32 {
        match b {
            7 => b'a' as i32,
            8 => b'b' as i32,
            9 => b't' as i32,
            10 => b'n' as i32,
            11 => b'v' as i32,
            12 => b'f' as i32,
            13 => b'r' as i32,
            0..=0x1f => 1,
            b'"' => b'"' as i32,
            b'\\' => b'\\' as i32,
            0x7f => 1,
            0x20..=0x7e => -1,
            _ => 0,
        }
    }
    let must = |b: u8| class(b) + quote_path_fully as i32 > 0;
    if !s.iter().any(|b| must(*b)) {
        return (s.to_vec(), 0);
    }
    let mut kinds = 0u8;
    let mut out = vec![b'"'];
    for &b in s {
        if !must(b) {
            out.push(b);
            continue;
        }
        out.push(b'\\');
        let cl = class(b);
        if cl > 1 {
            out.push(cl as u8);
            kinds |= if b == b'"' || b == b'\\' { K_QUOTE } else { K_NAMED };
        } else {
            out.push(((b >> 6) & 3) + b'0');
            out.push(((b >> 3) & 7) + b'0');
            out.push((b & 7) + b'0');
            kinds |= K_OCTAL;
        }
    }
    out.push(b'"');
    (out, kinds)
}

/// One byte (or one multi-byte UTF-8 sequence) of a path, weighted towards everything git escapes and towards the
/// characters that could confuse an escape interpreter when they follow an escape (digits, escape letters).
fn gen_piece(t: &mut Tape, out: &mut Vec<u8>, allow_slash: bool) {
    match t.weighted(&[5, 3, 3, 3, 2, 2, 1, 3, 2, 3, 1]) {
        0 => out.push(*t.pick(b"abcxyzABC._-+=~ ")),
        1 => out.push(*t.pick(b"01234567890")),
        2 => out.push(*t.pick(b"abtnvfr")),
        3 => out.push(*t.pick(&[7u8, 8, 9, 10, 11, 12, 13])),
        4 => out.push(t.range(1, 6) as u8),
        5 => out.push(t.range(0x0e, 0x1f) as u8),
        6 => out.push(0x7f),
        7 => out.push(*t.pick(b"\"\\")),
        8 => out.extend_from_slice(t.pick(&["é", "ß", "日本", "€", "\u{80}", "\u{ff}", "😀", "\u{feff}"]).as_bytes()),
        9 => out.push(t.range(0x80, 0xff) as u8),
        _ => out.push(if allow_slash { b'/' } else { b'x' }),
    }
}

fn gen_name(t: &mut Tape, max_pieces: usize, allow_slash: bool) -> Vec<u8> {
    let n = match t.weighted(&[1, 6, 3]) {
        0 => 0,
        1 => t.range(1, 8.min(max_pieces)),
        _ => t.range(1, max_pieces),
    };
    let mut v = Vec::new();
    for _ in 0..n {
        gen_piece(t, &mut v, allow_slash);
    }
    v
}

fn kinds_count(k: u8) -> u32 {
    k.count_ones()
}

pub fn main() {
    let mut ck = Check::new("C57", "exploration");
    ck.rule("Byte strings of 0..64 pieces without NUL (plain ASCII, digits and escape letters that may follow an escape, named control bytes, other control bytes, DEL, double quote, backslash, valid multi-byte UTF-8, arbitrary bytes >= 0x80) quoted by a transcription of git's quote_c_style in both core.quotePath modes, followed by trailing text (none, space/tab-led, arbitrary bytes incl. quotes and backslashes). Non-trivial: the quoted form uses at least two different escape kinds (named, octal, quote/backslash). Distinct by (bytes, mode, trailing). The transcription is validated against real git on generated paths in every run (sub-check git-validated).");
    ck.assume(&format!(
        "git's quoting is what {} prints for `ls-files` without -z (quote_c_style) with core.quotePath=true/false",
        Git::version()
    ));

    ck.sub("model-roundtrip", SubCfg::new(300_000, 6_000_000).max_len(256), |t, c| {
        let s = gen_name(t, 64, true);
        let fully = !t.chance(96);
        let trailing: Vec<u8> = match t.weighted(&[4, 3, 2, 2]) {
            0 => vec![],
            1 => {
                let mut v = vec![*t.pick(b" \t\n")];
                v.extend(t.string_of(b"ab \"\\0173\n", 0, 6));
                v
            }
            2 => t.bytes(8),
            _ => t.string_of(b"\"\\\"n0 a", 1, 6),
        };
        c.key(&(&s, fully, &trailing));
        let (q, kinds) = git_quote(&s, fully);
        let quoted = kinds != 0;
        c.label(if fully { "quotepath-true" } else { "quotepath-false" });
        c.label_if(quoted, "quoted");
        c.label_if(!quoted, "plain");
        c.label_if(kinds & K_NAMED != 0, "named-escape");
        c.label_if(kinds & K_OCTAL != 0, "octal-escape");
        c.label_if(kinds & K_QUOTE != 0, "quote-or-backslash-escape");
        c.label_if(!trailing.is_empty(), "trailing-text");
        c.label_if(s.is_empty(), "empty");
        let octal_then_digit = q.windows(5).any(|w| {
            w[0] == b'\\' && w[1..4].iter().all(|b| (b'0'..=b'7').contains(b)) && w[4].is_ascii_digit()
        });
        c.label_if(octal_then_digit, "digit-after-octal");
        c.label_if(!fully && quoted && s.iter().any(|b| *b >= 0x80), "raw-high-bytes-inside-quotes");
        c.nontrivial(kinds_count(kinds) >= 2);
        c.sample_with(|| format!("bytes={} mode={} quoted={} trailing={}", show(&s), fully, show(&q), show(&trailing)));

        let mut input = q.clone();
        input.extend_from_slice(&trailing);
        if quoted {
            match gix_quote::ansi_c::undo(input.as_bstr()) {
                Ok((out, consumed)) => {
                    ensure_sig!(
                        c,
                        "unquoted-bytes-differ",
                        out.as_ref() == s.as_bstr(),
                        "undo({}) = {} but git quoted {}",
                        show(&input),
                        show(out.as_ref()),
                        show(&s)
                    );
                    ensure_sig!(
                        c,
                        "consumed-differs",
                        consumed == q.len(),
                        "undo({}) reports {} consumed bytes, the quoted form {} occupies {}",
                        show(&input),
                        consumed,
                        show(&q),
                        q.len()
                    );
                }
                Err(e) => c.fail_sig("git-form-rejected", format!("undo({}) failed: {e}", show(&input))),
            }
        } else {
            // git prints the name as it is; such input (not starting with a quote) must come back unchanged, whole
            if input.first() == Some(&b'"') {
                // only possible for an empty name followed by trailing text starting with a quote: not an unquoted input
                input = s.clone();
            }
            match gix_quote::ansi_c::undo(input.as_bstr()) {
                Ok((out, consumed)) => {
                    ensure_sig!(
                        c,
                        "unquoted-input-changed",
                        out.as_ref() == input.as_bstr() && consumed == input.len(),
                        "unquoted input {} came back as {} with {} consumed (len {})",
                        show(&input),
                        show(out.as_ref()),
                        consumed,
                        input.len()
                    );
                }
                Err(e) => c.fail_sig("unquoted-input-rejected", format!("undo({}) failed: {e}", show(&input))),
            }
        }
    });

    // The transcription above and undo() are both put to real git: 40 index entries per case, printed by
    // `git ls-files` in both quotePath modes.
    ck.sub("git-validated", SubCfg::new(80, 2_000).max_len(40 * 40).max_shrink(60), |t, c| {
        let mut names: Vec<Vec<u8>> = Vec::new();
        let mut kinds_all = 0u8;
        let mut nt_names = 0;
        for i in 0..40 {
            // a unique sortable prefix keeps git's verify_path happy (no "", ".", "..", ".git") and fixes the order
            let mut name = format!("{i:02}").into_bytes();
            let mut body = Vec::new();
            for _ in 0..t.range(1, 12) {
                gen_piece(t, &mut body, false);
            }
            name.extend(body);
            let (_, k) = git_quote(&name, true);
            kinds_all |= k;
            if kinds_count(k) >= 2 {
                nt_names += 1;
            }
            names.push(name);
        }
        c.key(&names);
        c.nontrivial(nt_names >= 1);
        c.label_if(kinds_count(kinds_all) == 3, "all-escape-kinds");
        c.sample_with(|| format!("40 names, e.g. {} / {}", show(&names[0]), show(&names[1])));
        let mut w = infra!(c, World::new("c57", false), "world");
        w.git = w.git.clone().cfg("core.protectNTFS=false").cfg("core.protectHFS=false");
        let mut stdin = Vec::new();
        for n in &names {
            stdin.extend_from_slice(b"100644 e69de29bb2d1d6434b8b29ae775ad8c2e48c5391\t");
            stdin.extend_from_slice(n);
            stdin.push(0);
        }
        infra!(c, w.git.run_in(["update-index", "-z", "--index-info"], Some(&stdin)), "update-index");
        for fully in [true, false] {
            let g = w.git.clone().cfg(if fully { "core.quotePath=true" } else { "core.quotePath=false" });
            let out = infra!(c, g.run(["ls-files"]), "ls-files");
            let lines: Vec<&[u8]> = out.split(|b| *b == b'\n').collect();
            // names without LF print on one line each (LF is always escaped), last element is the empty remainder
            if lines.len() != names.len() + 1 {
                c.infra(format!("ls-files printed {} lines for {} names", lines.len() - 1, names.len()));
                return;
            }
            for (n, line) in names.iter().zip(lines) {
                let (model, _) = git_quote(n, fully);
                if model != line {
                    // the reference model is wrong, not gitoxide
                    c.infra(format!(
                        "MODEL-BUG: quote_c_style transcription gives {} but git prints {} for {} (quotePath={fully})",
                        show(&model),
                        show(line),
                        show(n)
                    ));
                    return;
                }
                match gix_quote::ansi_c::undo(line.as_bstr()) {
                    Ok((out, consumed)) => {
                        ensure_sig!(
                            c,
                            "unquoted-bytes-differ",
                            out.as_ref() == n.as_bstr(),
                            "git printed {} for path {}; undo gives {}",
                            show(line),
                            show(n),
                            show(out.as_ref())
                        );
                        ensure_sig!(
                            c,
                            "consumed-differs",
                            consumed == line.len(),
                            "git printed {} ({} bytes); undo consumed {}",
                            show(line),
                            line.len(),
                            consumed
                        );
                    }
                    Err(e) => {
                        c.fail_sig("git-form-rejected", format!("undo of git output {} failed: {e}", show(line)));
                        return;
                    }
                }
            }
        }
    });

    ck.finish();
}
