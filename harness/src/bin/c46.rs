//! C46 — merge bases agree with git.
//!
//! One case = one commit DAG (2..120 commits, imported with `git fast-import`) and a list of queries
//! `(first, others[1..4])`. For every query the set printed by `git merge-base --all first others..` must equal the set
//! returned by `gix_revision::merge_base(first, others, graph)`, where `graph` is reused across all queries of the case
//! (flag clearing), once without a commit-graph file and once with one (full with generation v1 or v2 data, covering only
//! a part of the history, or a split chain). A bitset reference model answers many more queries than git is asked;
//! a disagreement between gitoxide and the model is only reported after real git was asked about that very query.
use std::collections::BTreeSet;

use gix_hash::ObjectId;
use vp::*;

// ------------------------------------------------------------------------------------------------ DAG generator

#[derive(Clone, Debug, Hash, PartialEq, Eq)]
struct Dag {
    /// parents[i] are indices < i (topological numbering), in parent order
    parents: Vec<Vec<usize>>,
    times: Vec<i64>,
    time_mode: &'static str,
}

const BASE_TIME: i64 = 1_500_000_000;

fn gen_dag(t: &mut Tape, small: bool) -> Dag {
    let n = if small {
        match t.weighted(&[6, 3, 1]) {
            0 => t.range(2, 8),
            1 => t.range(9, 16),
            _ => t.range(17, 40),
        }
    } else {
        match t.weighted(&[4, 4, 2]) {
            0 => t.range(2, 12),
            1 => t.range(13, 40),
            _ => t.range(41, 120),
        }
    };
    let window = t.range(1, 8);
    let root_chance = *t.pick(&[0u32, 8, 8, 24]);
    let merge_weight = *t.pick(&[10u32, 40, 40, 90]);
    let time_mode = *t.pick(&["increasing", "all-equal", "colliding", "inverted", "random-distinct", "mostly-increasing"]);
    let mut parents: Vec<Vec<usize>> = Vec::with_capacity(n);
    for i in 0..n {
        let mut ps: Vec<usize> = Vec::new();
        if i > 0 && !t.chance(root_chance) {
            let want = match t.weighted(&[100, merge_weight, merge_weight / 6 + 1, merge_weight / 12 + 1]) {
                0 => 1,
                1 => 2,
                2 => 3,
                _ => 4,
            };
            for _ in 0..want {
                // mostly recent commits (branchy, criss-cross histories), sometimes anything
                let p = if t.chance(40) {
                    t.below(i)
                } else {
                    i - 1 - t.below(window.min(i))
                };
                if !ps.contains(&p) {
                    ps.push(p);
                }
            }
        }
        parents.push(ps);
    }
    let mut times = Vec::with_capacity(n);
    for i in 0..n {
        let i = i as i64;
        let v = match time_mode {
            "increasing" => BASE_TIME + i * 10,
            "all-equal" => BASE_TIME,
            "colliding" => BASE_TIME + t.below(4) as i64,
            "inverted" => BASE_TIME + 100_000 - i * 10,
            "random-distinct" => BASE_TIME + (t.below(1000) as i64) * 1000 + i,
            _ => BASE_TIME + i * 10 + if t.chance(40) { -(t.below(60) as i64) } else { 0 },
        };
        times.push(v);
    }
    Dag {
        parents,
        times,
        time_mode,
    }
}

impl Dag {
    fn len(&self) -> usize {
        self.parents.len()
    }
    fn fast_import_stream(&self) -> Vec<u8> {
        let mut s = String::new();
        for i in 0..self.len() {
            let msg = format!("c{i}\n");
            s.push_str(&format!(
                "commit refs/c/{i}\nmark :{}\ncommitter C <c@example.com> {} +0000\ndata {}\n{}",
                i + 1,
                self.times[i],
                msg.len(),
                msg
            ));
            for (k, p) in self.parents[i].iter().enumerate() {
                s.push_str(&format!("{} :{}\n", if k == 0 { "from" } else { "merge" }, p + 1));
            }
        }
        s.into_bytes()
    }
    /// ancestors-or-self as bitsets
    fn ancestors(&self) -> Vec<u128> {
        let mut anc: Vec<u128> = Vec::with_capacity(self.len());
        for i in 0..self.len() {
            let mut a = 1u128 << i;
            for p in &self.parents[i] {
                a |= anc[*p];
            }
            anc.push(a);
        }
        anc
    }
}

fn bits(mut b: u128) -> Vec<usize> {
    let mut v = Vec::new();
    while b != 0 {
        let i = b.trailing_zeros() as usize;
        v.push(i);
        b &= b - 1;
    }
    v
}

/// reference model: maximal common ancestors of `first` and the union of the histories of `others`
fn model_merge_bases(anc: &[u128], first: usize, others: &[usize]) -> BTreeSet<usize> {
    if others.contains(&first) {
        return [first].into_iter().collect();
    }
    let mut other_hist = 0u128;
    for o in others {
        other_hist |= anc[*o];
    }
    let common = anc[first] & other_hist;
    let mut out = BTreeSet::new();
    for c in bits(common) {
        // c is redundant if it is an ancestor of another common ancestor
        let dominated = bits(common).into_iter().any(|d| d != c && anc[d] & (1u128 << c) != 0);
        if !dominated {
            out.insert(c);
        }
    }
    out
}

#[derive(Clone, Debug, Hash, PartialEq, Eq)]
struct Query {
    first: usize,
    others: Vec<usize>,
}

fn gen_query(t: &mut Tape, dag: &Dag, anc: &[u128]) -> Query {
    let n = dag.len();
    // prefer late commits (they have history)
    let pick_late = |t: &mut Tape| if t.chance(150) { n - 1 - t.below(n.min(6)) } else { t.below(n) };
    let first = pick_late(t);
    let k = 1 + t.weighted(&[10, 4, 2, 1]);
    let mut others = Vec::new();
    for _ in 0..k {
        let o = match t.weighted(&[12, 2, 2, 1, 1]) {
            0 => pick_late(t),
            1 => {
                // an ancestor of first
                let a = bits(anc[first]);
                a[t.below(a.len())]
            }
            2 => {
                // a descendant of first
                let d: Vec<usize> = (0..n).filter(|j| anc[*j] & (1u128 << first) != 0).collect();
                d[t.below(d.len())]
            }
            3 => first,
            _ => match others.last() {
                Some(o) => *o,
                None => t.below(n),
            },
        };
        others.push(o);
    }
    Query { first, others }
}

// ------------------------------------------------------------------------------------------------ in-memory store

/// the commits of a DAG as an object store that lives in memory (same bytes and ids as `git fast-import` produces)
struct MemOdb {
    map: std::collections::HashMap<ObjectId, Vec<u8>>,
}

impl gix_object::Find for MemOdb {
    fn try_find<'a>(
        &self,
        id: &gix_hash::oid,
        buffer: &'a mut Vec<u8>,
    ) -> Result<Option<gix_object::Data<'a>>, gix_object::find::Error> {
        match self.map.get(id) {
            None => Ok(None),
            Some(bytes) => {
                buffer.clear();
                buffer.extend_from_slice(bytes);
                Ok(Some(gix_object::Data {
                    kind: gix_object::Kind::Commit,
                    data: buffer,
                }))
            }
        }
    }
}

fn mem_odb(dag: &Dag) -> (MemOdb, Vec<ObjectId>) {
    let mut ids: Vec<ObjectId> = Vec::with_capacity(dag.len());
    let mut map = std::collections::HashMap::new();
    for i in 0..dag.len() {
        let mut b = String::from("tree 4b825dc642cb6eb9a060e54bf8d69288fbee4904\n");
        for p in &dag.parents[i] {
            b.push_str(&format!("parent {}\n", ids[*p]));
        }
        b.push_str(&format!(
            "author C <c@example.com> {t} +0000\ncommitter C <c@example.com> {t} +0000\n\nc{i}\n",
            t = dag.times[i]
        ));
        let id = gix_object::compute_hash(gix_hash::Kind::Sha1, gix_object::Kind::Commit, b.as_bytes());
        map.insert(id, b.into_bytes());
        ids.push(id);
    }
    (MemOdb { map }, ids)
}

// ------------------------------------------------------------------------------------------------ world

struct FastWorld {
    #[allow(dead_code)]
    scratch: Scratch,
    git: Git,
}

impl FastWorld {
    fn new(tag: &str) -> Result<FastWorld, String> {
        let scratch = Scratch::new(tag).map_err(|e| format!("scratch: {e}"))?;
        let home = scratch.join("home");
        let repo = scratch.join("repo");
        let mk = |p: std::path::PathBuf| std::fs::create_dir_all(&p).map_err(|e| format!("mkdir {}: {e}", p.display()));
        mk(home.clone())?;
        mk(repo.join("objects").join("info"))?;
        mk(repo.join("objects").join("pack"))?;
        mk(repo.join("refs").join("heads"))?;
        mk(repo.join("refs").join("tags"))?;
        std::fs::write(repo.join("HEAD"), "ref: refs/heads/main\n").map_err(|e| e.to_string())?;
        std::fs::write(
            repo.join("config"),
            "[core]\n\trepositoryformatversion = 0\n\tfilemode = true\n\tbare = true\n",
        )
        .map_err(|e| e.to_string())?;
        let git = Git::new(&repo, &home);
        Ok(FastWorld { scratch, git })
    }
    fn repo(&self) -> std::path::PathBuf {
        self.git.dir.clone()
    }
}

fn import(world: &FastWorld, dag: &Dag) -> Result<Vec<ObjectId>, String> {
    let marks = world.scratch.join("marks");
    world.git.run_in(
        [
            "fast-import".to_string(),
            "--quiet".to_string(),
            format!("--export-marks={}", marks.display()),
        ],
        Some(&dag.fast_import_stream()),
    )?;
    let text = std::fs::read_to_string(&marks).map_err(|e| format!("read marks: {e}"))?;
    let mut ids = vec![None; dag.len()];
    for line in text.lines() {
        let (m, id) = line.split_once(' ').ok_or("bad marks line")?;
        let idx: usize = m.trim_start_matches(':').parse().map_err(|_| "bad mark")?;
        ids[idx - 1] = Some(ObjectId::from_hex(id.as_bytes()).map_err(|e| e.to_string())?);
    }
    ids.into_iter()
        .map(|i| i.ok_or_else(|| "mark missing".to_string()))
        .collect()
}

#[derive(Clone, Copy, Debug, Hash, PartialEq, Eq)]
enum GraphKind {
    FullV1,
    FullV2,
    /// covers only the history of the given commit
    Partial(usize),
    /// a chain of two files: history of the given commit first, then the rest
    Chain(usize),
}

fn write_commit_graph(world: &FastWorld, ids: &[ObjectId], kind: GraphKind) -> Result<(), String> {
    let git = &world.git;
    match kind {
        GraphKind::FullV1 => {
            git.clone()
                .cfg("commitGraph.generationVersion=1")
                .run(["commit-graph", "write", "--reachable"])?;
        }
        GraphKind::FullV2 => {
            git.clone()
                .cfg("commitGraph.generationVersion=2")
                .run(["commit-graph", "write", "--reachable"])?;
        }
        GraphKind::Partial(k) => {
            git.run_in(
                ["commit-graph", "write", "--stdin-commits"],
                Some(format!("{}\n", ids[k]).as_bytes()),
            )?;
        }
        GraphKind::Chain(k) => {
            git.run_in(
                ["commit-graph", "write", "--stdin-commits", "--split=no-merge"],
                Some(format!("{}\n", ids[k]).as_bytes()),
            )?;
            git.run(["commit-graph", "write", "--reachable", "--split=no-merge"])?;
        }
    }
    Ok(())
}

fn git_merge_bases(git: &Git, ids: &[ObjectId], q: &Query) -> Result<BTreeSet<usize>, String> {
    let mut args = vec!["merge-base".to_string(), "--all".to_string(), ids[q.first].to_string()];
    args.extend(q.others.iter().map(|o| ids[*o].to_string()));
    let (ok, out, err) = git.try_run(&args, None)?;
    let text = String::from_utf8_lossy(&out).to_string();
    if !ok {
        if !err.is_empty() || !text.trim().is_empty() {
            return Err(format!("git merge-base failed: {}", String::from_utf8_lossy(&err)));
        }
        return Ok(BTreeSet::new());
    }
    let mut set = BTreeSet::new();
    for line in text.lines() {
        let id = ObjectId::from_hex(line.trim().as_bytes()).map_err(|e| e.to_string())?;
        let idx = ids.iter().position(|i| *i == id).ok_or("git printed an unknown commit")?;
        if !set.insert(idx) {
            return Err("git printed a merge base twice".into());
        }
    }
    if set.is_empty() {
        return Err("git merge-base succeeded without output".into());
    }
    Ok(set)
}

type MbGraph<'a, 'b> = gix_revision::Graph<'a, 'b, gix_revision::graph::Commit<gix_revision::merge_base::Flags>>;

/// Ok(Ok(set)) or Ok(Err(description of a malformed answer)); Err = the call itself failed
fn gix_merge_bases(graph: &mut MbGraph<'_, '_>, ids: &[ObjectId], q: &Query) -> Result<Result<BTreeSet<usize>, String>, String> {
    let others: Vec<ObjectId> = q.others.iter().map(|o| ids[*o]).collect();
    let res = gix_revision::merge_base(ids[q.first], &others, graph).map_err(|e| e.to_string())?;
    Ok(match res {
        None => Ok(BTreeSet::new()),
        Some(list) => {
            if list.is_empty() {
                return Ok(Err("Some(empty list) returned".into()));
            }
            let mut set = BTreeSet::new();
            for id in &list {
                match ids.iter().position(|i| i == id) {
                    None => return Ok(Err(format!("unknown commit {id} returned"))),
                    Some(idx) => {
                        if !set.insert(idx) {
                            return Ok(Err(format!("commit c{idx} returned twice")));
                        }
                    }
                }
            }
            Ok(set)
        }
    })
}

/// failure class of a wrong answer
fn classify(want: &BTreeSet<usize>, got: &BTreeSet<usize>) -> &'static str {
    if got.len() > want.len() && want.is_subset(got) {
        // everything git reports is there, plus commits that are ancestors of other reported ones
        "redundant-merge-base-returned"
    } else if got.len() < want.len() && got.is_subset(want) {
        "merge-base-missing"
    } else {
        "merge-base-wrong"
    }
}

/// The class `redundant-merge-base-returned` is reported only if nothing else is wrong with the case: the first
/// occurrence is remembered and the remaining queries are still compared, so other violations are not hidden behind it.
struct Deferred(Option<(String, String)>);

impl Deferred {
    /// returns true if the failure was recorded on the case (the caller returns)
    fn report(&mut self, c: &mut Case, sig: &str, msg: String) -> bool {
        if sig == "redundant-merge-base-returned" {
            if self.0.is_none() {
                self.0 = Some((sig.to_string(), msg));
            }
            false
        } else {
            c.fail_sig(sig, msg);
            true
        }
    }
    fn finish(self, c: &mut Case) {
        if let Some((sig, msg)) = self.0 {
            c.fail_sig(&sig, msg);
        }
    }
}

fn known_signatures() -> BTreeSet<String> {
    let mut out = BTreeSet::new();
    let p = std::path::Path::new(vp::runner::VERIF_ROOT).join("known_findings.json");
    if let Ok(s) = std::fs::read_to_string(p) {
        if let Ok(v) = serde_json::from_str::<serde_json::Value>(&s) {
            if let Some(a) = v["findings"].as_array() {
                for e in a {
                    if e["property"].as_str() == Some("C46") && e["status"].as_str() == Some("known") {
                        if let Some(sig) = e["signature"].as_str() {
                            out.insert(sig.to_string());
                        }
                    }
                }
            }
        }
    }
    out
}

fn show_query(q: &Query) -> String {
    format!(
        "merge-base(c{}, [{}])",
        q.first,
        q.others.iter().map(|o| format!("c{o}")).collect::<Vec<_>>().join(", ")
    )
}

fn show_set(s: &BTreeSet<usize>) -> String {
    format!("{{{}}}", s.iter().map(|o| format!("c{o}")).collect::<Vec<_>>().join(", "))
}

fn show_dag(d: &Dag) -> String {
    let mut s = format!("{} commits, times {}: ", d.len(), d.time_mode);
    for i in 0..d.len() {
        s.push_str(&format!(
            "c{i}@{}<-[{}] ",
            d.times[i] - BASE_TIME,
            d.parents[i].iter().map(|p| p.to_string()).collect::<Vec<_>>().join(",")
        ));
    }
    s
}

pub fn main() {
    let mut ck = Check::new("C46", "exploration");
    ck.rule("Commit DAGs of 2..120 commits built by `git fast-import` (parents drawn from a sliding window of recent commits so that criss-cross merges arise, octopus merges up to 4 parents, several roots, commit times increasing / all equal / colliding / inverted w.r.t. topology / random / mostly increasing), 25 queries (first, others[1..4]) answered by git plus 60 answered by a bitset model (others drawn from: late commits, ancestors and descendants of first, first itself, duplicates); every query is run without a commit-graph and with one (full v1, full v2, partial, split chain), the gitoxide graph being reused across the queries. Non-trivial: a query with >= 2 merge bases, or any query on a DAG whose commit times are not increasing with topology. Distinct by hash of (DAG, queries, graph kind).");
    ck.assume(&format!(
        "oracle: {} `merge-base --all` (set semantics; exit 1 without output = no merge base); git is asked without a commit-graph file, and on a fixed fraction of the DAGs again with it (the answers must not change)",
        Git::version()
    ));
    ck.assume("the reference model (maximal elements of the common ancestors of first and the union of the others' histories) is validated against git on every git-answered query; a gitoxide/model disagreement on a model-only query is put to git before it is reported");

    // many small DAGs, no processes: gitoxide on an in-memory object store vs the model; git arbitrates disagreements
    let known1 = known_signatures();
    ck.sub(
        "in-memory",
        SubCfg::new(100_000, 3_000_000).max_len(700).max_shrink(150),
        move |t, c| {
            let dag = gen_dag(t, true);
            let anc = dag.ancestors();
            let mut queries = Vec::new();
            for _ in 0..t.range(1, 30) {
                queries.push(gen_query(t, &dag, &anc));
            }
            c.key(&(&dag, &queries));
            c.label(dag.time_mode);
            let mut multi = false;
            for q in &queries {
                multi |= model_merge_bases(&anc, q.first, &q.others).len() >= 2;
            }
            c.label_if(multi, "query-with-multiple-bases");
            c.label_if(dag.parents.iter().filter(|p| p.is_empty()).count() > 1, "multiple-roots");
            c.label_if(dag.parents.iter().any(|p| p.len() > 2), "octopus");
            c.nontrivial(multi || dag.time_mode != "increasing");
            c.sample_with(|| format!("{} | first query {}", show_dag(&dag), show_query(&queries[0])));
            let (odb, ids) = mem_odb(&dag);
            let mut graph: MbGraph<'_, '_> = gix_revision::Graph::new(&odb, None);
            let mut deferred = Deferred(None);
            for q in &queries {
                let want = model_merge_bases(&anc, q.first, &q.others);
                let got = match gix_merge_bases(&mut graph, &ids, q) {
                    Ok(Ok(s)) => s,
                    Ok(Err(malformed)) => {
                        c.fail_sig("malformed-result", format!("{}: {malformed}; DAG: {}", show_query(q), show_dag(&dag)));
                        return;
                    }
                    Err(e) => {
                        c.fail(format!("{}: gix_revision::merge_base failed: {e}", show_query(q)));
                        return;
                    }
                };
                if got != want {
                    let sig = classify(&want, &got);
                    // a class that is already a recorded finding was confirmed by git when it was recorded
                    if std::env::var_os("C46_NO_ARBITRATION").is_none() && !known1.contains(sig) {
                        // ask real git about this very query before reporting
                        let world = infra!(c, FastWorld::new("c46m"), "world");
                        let git_ids = infra!(c, import(&world, &dag), "fast-import");
                        if git_ids != ids {
                            c.infra("fast-import produced other commit ids than the in-memory serialisation".to_string());
                            return;
                        }
                        let g = infra!(c, git_merge_bases(&world.git, &ids, q), "git merge-base (arbitration)");
                        if g != want {
                            c.infra(format!(
                                "MODEL-BUG: {} on {}: git {} model {}",
                                show_query(q),
                                show_dag(&dag),
                                show_set(&g),
                                show_set(&want)
                            ));
                            return;
                        }
                    }
                    // (C46_NO_ARBITRATION: developer aid for minimising under heavy machine load, never set by ./check)
                    let msg = format!(
                        "{} (in-memory store, no commit-graph): git {} gitoxide {}; DAG: {}",
                        show_query(q),
                        show_set(&want),
                        show_set(&got),
                        show_dag(&dag)
                    );
                    if deferred.0.is_some() && sig == "redundant-merge-base-returned" {
                        continue;
                    }
                    if deferred.report(c, sig, msg) {
                        return;
                    }
                }
            }
            deferred.finish(c);
        },
    );

    ck.sub(
        "dag-queries",
        SubCfg::new(400, 8_000).max_len(2000).max_shrink(40),
        |t, c| {
            let dag = gen_dag(t, false);
            let anc = dag.ancestors();
            let n = dag.len();
            let graph_kind = match t.weighted(&[3, 3, 2, 2]) {
                0 => GraphKind::FullV1,
                1 => GraphKind::FullV2,
                2 => GraphKind::Partial(t.below(n)),
                _ => GraphKind::Chain(t.below(n)),
            };
            let recheck_git_with_graph = t.chance(40);
            let mut git_queries = Vec::new();
            for _ in 0..25 {
                git_queries.push(gen_query(t, &dag, &anc));
            }
            let mut model_queries = Vec::new();
            for _ in 0..60 {
                model_queries.push(gen_query(t, &dag, &anc));
            }
            c.key(&(&dag, &git_queries, &model_queries, graph_kind));
            c.label(dag.time_mode);
            c.label(match graph_kind {
                GraphKind::FullV1 => "graph-full-v1",
                GraphKind::FullV2 => "graph-full-v2",
                GraphKind::Partial(_) => "graph-partial",
                GraphKind::Chain(_) => "graph-chain",
            });
            let roots = dag.parents.iter().filter(|p| p.is_empty()).count();
            c.label_if(roots > 1, "multiple-roots");
            c.label_if(dag.parents.iter().any(|p| p.len() > 2), "octopus");
            let mut multi = 0;
            let mut none = 0;
            for q in git_queries.iter().chain(model_queries.iter()) {
                let m = model_merge_bases(&anc, q.first, &q.others);
                if m.len() >= 2 {
                    multi += 1;
                }
                if m.is_empty() {
                    none += 1;
                }
            }
            c.label_if(multi > 0, "query-with-multiple-bases");
            c.label_if(none > 0, "query-without-base");
            c.label_if(git_queries.iter().any(|q| q.others.len() > 1), "query-with-several-others");
            c.nontrivial(multi > 0 || dag.time_mode != "increasing");
            c.sample_with(|| format!("{} | {:?} | first query {}", show_dag(&dag), graph_kind, show_query(&git_queries[0])));

            let world = infra!(c, FastWorld::new("c46"), "world");
            let ids = infra!(c, import(&world, &dag), "fast-import");

            // git's answers (no commit-graph file yet); they also validate the model
            let mut expected: Vec<(Query, BTreeSet<usize>)> = Vec::new();
            for q in &git_queries {
                let g = infra!(c, git_merge_bases(&world.git, &ids, q), "git merge-base");
                let m = model_merge_bases(&anc, q.first, &q.others);
                if g != m {
                    c.infra(format!(
                        "MODEL-BUG: {} on {}: git {} model {}",
                        show_query(q),
                        show_dag(&dag),
                        show_set(&g),
                        show_set(&m)
                    ));
                    return;
                }
                expected.push((q.clone(), g));
            }

            let odb = infra!(c, gix_odb::at(world.repo().join("objects")), "open object database");
            let mut deferred = Deferred(None);
            for with_graph in [false, true] {
                if with_graph {
                    infra!(c, write_commit_graph(&world, &ids, graph_kind), "git commit-graph write");
                }
                let cache = if with_graph {
                    Some(infra!(c, gix_commitgraph::at(world.repo().join("objects").join("info")), "open commit-graph"))
                } else {
                    None
                };
                let state = if with_graph { "with commit-graph" } else { "without commit-graph" };
                let mut graph: MbGraph<'_, '_> = gix_revision::Graph::new(&odb, cache.as_ref());
                for (q, want) in &expected {
                    let got = match gix_merge_bases(&mut graph, &ids, q) {
                        Ok(Ok(s)) => s,
                        Ok(Err(malformed)) => {
                            c.fail_sig("malformed-result", format!("{} {state}: {malformed}; DAG: {}", show_query(q), show_dag(&dag)));
                            return;
                        }
                        Err(e) => {
                            c.fail(format!("{} {state}: gix_revision::merge_base failed: {e}", show_query(q)));
                            return;
                        }
                    };
                    if &got != want {
                        let msg = format!(
                            "{} {state} ({graph_kind:?}): git {} gitoxide {}; DAG: {}",
                            show_query(q),
                            show_set(want),
                            show_set(&got),
                            show_dag(&dag)
                        );
                        if deferred.report(c, classify(want, &got), msg) {
                            return;
                        }
                    }
                }
                for q in &model_queries {
                    let want = model_merge_bases(&anc, q.first, &q.others);
                    let got = match gix_merge_bases(&mut graph, &ids, q) {
                        Ok(Ok(s)) => s,
                        Ok(Err(malformed)) => {
                            c.fail_sig("malformed-result", format!("{} {state}: {malformed}; DAG: {}", show_query(q), show_dag(&dag)));
                            return;
                        }
                        Err(e) => {
                            c.fail(format!("{} {state}: gix_revision::merge_base failed: {e}", show_query(q)));
                            return;
                        }
                    };
                    if got != want {
                        let sig = classify(&want, &got);
                        if sig == "redundant-merge-base-returned" && deferred.0.is_some() {
                            continue;
                        }
                        // ask git before believing the model
                        let g = infra!(c, git_merge_bases(&world.git, &ids, q), "git merge-base (arbitration)");
                        if g != want {
                            c.infra(format!("MODEL-BUG: {}: git {} model {}", show_query(q), show_set(&g), show_set(&want)));
                            return;
                        }
                        let msg = format!(
                            "{} {state} ({graph_kind:?}): git {} gitoxide {}; DAG: {}",
                            show_query(q),
                            show_set(&g),
                            show_set(&got),
                            show_dag(&dag)
                        );
                        if deferred.report(c, sig, msg) {
                            return;
                        }
                    }
                }
                // a fresh graph per query must give the same answers as the reused one (first few queries)
                for (q, want) in expected.iter().take(5) {
                    let mut fresh: MbGraph<'_, '_> = gix_revision::Graph::new(&odb, cache.as_ref());
                    match gix_merge_bases(&mut fresh, &ids, q) {
                        Ok(Ok(got)) => {
                            if &got != want {
                                let msg = format!(
                                    "{} {state} with a fresh graph: git {} gitoxide {}; DAG: {}",
                                    show_query(q),
                                    show_set(want),
                                    show_set(&got),
                                    show_dag(&dag)
                                );
                                if deferred.report(c, classify(want, &got), msg) {
                                    return;
                                }
                            }
                        }
                        other => {
                            c.fail(format!("{} {state} with a fresh graph: {other:?}", show_query(q)));
                            return;
                        }
                    }
                }
                if with_graph && recheck_git_with_graph {
                    c.label("oracle-rechecked-with-commit-graph");
                    for (q, want) in expected.iter().take(8) {
                        let g = infra!(c, git_merge_bases(&world.git, &ids, q), "git merge-base");
                        if &g != want {
                            c.infra(format!("git changes its answer for {} when a commit-graph is present", show_query(q)));
                            return;
                        }
                    }
                }
            }

            // the high-level entry points (commit-graph present and enabled by default)
            let repo = infra!(
                c,
                gix::open_opts(world.repo(), gix::open::Options::isolated()),
                "open repository"
            );
            let cache = infra!(c, repo.commit_graph_if_enabled(), "commit_graph_if_enabled");
            ensure!(c, cache.is_some(), "Repository::commit_graph_if_enabled() does not find the commit-graph git wrote");
            let mut graph = repo.revision_graph(cache.as_ref());
            for (q, want) in expected.iter().take(10) {
                let others: Vec<ObjectId> = q.others.iter().map(|o| ids[*o]).collect();
                match repo.merge_bases_many_with_graph(ids[q.first], &others, &mut graph) {
                    Ok(list) => {
                        let got: BTreeSet<usize> = list
                            .iter()
                            .filter_map(|id| ids.iter().position(|i| *i == id.detach()))
                            .collect();
                        if &got != want || got.len() != list.len() {
                            let msg = format!(
                                "Repository::merge_bases_many_with_graph {}: git {} gitoxide {:?}; DAG: {}",
                                show_query(q),
                                show_set(want),
                                list.iter().map(|i| i.detach().to_string()).collect::<Vec<_>>(),
                                show_dag(&dag)
                            );
                            let sig = if got.len() != list.len() { "malformed-result" } else { classify(want, &got) };
                            if deferred.report(c, sig, msg) {
                                return;
                            }
                        }
                    }
                    Err(e) => {
                        c.fail(format!("Repository::merge_bases_many_with_graph {} failed: {e}", show_query(q)));
                        return;
                    }
                }
                if q.others.len() == 1 {
                    match repo.merge_base(ids[q.first], others[0]) {
                        Ok(id) => {
                            let idx = ids.iter().position(|i| *i == id.detach());
                            if !idx.map_or(false, |i| want.contains(&i)) {
                                let msg = format!(
                                    "Repository::merge_base {}: {} is not among git's merge bases {}; DAG: {}",
                                    show_query(q),
                                    id.detach(),
                                    show_set(want),
                                    show_dag(&dag)
                                );
                                // an ancestor of a true merge base: the redundant-result class
                                let redundant = idx.map_or(false, |i| want.iter().any(|w| anc[*w] & (1u128 << i) != 0));
                                let sig = if redundant { "redundant-merge-base-returned" } else { "merge-base-wrong" };
                                if deferred.report(c, sig, msg) {
                                    return;
                                }
                            }
                        }
                        Err(e) => ensure_sig!(
                            c,
                            "merge-base-missing",
                            want.is_empty(),
                            "Repository::merge_base {} failed ({e}) although git finds {}; DAG: {}",
                            show_query(q),
                            show_set(want),
                            show_dag(&dag)
                        ),
                    }
                }
            }
            deferred.finish(c);
        },
    );

    ck.finish();
}
