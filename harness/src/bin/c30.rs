//! C30 — ref advertisements are understood exactly (gix + gix-protocol over the file transport against `git upload-pack`).
//!
//! One case = one generated bare server repository (branches, lightweight/annotated/nested tags, tags of blobs,
//! symbolic refs incl. chains and dangling ones, refs outside heads/tags, HEAD attached/detached/unborn/exotic),
//! queried with protocol.version 0, 1 and 2. The expected advertisement is derived from the server with
//! `git for-each-ref`, `git symbolic-ref HEAD`, `git rev-parse HEAD` and `git cat-file --batch-check` (types and full
//! peeling), and cross-validated against `git ls-remote --symref` (a disagreement there is a harness error, exit 2).
use bstr::{BString, ByteSlice, ByteVec};
use gix::remote::Direction;
use gix_protocol::handshake::Ref;
use gix_protocol::transport::Protocol;
use std::collections::{BTreeMap, BTreeSet};
use std::ffi::OsString;
use std::os::unix::ffi::OsStringExt;
use std::path::Path;
use vp::*;

type Oid = gix_hash::ObjectId;

/// Make the environment inherited by `git-upload-pack` (spawned by gitoxide's file transport) hermetic.
/// Called exactly once, first thing in `main`, before any thread exists.
fn hermetic_env() {
    let drop: Vec<OsString> = std::env::vars_os()
        .map(|(k, _)| k)
        .filter(|k| {
            let k = k.to_string_lossy();
            k.starts_with("GIT_") || k.starts_with("XDG_") || k == "SSH_ASKPASS" || k == "EMAIL"
        })
        .collect();
    for k in drop {
        std::env::remove_var(k);
    }
    let home = vp::git::scratch_root().join("home-c30");
    let _ = std::fs::create_dir_all(&home);
    std::env::set_var("HOME", &home);
    std::env::set_var("PATH", "/usr/local/bin:/usr/bin:/bin");
    std::env::set_var("GIT_CONFIG_NOSYSTEM", "1");
    std::env::set_var("GIT_CONFIG_GLOBAL", "/dev/null");
    std::env::set_var("GIT_TERMINAL_PROMPT", "0");
    std::env::set_var("LC_ALL", "C");
    std::env::set_var("TZ", "UTC");
}

// ------------------------------------------------------------------------------------------------
// server description (decoded from the tape)

#[derive(Debug, Clone, Hash, PartialEq, Eq)]
enum Target {
    /// commit number
    Commit(usize),
    /// the single blob
    Blob,
    /// annotated tag object number
    TagObj(usize),
}

#[derive(Debug, Clone, Hash, PartialEq, Eq)]
enum RefKind {
    Direct(Target),
    /// symbolic ref to the given full name (may dangle, may be another symref)
    Sym(BString),
}

#[derive(Debug, Clone, Hash, PartialEq, Eq)]
enum HeadMode {
    /// leave what `git init` wrote: `ref: refs/heads/main`
    Default,
    Attached(BString),
    DetachedAt(Target),
}

#[derive(Debug, Clone, Hash, PartialEq, Eq)]
struct Server {
    /// parents of each commit (indices of earlier commits)
    commits: Vec<Vec<usize>>,
    /// annotated tag objects: what each points at (TagObj(i) only with i < own index)
    tag_objs: Vec<Target>,
    refs: Vec<(BString, RefKind)>,
    head: HeadMode,
    pack_refs: bool,
}

const PLAIN: &[&[u8]] = &[b"a", b"b", b"m", b"x", b"1", b"-", b"v", b"0"];
const PUNCT: &[&[u8]] = &[
    b".", b"+", b"@", b"#", b"%", b"=", b",", b"!", b"'", b"\"", b"$", b"&", b"(", b")", b";", b"<", b">", b"|", b"{",
    b"}", b"`", b"_",
];
/// multi-byte and non-UTF-8 content; the first three are Unicode white space
const EXOTIC: &[&[u8]] = &[
    "\u{a0}".as_bytes(),
    "\u{2003}".as_bytes(),
    "\u{85}".as_bytes(),
    "é".as_bytes(),
    "日".as_bytes(),
    b"\xff",
    b"\x80",
];
const UNICODE_WS: &[&[u8]] = &["\u{a0}".as_bytes(), "\u{2003}".as_bytes(), "\u{85}".as_bytes(), "\u{2028}".as_bytes()];

fn component(t: &mut Tape, exotic: bool) -> Vec<u8> {
    let n = t.range(1, 4);
    let mut v = Vec::new();
    for _ in 0..n {
        let class = if exotic { t.weighted(&[6, 2, 2]) } else { t.weighted(&[7, 2, 0]) };
        let s: &[u8] = match class {
            0 => *t.pick(PLAIN),
            1 => *t.pick(PUNCT),
            _ => *t.pick(EXOTIC),
        };
        v.extend_from_slice(s);
    }
    v
}

/// git's check-ref-format rules for what our alphabets can produce
fn valid_name(name: &[u8]) -> bool {
    if name.ends_with(b".") || name.ends_with(b"/") || name.find(b"..").is_some() || name.find(b"@{").is_some() {
        return false;
    }
    name.split(|b| *b == b'/')
        .all(|c| !c.is_empty() && !c.starts_with(b".") && !c.ends_with(b".lock"))
}

const NAMESPACES: &[&[u8]] = &[
    b"refs/heads/",
    b"refs/tags/",
    b"refs/remotes/o/",
    b"refs/notes/",
    b"refs/pull/1/",
    b"refs/x/",
    b"refs/",
];

fn ends_in_unicode_ws(name: &[u8]) -> bool {
    UNICODE_WS.iter().any(|w| name.ends_with(w))
}

fn trim_unicode_ws(mut name: &[u8]) -> &[u8] {
    while let Some(w) = UNICODE_WS.iter().find(|w| name.ends_with(w)) {
        name = &name[..name.len() - w.len()];
    }
    name
}

/// `exotic`: 0 = plain and punctuation, 1 = also multi-byte/non-UTF-8, 2 = additionally names may END in Unicode white space
fn ref_name(t: &mut Tape, exotic: u8, ns: Option<&[u8]>) -> Option<BString> {
    let ns = match ns {
        Some(ns) => ns,
        None => NAMESPACES[t.weighted(&[8, 8, 3, 1, 2, 2, 1])],
    };
    let mut name = ns.to_vec();
    let ncomp = t.weighted(&[6, 3, 1]) + 1;
    for i in 0..ncomp {
        if i > 0 {
            name.push(b'/');
        }
        name.extend(component(t, exotic > 0));
        if exotic < 2 && ends_in_unicode_ws(&name) {
            name.push(b'a');
        }
    }
    if exotic == 2 && t.chance(64) {
        name.extend_from_slice(*t.pick(UNICODE_WS));
    }
    // `refs/<one-level>` must not look like a namespace directory we use, and HEAD-like names are reserved for HEAD
    if !valid_name(&name) || name.ends_with(b"HEAD") {
        return None;
    }
    Some(name.into())
}

/// true if `a` and `b` cannot both exist as files (one is a directory prefix of the other) or are equal
fn df_conflict(a: &[u8], b: &[u8]) -> bool {
    let (s, l) = if a.len() <= b.len() { (a, b) } else { (b, a) };
    l.starts_with(s) && (l.len() == s.len() || l[s.len()] == b'/')
}

fn gen_target(t: &mut Tape, s: &Server) -> Target {
    match t.weighted(&[6, 1, if s.tag_objs.is_empty() { 0 } else { 3 }]) {
        0 => Target::Commit(t.below(s.commits.len())),
        1 => Target::Blob,
        _ => Target::TagObj(t.below(s.tag_objs.len())),
    }
}

fn gen_server(t: &mut Tape, c: &mut Case) -> Server {
    let mut s = Server {
        commits: vec![],
        tag_objs: vec![],
        refs: vec![],
        head: HeadMode::Default,
        pack_refs: false,
    };
    // 1 in 10: a completely empty repository (HEAD handling only)
    let empty = t.chance(26);
    let exotic = t.weighted(&[40, 6, 3]) as u8;
    c.label_if(exotic > 0, "exotic-names");
    if !empty {
        let ncommits = t.range(1, 5);
        for i in 0..ncommits {
            let mut parents = Vec::new();
            if i > 0 {
                match t.weighted(&[1, 5, 2]) {
                    0 => {}
                    1 => parents.push(t.below(i)),
                    _ => {
                        parents.push(t.below(i));
                        let p = t.below(i);
                        if !parents.contains(&p) {
                            parents.push(p);
                        }
                    }
                }
            }
            s.commits.push(parents);
        }
        let ntags = t.weighted(&[3, 3, 2, 2, 1]);
        for i in 0..ntags {
            // nested tags with probability ~1/3 once a tag exists
            let target = if i > 0 && t.chance(90) {
                Target::TagObj(t.below(i))
            } else if t.chance(40) {
                Target::Blob
            } else {
                Target::Commit(t.below(s.commits.len()))
            };
            s.tag_objs.push(target);
        }
        let nrefs = match t.weighted(&[1, 6, 3, 1]) {
            0 => 0,
            1 => t.range(1, 6),
            2 => t.range(7, 16),
            _ => t.range(17, 30),
        };
        for _ in 0..nrefs {
            let is_sym = t.chance(50);
            let Some(name) = ref_name(t, exotic, None) else { continue };
            if s.refs.iter().any(|(n, _)| df_conflict(n, &name)) {
                continue;
            }
            let kind = if is_sym {
                // target: an existing ref (possibly itself a symref), or a fresh (dangling) name
                let live: Vec<&BString> = s.refs.iter().map(|(n, _)| n).collect();
                if !live.is_empty() && t.chance(215) {
                    RefKind::Sym((*t.pick(&live)).clone())
                } else {
                    match ref_name(t, 0, Some(b"refs/heads/")) {
                        Some(n) if !s.refs.iter().any(|(e, _)| df_conflict(e, &n)) && !df_conflict(&n, &name) => {
                            RefKind::Sym(n)
                        }
                        _ => continue,
                    }
                }
            } else {
                let mut target = gen_target(t, &s);
                // git refuses to store anything but commits under refs/heads/
                if name.starts_with(b"refs/heads/") && !matches!(target, Target::Commit(_)) {
                    target = Target::Commit(0);
                }
                // tags mostly point to tag objects when there are some
                if name.starts_with(b"refs/tags/") && !s.tag_objs.is_empty() && t.chance(128) {
                    target = Target::TagObj(t.below(s.tag_objs.len()));
                }
                RefKind::Direct(target)
            };
            s.refs.push((name, kind));
        }
        s.pack_refs = t.chance(64);
    }
    // HEAD
    let branches: Vec<BString> = s
        .refs
        .iter()
        .filter(|(n, k)| n.starts_with(b"refs/heads/") && matches!(k, RefKind::Direct(_)))
        .map(|(n, _)| n.clone())
        .collect();
    let symrefs: Vec<BString> = s
        .refs
        .iter()
        .filter(|(_, k)| matches!(k, RefKind::Sym(_)))
        .map(|(n, _)| n.clone())
        .collect();
    let tagrefs: Vec<BString> = s
        .refs
        .iter()
        .filter(|(_, k)| matches!(k, RefKind::Direct(Target::TagObj(_))))
        .map(|(n, _)| n.clone())
        .collect();
    let others: Vec<BString> = s
        .refs
        .iter()
        .filter(|(n, _)| !n.starts_with(b"refs/heads/"))
        .map(|(n, _)| n.clone())
        .collect();
    let mode = t.weighted(&[
        if branches.is_empty() { 0 } else { 8 },
        3, // unborn, fresh name
        1, // default (refs/heads/main; born only if that exists)
        if s.commits.is_empty() { 0 } else { 3 },
        0, // (detached at a tag object: git itself refuses to create that state)
        if symrefs.is_empty() { 0 } else { 3 },
        if tagrefs.is_empty() { 0 } else { 2 },
        if others.is_empty() { 0 } else { 1 },
    ]);
    s.head = match mode {
        0 => HeadMode::Attached(t.pick(&branches).clone()),
        1 => match ref_name(t, 0, Some(b"refs/heads/")) {
            Some(n) if !s.refs.iter().any(|(e, _)| df_conflict(e, &n)) => HeadMode::Attached(n),
            _ => HeadMode::Default,
        },
        2 => HeadMode::Default,
        3 => HeadMode::DetachedAt(Target::Commit(t.below(s.commits.len()))),
        4 => HeadMode::DetachedAt(Target::TagObj(t.below(s.tag_objs.len()))),
        5 => HeadMode::Attached(t.pick(&symrefs).clone()),
        6 => HeadMode::Attached(t.pick(&tagrefs).clone()),
        _ => HeadMode::Attached(t.pick(&others).clone()),
    };
    s
}

// ------------------------------------------------------------------------------------------------
// building the server with git, and asking git for the truth

fn os(b: &[u8]) -> OsString {
    OsString::from_vec(b.to_vec())
}

struct Built {
    world: World,
    client: std::path::PathBuf,
}

fn build_server(s: &Server) -> Result<Built, String> {
    let world = World::new("c30", true)?;
    let git = &world.git;
    let marks_path = world.scratch.join("marks");
    let mut ids: BTreeMap<usize, String> = BTreeMap::new();
    if !s.commits.is_empty() {
        // marks: 1 = blob, 10+i = commit i, 1000+i = tag object i
        let mut fi = Vec::new();
        fi.push_str("blob\nmark :1\ndata 5\nhello\n");
        for (i, parents) in s.commits.iter().enumerate() {
            fi.push_str(format!("reset refs/tmp/w\ncommit refs/tmp/w\nmark :{}\n", 10 + i));
            fi.push_str(format!("committer C <c@example.com> {} +0000\n", 1_000_000_000 + i * 100));
            let msg = format!("c{i}");
            fi.push_str(format!("data {}\n{}\n", msg.len(), msg));
            for (k, p) in parents.iter().enumerate() {
                fi.push_str(format!("{} :{}\n", if k == 0 { "from" } else { "merge" }, 10 + p));
            }
            fi.push_str(format!("M 100644 :1 f{i}\n"));
        }
        for (i, target) in s.tag_objs.iter().enumerate() {
            let from = match target {
                Target::Commit(n) => 10 + n,
                Target::Blob => 1,
                Target::TagObj(n) => 1000 + n,
            };
            fi.push_str(format!(
                "tag __t{i}\nmark :{}\nfrom :{from}\ntagger T <t@example.com> {} +0000\ndata 2\nt\n\n",
                1000 + i,
                1_100_000_000 + i
            ));
        }
        git.run_in(
            [
                OsString::from("fast-import"),
                OsString::from("--quiet"),
                OsString::from("--date-format=raw"),
                OsString::from(format!("--export-marks={}", marks_path.display())),
            ],
            Some(&fi),
        )?;
        let marks = std::fs::read_to_string(&marks_path).map_err(|e| format!("read marks: {e}"))?;
        for line in marks.lines() {
            let (m, id) = line.split_once(' ').ok_or("bad marks line")?;
            ids.insert(m.trim_start_matches(':').parse().map_err(|_| "bad mark")?, id.to_string());
        }
    }
    let id_of = |t: &Target| -> Result<&str, String> {
        let m = match t {
            Target::Commit(n) => 10 + n,
            Target::Blob => 1,
            Target::TagObj(n) => 1000 + n,
        };
        ids.get(&m).map(|s| s.as_str()).ok_or_else(|| format!("mark {m} missing"))
    };
    // direct refs (and removal of fast-import's helper refs) in one transaction
    let mut upd = Vec::new();
    for (name, kind) in &s.refs {
        if let RefKind::Direct(t) = kind {
            upd.extend_from_slice(b"create ");
            upd.extend_from_slice(name);
            upd.push(0);
            upd.extend_from_slice(id_of(t)?.as_bytes());
            upd.push(0);
        }
    }
    if !s.commits.is_empty() {
        upd.extend_from_slice(b"delete refs/tmp/w\0\0");
    }
    for i in 0..s.tag_objs.len() {
        upd.extend_from_slice(format!("delete refs/tags/__t{i}\0\0").as_bytes());
    }
    if !upd.is_empty() {
        git.run_in(["update-ref", "-z", "--stdin"], Some(&upd))?;
    }
    for (name, kind) in &s.refs {
        if let RefKind::Sym(target) = kind {
            git.run([OsString::from("symbolic-ref"), os(name), os(target)])?;
        }
    }
    if s.pack_refs {
        git.run(["pack-refs", "--all"])?;
    }
    match &s.head {
        HeadMode::Default => {}
        HeadMode::Attached(name) => {
            git.run([OsString::from("symbolic-ref"), OsString::from("HEAD"), os(name)])?;
        }
        HeadMode::DetachedAt(t) => {
            git.run(["update-ref", "--no-deref", "HEAD", id_of(t)?])?;
        }
    }
    let client = world.scratch.join("client");
    std::fs::create_dir_all(&client).map_err(|e| e.to_string())?;
    git.at(&client).run(["init", "-q", "--bare", "."])?;
    Ok(Built { world, client })
}

/// What git says the server has.
#[derive(Debug, Clone)]
struct Truth {
    /// refname -> (oid, peeled-if-tag, final symref target)
    refs: BTreeMap<BString, (Oid, Option<Oid>, Option<BString>)>,
    /// final target if HEAD is symbolic
    head_sym: Option<BString>,
    /// (oid, peeled) if HEAD resolves
    head: Option<(Oid, Option<Oid>)>,
}

/// remove exactly the trailing LF git prints (NOT `trim_end()`: ref names may end in Unicode white space)
fn strip_lf(b: &[u8]) -> &[u8] {
    b.strip_suffix(b"\n").unwrap_or(b)
}

fn oid(hex: &[u8]) -> Result<Oid, String> {
    Oid::from_hex(hex).map_err(|e| format!("bad oid {:?}: {e}", hex.as_bstr()))
}

fn truth(git: &Git) -> Result<Truth, String> {
    let out = git.run([
        "for-each-ref",
        "--format=%(refname)%00%(objectname)%00%(objecttype)%00%(symref)",
    ])?;
    let mut raw: Vec<(BString, Oid, bool, Option<BString>)> = Vec::new();
    for line in out.split(|b| *b == b'\n').filter(|l| !l.is_empty()) {
        let f: Vec<&[u8]> = line.split(|b| *b == 0).collect();
        if f.len() != 4 {
            return Err(format!("unexpected for-each-ref line {:?}", line.as_bstr()));
        }
        raw.push((
            f[0].into(),
            oid(f[1])?,
            f[2] == b"tag",
            (!f[3].is_empty()).then(|| f[3].into()),
        ));
    }
    let symmap: BTreeMap<BString, BString> = raw
        .iter()
        .filter_map(|(n, _, _, s)| s.clone().map(|s| (n.clone(), s)))
        .collect();
    let follow = |mut name: BString| -> BString {
        for _ in 0..10 {
            match symmap.get(&name) {
                Some(n) => name = n.clone(),
                None => break,
            }
        }
        name
    };
    let (is_sym, sym_out, _) = git.try_run(["symbolic-ref", "-q", "HEAD"], None)?;
    let head_sym: Option<BString> = is_sym.then(|| follow(strip_lf(&sym_out).into()));
    let (has_head, head_out, _) = git.try_run(["rev-parse", "-q", "--verify", "HEAD"], None)?;
    let head_oid = if has_head { Some(oid(strip_lf(&head_out))?) } else { None };
    // types and full peeling in one batch
    let mut query = Vec::new();
    let mut asked: Vec<Oid> = Vec::new();
    for (_, id, is_tag, _) in &raw {
        if *is_tag && !asked.contains(id) {
            asked.push(*id);
        }
    }
    if let Some(h) = head_oid {
        if !asked.contains(&h) {
            asked.push(h);
        }
    }
    for id in &asked {
        query.push_str(format!("{id}\n{id}^{{}}\n"));
    }
    let mut peeled: BTreeMap<Oid, Oid> = BTreeMap::new();
    if !asked.is_empty() {
        let out = git.run_in(["cat-file", "--batch-check=%(objectname) %(objecttype)"], Some(&query))?;
        let lines: Vec<&[u8]> = out.split(|b| *b == b'\n').filter(|l| !l.is_empty()).collect();
        if lines.len() != asked.len() * 2 {
            return Err(format!("cat-file answered {} lines for {} queries", lines.len(), asked.len() * 2));
        }
        for (i, id) in asked.iter().enumerate() {
            let own = lines[2 * i];
            let pl = lines[2 * i + 1];
            if own.ends_with(b" tag") {
                let hex = pl.split(|b| *b == b' ').next().unwrap_or_default();
                peeled.insert(*id, oid(hex)?);
            }
        }
    }
    let refs = raw
        .into_iter()
        .map(|(n, id, is_tag, sym)| {
            let p = if is_tag { peeled.get(&id).copied() } else { None };
            (n, (id, p, sym.map(&follow)))
        })
        .collect();
    Ok(Truth {
        refs,
        head_sym,
        head: head_oid.map(|h| (h, peeled.get(&h).copied())),
    })
}

fn mk(name: &[u8], id: Oid, peeled: Option<Oid>, sym: Option<&BString>) -> Ref {
    match (sym, peeled) {
        (Some(target), p) => Ref::Symbolic {
            full_ref_name: name.into(),
            target: target.clone(),
            tag: p.map(|_| id),
            object: p.unwrap_or(id),
        },
        (None, Some(p)) => Ref::Peeled {
            full_ref_name: name.into(),
            tag: id,
            object: p,
        },
        (None, None) => Ref::Direct {
            full_ref_name: name.into(),
            object: id,
        },
    }
}

#[derive(Clone, Copy, Debug)]
struct LsArgs {
    symrefs: bool,
    peel: bool,
    unborn: bool,
}

impl Truth {
    /// protocol v0/v1: HEAD first if it resolves (symbolic only through the `symref=HEAD:` capability), every other
    /// ref by value.
    fn expected_v1(&self) -> Vec<Ref> {
        let mut out = Vec::new();
        if let Some((id, p)) = self.head {
            out.push(mk(b"HEAD", id, p, self.head_sym.as_ref()));
        }
        for (n, (id, p, _)) in &self.refs {
            out.push(mk(n, *id, *p, None));
        }
        out.sort();
        out
    }
    /// protocol v2 `ls-refs` with the given arguments and ref-prefixes
    fn expected_v2(&self, args: LsArgs, prefixes: &[BString]) -> Vec<Ref> {
        let matches = |n: &[u8]| prefixes.is_empty() || prefixes.iter().any(|p| n.starts_with(p));
        let mut out = Vec::new();
        if matches(b"HEAD") {
            match self.head {
                Some((id, p)) => out.push(mk(
                    b"HEAD",
                    id,
                    p.filter(|_| args.peel),
                    self.head_sym.as_ref().filter(|_| args.symrefs),
                )),
                None => {
                    if let (Some(t), true, true) = (&self.head_sym, args.unborn, args.symrefs) {
                        out.push(Ref::Unborn {
                            full_ref_name: "HEAD".into(),
                            target: t.clone(),
                        });
                    }
                }
            }
        }
        for (n, (id, p, sym)) in &self.refs {
            if matches(n) {
                out.push(mk(n, *id, p.filter(|_| args.peel), sym.as_ref().filter(|_| args.symrefs)));
            }
        }
        out.sort();
        out
    }
}

/// Second opinion for the oracle itself: what git's own client understands of the advertisement.
fn validate_against_ls_remote(git: &Git, url: &str, truth: &Truth) -> Result<(), String> {
    for version in ["0", "2"] {
        let out = git
            .clone()
            .cfg(&format!("protocol.version={version}"))
            .run(["ls-remote", "--symref", url])?;
        let mut seen: BTreeMap<BString, Oid> = BTreeMap::new();
        let mut seen_peeled: BTreeMap<BString, Oid> = BTreeMap::new();
        let mut seen_sym: BTreeMap<BString, BString> = BTreeMap::new();
        for line in out.split(|b| *b == b'\n').filter(|l| !l.is_empty()) {
            let (a, b) = line
                .split_once_str("\t")
                .ok_or_else(|| format!("bad ls-remote line {:?}", line.as_bstr()))?;
            if let Some(target) = a.strip_prefix(b"ref: ") {
                seen_sym.insert(b.into(), target.into());
            } else if let Some(base) = b.strip_suffix(b"^{}") {
                seen_peeled.insert(base.into(), oid(a)?);
            } else {
                seen.insert(b.into(), oid(a)?);
            }
        }
        let exp = if version == "0" {
            truth.expected_v1()
        } else {
            truth.expected_v2(
                LsArgs {
                    symrefs: true,
                    peel: true,
                    unborn: false,
                },
                &[],
            )
        };
        let mut e: BTreeMap<BString, Oid> = BTreeMap::new();
        let mut ep: BTreeMap<BString, Oid> = BTreeMap::new();
        let mut es: BTreeMap<BString, BString> = BTreeMap::new();
        for r in &exp {
            let (name, id, peeled) = r.unpack();
            if let Some(id) = id {
                e.insert(name.to_owned(), id.to_owned());
            }
            if let Some(p) = peeled {
                ep.insert(name.to_owned(), p.to_owned());
            }
            if let Ref::Symbolic {
                full_ref_name, target, ..
            } = r
            {
                es.insert(full_ref_name.clone(), target.clone());
            }
        }
        if e != seen || ep != seen_peeled || es != seen_sym {
            return Err(format!(
                "MODEL-BUG: expectation derived from for-each-ref disagrees with `git ls-remote --symref` (protocol {version}): expected {exp:?}, ls-remote printed {:?}",
                out.as_bstr()
            ));
        }
    }
    Ok(())
}

fn labels(s: &Server, c: &mut Case) {
    let has_annotated = s
        .refs
        .iter()
        .any(|(_, k)| matches!(k, RefKind::Direct(Target::TagObj(_))));
    let nested = s.refs.iter().any(
        |(_, k)| matches!(k, RefKind::Direct(Target::TagObj(i)) if matches!(s.tag_objs[*i], Target::TagObj(_))),
    );
    let blob_tag = s.refs.iter().any(|(_, k)| match k {
        RefKind::Direct(Target::Blob) => true,
        RefKind::Direct(Target::TagObj(i)) => matches!(s.tag_objs[*i], Target::Blob),
        _ => false,
    });
    let names: BTreeSet<&BString> = s.refs.iter().map(|(n, _)| n).collect();
    let live_sym = s
        .refs
        .iter()
        .any(|(_, k)| matches!(k, RefKind::Sym(t) if names.contains(t)));
    let dangling = s
        .refs
        .iter()
        .any(|(_, k)| matches!(k, RefKind::Sym(t) if !names.contains(t)));
    let chain = s.refs.iter().any(|(_, k)| {
        matches!(k, RefKind::Sym(t) if s.refs.iter().any(|(n, k2)| n == t && matches!(k2, RefKind::Sym(_))))
    });
    let sym_to_tag = s.refs.iter().any(|(_, k)| {
        matches!(k, RefKind::Sym(t) if s.refs.iter().any(|(n, k2)| n == t && matches!(k2, RefKind::Direct(Target::TagObj(_)))))
    });
    c.label_if(s.commits.is_empty(), "empty-repo");
    c.label_if(has_annotated, "annotated-tag");
    c.label_if(nested, "nested-annotated-tag");
    c.label_if(blob_tag, "tag-of-blob");
    c.label_if(live_sym, "symref-besides-HEAD");
    c.label_if(dangling, "dangling-symref");
    c.label_if(chain, "symref-chain");
    c.label_if(sym_to_tag, "symref-to-annotated-tag");
    c.label_if(s.pack_refs, "packed-refs");
    c.label_if(s.refs.len() >= 17, "many-refs");
    c.label_if(
        s.refs
            .iter()
            .any(|(n, _)| ends_in_unicode_ws(n)),
        "name-ends-in-unicode-whitespace",
    );
    c.label_if(s.refs.iter().any(|(n, _)| n.to_str().is_err()), "non-utf8-name");
    let head_kind = |n: &BString| s.refs.iter().find(|(e, _)| e == n).map(|(_, k)| k);
    let (head_label, unborn) = match &s.head {
        HeadMode::Default => match head_kind(&"refs/heads/main".into()) {
            Some(_) => ("head-attached", false),
            None => ("head-unborn", true),
        },
        HeadMode::Attached(n) => match head_kind(n) {
            None => ("head-unborn", true),
            Some(RefKind::Sym(t)) => {
                if names.contains(t) {
                    ("head-via-symref", false)
                } else {
                    ("head-unborn-via-dangling-symref", true)
                }
            }
            Some(RefKind::Direct(Target::TagObj(_))) => ("head-symbolic-to-annotated-tag", false),
            Some(RefKind::Direct(_)) => {
                if n.starts_with(b"refs/heads/") {
                    ("head-attached", false)
                } else {
                    ("head-attached-outside-heads", false)
                }
            }
        },
        HeadMode::DetachedAt(Target::TagObj(_)) => ("head-detached-at-tag-object", false),
        HeadMode::DetachedAt(_) => ("head-detached", false),
    };
    c.label(head_label);
    c.label_if(unborn && !s.refs.is_empty(), "unborn-with-other-refs");
    c.nontrivial((has_annotated && live_sym) || unborn);
}

fn describe(s: &Server) -> String {
    let mut out = format!(
        "commits(parents)={:?} tag_objs={:?} head={:?} pack_refs={} refs=[",
        s.commits, s.tag_objs, s.head, s.pack_refs
    );
    for (n, k) in &s.refs {
        out.push_str(&format!("{}={:?}; ", show(n), k));
    }
    out.push(']');
    out
}

fn diff(got: &[Ref], exp: &[Ref]) -> String {
    let g: BTreeSet<&Ref> = got.iter().collect();
    let e: BTreeSet<&Ref> = exp.iter().collect();
    let missing: Vec<_> = e.difference(&g).collect();
    let extra: Vec<_> = g.difference(&e).collect();
    format!(
        "missing-or-different (expected, not reported): {missing:?}; invented-or-different (reported, not expected): {extra:?}; reported {} refs, expected {}",
        got.len(),
        exp.len()
    )
}

/// Failure classes get a signature describing the *shape* of the server that triggers them, so that a different
/// misunderstanding of the advertisement is still reported.
fn classify(truth: &Truth, version: u8, err: Option<&str>, got_expected: Option<(&[Ref], &[Ref])>) -> &'static str {
    let head_sym_to_tag = truth.head_sym.is_some() && truth.head.map_or(false, |(_, p)| p.is_some());
    if version != 2 && head_sym_to_tag && err.map_or(false, |e| e.contains("peeled refs to be preceded by direct refs")) {
        return "v1-symbolic-HEAD-to-annotated-tag-rejected";
    }
    // names that end in Unicode white space are cut short by the line parsers (`trim_end()` instead of removing the LF)
    const WS_SIG: &str = "ref-name-trailing-unicode-whitespace-trimmed";
    let ws_tag = truth
        .refs
        .iter()
        .any(|(n, (_, peeled, _))| ends_in_unicode_ws(n) && peeled.is_some());
    if ws_tag && err.map_or(false, |e| e.contains("same base path as the previous, unpeeled one")) {
        return WS_SIG;
    }
    if let Some((got, expected)) = got_expected {
        let norm = |refs: &[Ref]| -> Vec<Ref> {
            let t = |n: &BString| -> BString { trim_unicode_ws(n).into() };
            let mut v: Vec<Ref> = refs
                .iter()
                .map(|r| match r {
                    Ref::Direct { full_ref_name, object } => Ref::Direct {
                        full_ref_name: t(full_ref_name),
                        object: *object,
                    },
                    Ref::Peeled {
                        full_ref_name,
                        tag,
                        object,
                    } => Ref::Peeled {
                        full_ref_name: t(full_ref_name),
                        tag: *tag,
                        object: *object,
                    },
                    Ref::Symbolic {
                        full_ref_name,
                        target,
                        tag,
                        object,
                    } => Ref::Symbolic {
                        full_ref_name: t(full_ref_name),
                        target: t(target),
                        tag: *tag,
                        object: *object,
                    },
                    Ref::Unborn { full_ref_name, target } => Ref::Unborn {
                        full_ref_name: t(full_ref_name),
                        target: t(target),
                    },
                })
                .collect();
            v.sort();
            v
        };
        if got != expected && norm(got) == norm(expected) {
            return WS_SIG;
        }
    }
    ""
}

fn open_client(path: &Path, version: u8) -> Result<gix::Repository, String> {
    gix::open_opts(
        path,
        gix::open::Options::isolated().config_overrides([format!("protocol.version={version}")]),
    )
    .map_err(|e| format!("open client repo: {e}"))
}

const SPEC_SETS: &[(&[&str], &[&str])] = &[
    (&["+refs/heads/*:refs/remotes/origin/*"], &[]),
    (&["+refs/heads/*:refs/remotes/origin/*"], &["HEAD:refs/remotes/origin/HEAD"]),
    (&["refs/tags/*:refs/tags/*"], &[]),
    (&["refs/heads/*:refs/a/*", "refs/remotes/*:refs/b/*"], &[]),
    (&["+refs/heads/*:refs/remotes/origin/*", "refs/notes/*:refs/notes/*"], &["refs/pull/*:refs/pr/*"]),
    (&["HEAD"], &[]),
    (&["refs/x/*:refs/x/*", "^refs/x/a"], &[]),
];

pub fn main() {
    hermetic_env();
    let mut ck = Check::new("C30", "exploration");
    ck.rule("Bare server repositories decoded from a byte tape: 0..5 commits (roots, linear, merges), 0..4 annotated tag objects (of commits, of a blob, nested), 0..30 refs under refs/{heads,tags,remotes/o,notes,pull/1,x} and one-level refs/<x> that are direct (commit/blob/tag object) or symbolic (to live refs, to other symrefs, dangling), optional pack-refs, HEAD attached / unborn (empty repo or with other refs, also through a dangling symref) / detached at a commit or tag object / symbolic to a symref, an annotated tag or a ref outside refs/heads; names over plain, punctuation and (16% of cases) multi-byte, non-UTF-8 and trailing-Unicode-white-space alphabets. Each is served by `git upload-pack` through gitoxide's file transport under protocol.version 0, 1 and 2. Non-trivial: the repository has an annotated tag and a live symbolic ref besides HEAD, or HEAD is unborn. Distinct by hash of the decoded server description and query parameters.");
    ck.assume(&format!("{} is the server and the oracle (for-each-ref, symbolic-ref, rev-parse, cat-file --batch-check; cross-validated per case against `git ls-remote --symref` with protocol 0 and 2)", Git::version()));
    ck.assume("v0/v1 can express a symbolic ref only for HEAD (symref=HEAD:<target> capability) and cannot express an unborn HEAD; gitoxide's file transport never requests a real `version 1` reply (documented deviation in gix-transport capabilities.rs), so protocol.version=1 is answered in v0 format");
    ck.assume("ref-prefixes sent by Connection::ref_map() are taken from gix_refspec::RefSpecRef::expand_prefixes of the same specs (their derivation belongs to C32); expected v2 output is the truth filtered by those prefixes");

    // gix level: Remote::connect(Fetch).ref_map()
    ck.sub("ref-map", SubCfg::new(240, 8_000).max_len(600).max_shrink(50), |t, c| {
        let server = gen_server(t, c);
        let set = t.below(SPEC_SETS.len());
        let filter = !t.chance(64);
        let tags = *t.pick(&[
            gix::remote::fetch::Tags::Included,
            gix::remote::fetch::Tags::All,
            gix::remote::fetch::Tags::None,
        ]);
        c.key(&(&server, set, filter, tags as u8 as usize));
        labels(&server, c);
        c.label_if(!filter, "no-prefix-filter");
        c.sample_with(|| format!("{} specs={:?} filter={filter} tags={tags:?}", describe(&server), SPEC_SETS[set]));
        let built = infra!(c, build_server(&server), "build server");
        let git = &built.world.git;
        let truth = infra!(c, truth(git), "truth");
        let url = format!("file://{}", built.world.repo().display());
        infra!(c, validate_against_ls_remote(git, &url, &truth), "oracle validation");
        let (specs, extra) = SPEC_SETS[set];
        for version in [0u8, 1, 2] {
            let repo = infra!(c, open_client(&built.client, version), "client");
            let remote = infra!(c, repo.remote_at(url.as_str()), "remote_at");
            let remote = infra!(c, remote.with_refspecs(specs.iter().copied(), Direction::Fetch), "refspecs")
                .with_fetch_tags(tags);
            let extra_refspecs: Vec<gix_refspec::RefSpec> = extra
                .iter()
                .map(|s| {
                    gix_refspec::parse((*s).into(), gix_refspec::parse::Operation::Fetch)
                        .expect("static spec")
                        .to_owned()
                })
                .collect();
            // the specs whose prefixes will be sent (as in ref_map_inner)
            let mut all_specs: Vec<gix_refspec::RefSpec> = remote.refspecs(Direction::Fetch).to_vec();
            all_specs.extend(extra_refspecs.iter().cloned());
            if let Some(ts) = tags.to_refspec() {
                if !extra_refspecs.iter().any(|s| s.to_ref() == ts) {
                    all_specs.push(ts.to_owned());
                }
            }
            let con = match remote.connect(Direction::Fetch) {
                Ok(con) => con,
                Err(e) => {
                    c.fail(format!("protocol.version={version}: connect failed: {e}"));
                    return;
                }
            };
            let res = con.ref_map(
                gix::progress::Discard,
                gix::remote::ref_map::Options {
                    prefix_from_spec_as_filter_on_remote: filter,
                    extra_refspecs,
                    ..Default::default()
                },
            );
            let map = match res {
                Ok(m) => m,
                Err(e) => {
                    let msg = error_chain(&e);
                    c.fail_sig(
                        classify(&truth, version, Some(&msg), None),
                        format!("protocol.version={version}: ref_map() failed: {msg}; server: {}", describe(&server)),
                    );
                    return;
                }
            };
            let expected = if version == 2 {
                ensure!(
                    c,
                    map.handshake.server_protocol_version == Protocol::V2,
                    "asked for v2, server_protocol_version is {:?}",
                    map.handshake.server_protocol_version
                );
                let mut prefixes = Vec::new();
                if filter {
                    let mut seen = std::collections::HashSet::new();
                    for spec in &all_specs {
                        let spec = spec.to_ref();
                        if seen.insert(spec.instruction()) {
                            spec.expand_prefixes(&mut prefixes);
                        }
                    }
                }
                truth.expected_v2(
                    LsArgs {
                        symrefs: true,
                        peel: true,
                        unborn: true,
                    },
                    &prefixes,
                )
            } else {
                ensure!(
                    c,
                    map.handshake.server_protocol_version != Protocol::V2,
                    "asked for v{version}, server_protocol_version is V2"
                );
                truth.expected_v1()
            };
            let mut got = map.remote_refs.clone();
            got.sort();
            if got != expected {
                c.fail_sig(
                    classify(&truth, version, None, Some((&got, &expected))),
                    format!(
                        "protocol.version={version} filter={filter}: {}; server: {}",
                        diff(&got, &expected),
                        describe(&server)
                    ),
                );
                return;
            }
            // every mapping's source must be one of the advertised refs, verbatim
            for m in &map.mappings {
                if let gix::remote::fetch::Source::Ref(r) = &m.remote {
                    ensure!(
                        c,
                        expected.binary_search(r).is_ok(),
                        "protocol.version={version}: mapping source {r:?} is not an advertised ref"
                    );
                }
            }
        }
    });

    // gix-protocol level: transport + handshake (+ ls-refs with chosen arguments and prefixes)
    ck.sub("handshake-ls-refs", SubCfg::new(240, 8_000).max_len(600).max_shrink(50), |t, c| {
        let server = gen_server(t, c);
        let args = LsArgs {
            symrefs: !t.chance(40),
            peel: !t.chance(40),
            unborn: !t.chance(40),
        };
        // prefixes: none, or 1..3 taken from namespaces, existing names (whole or cut), HEAD
        let mut prefixes: Vec<BString> = Vec::new();
        if t.chance(150) {
            for _ in 0..t.range(1, 3) {
                let p: BString = match t.weighted(&[4, 3, 1, 1]) {
                    0 => (*t.pick(NAMESPACES)).into(),
                    1 if !server.refs.is_empty() => {
                        let n = &t.pick(&server.refs).0;
                        let cut = t.range(5, n.len());
                        // do not cut inside a multi-byte sequence: the argument is sent as text
                        let mut cut = cut.min(n.len());
                        while cut < n.len() && (n[cut] & 0xc0) == 0x80 {
                            cut += 1;
                        }
                        n[..cut].into()
                    }
                    2 => "HEAD".into(),
                    3 => "refs/".into(),
                    _ => "refs/heads/".into(),
                };
                if !p.contains(&b'\n') && !prefixes.contains(&p) {
                    prefixes.push(p);
                }
            }
        }
        c.key(&(&server, args.symrefs, args.peel, args.unborn, &prefixes));
        labels(&server, c);
        c.label_if(!prefixes.is_empty(), "with-ref-prefix");
        c.label_if(!args.symrefs, "ls-refs-without-symrefs");
        c.label_if(!args.peel, "ls-refs-without-peel");
        c.label_if(!args.unborn, "ls-refs-without-unborn");
        c.sample_with(|| format!("{} ls-refs={args:?} prefixes={prefixes:?}", describe(&server)));
        let built = infra!(c, build_server(&server), "build server");
        let git = &built.world.git;
        let truth = infra!(c, truth(git), "truth");
        let url = format!("file://{}", built.world.repo().display());
        infra!(c, validate_against_ls_remote(git, &url, &truth), "oracle validation");
        let path: BString = gix::path::into_bstr(built.world.repo()).into_owned();
        for (version, proto) in [(0u8, Protocol::V0), (1, Protocol::V1), (2, Protocol::V2)] {
            let mut transport = match gix_protocol::transport::client::file::connect(path.clone(), proto, false) {
                Ok(t) => t,
                Err(e) => match e {},
            };
            let outcome = gix_protocol::fetch::handshake(&mut transport, |_| Ok(None), vec![], &mut gix::progress::Discard);
            let outcome = match outcome {
                Ok(o) => o,
                Err(e) => {
                    let msg = error_chain(&e);
                    c.fail_sig(
                        classify(&truth, version, Some(&msg), None),
                        format!("protocol {version}: handshake failed: {msg}; server: {}", describe(&server)),
                    );
                    return;
                }
            };
            let (got, expected) = match outcome.refs {
                Some(refs) => {
                    ensure!(c, version != 2, "asked for v2 but refs came with the handshake");
                    ensure!(
                        c,
                        outcome.server_protocol_version != Protocol::V2,
                        "v0/v1 handshake reports server protocol V2"
                    );
                    // the capability that carries HEAD's target must be visible to callers, too
                    let cap = outcome
                        .capabilities
                        .iter()
                        .find(|cap| cap.name() == "symref")
                        .and_then(|cap| cap.value().map(ToOwned::to_owned));
                    let want_cap = truth.head.and(truth.head_sym.as_ref()).map(|t| {
                        let mut v = BString::from("HEAD:");
                        v.push_str(t);
                        v
                    });
                    // (a name with a space cannot travel in the capability list; git sends it anyway)
                    if want_cap.as_ref().map_or(true, |w| !w.contains(&b' ')) {
                        ensure!(c, cap == want_cap, "symref capability is {cap:?}, expected {want_cap:?}");
                    }
                    (refs, truth.expected_v1())
                }
                None => {
                    ensure!(c, version == 2, "asked for v{version} but no refs came with the handshake");
                    ensure!(
                        c,
                        outcome.server_protocol_version == Protocol::V2,
                        "no refs in handshake but protocol is {:?}",
                        outcome.server_protocol_version
                    );
                    let server_unborn = outcome
                        .capabilities
                        .capability("ls-refs")
                        .and_then(|cap| cap.supports("unborn"))
                        .unwrap_or(false);
                    if !server_unborn {
                        c.infra("server does not advertise ls-refs=unborn (unexpected for this git version)");
                        return;
                    }
                    let res = gix_protocol::ls_refs(
                        &mut transport,
                        &outcome.capabilities,
                        |_caps, arguments, features| {
                            features.push(("agent", Some(std::borrow::Cow::Borrowed("git/oxide-vp"))));
                            arguments.retain(|a| {
                                (args.symrefs || a != "symrefs") && (args.peel || a != "peel") && (args.unborn || a != "unborn")
                            });
                            for p in &prefixes {
                                let mut a = BString::from("ref-prefix ");
                                a.push_str(p);
                                arguments.push(a);
                            }
                            Ok(gix_protocol::ls_refs::Action::Continue)
                        },
                        &mut gix::progress::Discard,
                        false,
                    );
                    match res {
                        Ok(refs) => (refs, truth.expected_v2(args, &prefixes)),
                        Err(e) => {
                            c.fail(format!(
                                "protocol 2: ls_refs failed: {}; server: {}",
                                error_chain(&e),
                                describe(&server)
                            ));
                            return;
                        }
                    }
                }
            };
            let _ = gix_protocol::indicate_end_of_interaction(&mut transport, false);
            drop(transport);
            let mut got = got;
            got.sort();
            if got != expected {
                c.fail_sig(
                    classify(&truth, version, None, Some((&got, &expected))),
                    format!(
                        "protocol {version} ls-refs={args:?} prefixes={prefixes:?}: {}; server: {}",
                        diff(&got, &expected),
                        describe(&server)
                    ),
                );
                return;
            }
        }
    });

    ck.finish();
}

fn error_chain(e: &dyn std::error::Error) -> String {
    let mut s = e.to_string();
    let mut cur = e.source();
    while let Some(inner) = cur {
        s.push_str(": ");
        s.push_str(&inner.to_string());
        cur = inner.source();
    }
    s
}
