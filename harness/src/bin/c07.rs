//! C07 — pack entry headers and deltas encode and decode losslessly.
//!
//! Sub-checks
//!  * `header`            Header::write_to vs Entry::from_bytes / Entry::from_read vs an independent model of the
//!                        pack-format (gitformat-pack) written in u128 arithmetic.
//!  * `header-boundaries` every 7-bit boundary of the size and of the offset encoding, all kinds (enumerated).
//!  * `git-deltas`        worlds of blob version chains packed by `git pack-objects`; every entry header is decoded
//!                        and re-encoded (must reproduce git's bytes), every object is decoded through
//!                        `data::File::decode_entry` (no cache) and compared with the content the harness wrote; the
//!                        harness delta interpreter is validated against the same data (model_validated).
//!  * `crafted-deltas`    packs assembled by the harness with deltas following the emission rules of git's
//!                        `create_delta` (sparse offset/size bytes, 0x10000 as "no size bytes", inserts <= 127),
//!                        validated by `git index-pack` (git applies every delta and records the SHA-1 of each result
//!                        in the index; those ids must be the ids of the targets the harness model computed).
use gix_pack::data::entry::Header;
use gix_pack::data::Entry;
use std::collections::BTreeMap;
use std::io::Read;
use vp::*;

// ------------------------------------------------------------------------------------------------------------
// independent model of the entry header (Documentation/gitformat-pack.txt)
// ------------------------------------------------------------------------------------------------------------

const T_COMMIT: u8 = 1;
const T_TREE: u8 = 2;
const T_BLOB: u8 = 3;
const T_TAG: u8 = 4;
const T_OFS: u8 = 6;
const T_REF: u8 = 7;

#[derive(Debug, Clone, PartialEq, Eq)]
enum MBase {
    None,
    Ofs(u128),
    Ref([u8; 20]),
}

/// "n-byte type and length (3-bit type, (n-1)*7+4-bit length)": first byte: MSB = more, 3 bits type, 4 low bits of the
/// size; following bytes: MSB = more, 7 bits of size, least significant group first.
fn model_type_and_size(type_id: u8, size: u64) -> Vec<u8> {
    let mut groups: Vec<u8> = Vec::new();
    let mut rest = (size as u128) >> 4;
    while rest > 0 {
        groups.push((rest % 128) as u8);
        rest /= 128;
    }
    let mut out = Vec::new();
    let first = (type_id << 4) | (size % 16) as u8;
    out.push(if groups.is_empty() { first } else { first | 0x80 });
    for (i, g) in groups.iter().enumerate() {
        out.push(if i + 1 == groups.len() { *g } else { *g | 0x80 });
    }
    out
}

/// "offset encoding: n bytes with MSB set in all but the last one. The offset is then the number constructed by
/// concatenating the lower 7 bit of each byte, and for n >= 2 adding 2^7 + 2^14 + ... + 2^(7*(n-1)) to the result."
fn model_ofs(d: u64) -> Vec<u8> {
    let d = d as u128;
    let mut n = 1u32;
    let mut adj = 0u128;
    loop {
        if d >= adj && d - adj < (1u128 << (7 * n)) {
            break;
        }
        adj += 1u128 << (7 * n);
        n += 1;
    }
    let v = d - adj;
    (0..n)
        .rev()
        .map(|i| {
            let b = ((v >> (7 * i)) & 0x7f) as u8;
            if i > 0 {
                b | 0x80
            } else {
                b
            }
        })
        .collect()
}

fn model_header(type_id: u8, size: u64, base: &MBase) -> Vec<u8> {
    let mut out = model_type_and_size(type_id, size);
    match base {
        MBase::None => {}
        MBase::Ofs(d) => out.extend(model_ofs(*d as u64)),
        MBase::Ref(id) => out.extend_from_slice(id),
    }
    out
}

/// Returns (type, size, base, consumed); sizes are u128 so that the model itself cannot overflow.
fn model_decode(d: &[u8]) -> Option<(u8, u128, MBase, usize)> {
    let mut i = 0;
    let first = *d.get(i)?;
    i += 1;
    let type_id = (first >> 4) & 7;
    let mut size = (first & 15) as u128;
    let mut shift = 4u32;
    let mut more = first & 0x80 != 0;
    while more {
        let b = *d.get(i)?;
        i += 1;
        if shift > 100 {
            return None;
        }
        size += ((b & 0x7f) as u128) << shift;
        shift += 7;
        more = b & 0x80 != 0;
    }
    let base = match type_id {
        T_OFS => {
            let mut n = 0u32;
            let mut v = 0u128;
            loop {
                let b = *d.get(i)?;
                i += 1;
                n += 1;
                if n > 12 {
                    return None;
                }
                v = (v << 7) | (b & 0x7f) as u128;
                if b & 0x80 == 0 {
                    break;
                }
            }
            let adj: u128 = (1..n).map(|k| 1u128 << (7 * k)).sum();
            MBase::Ofs(v + adj)
        }
        T_REF => {
            let id: [u8; 20] = d.get(i..i + 20)?.try_into().ok()?;
            i += 20;
            MBase::Ref(id)
        }
        _ => MBase::None,
    };
    Some((type_id, size, base, i))
}

fn header_parts(h: &Header) -> (u8, MBase) {
    match h {
        Header::Commit => (T_COMMIT, MBase::None),
        Header::Tree => (T_TREE, MBase::None),
        Header::Blob => (T_BLOB, MBase::None),
        Header::Tag => (T_TAG, MBase::None),
        Header::OfsDelta { base_distance } => (T_OFS, MBase::Ofs(*base_distance as u128)),
        Header::RefDelta { base_id } => (T_REF, MBase::Ref(base_id.as_slice().try_into().expect("20 bytes"))),
    }
}

/// A reader that hands out at most `chunk` bytes per call and counts what was taken.
struct Chunked<'a> {
    data: &'a [u8],
    pos: usize,
    chunk: usize,
}
impl Read for Chunked<'_> {
    fn read(&mut self, buf: &mut [u8]) -> std::io::Result<usize> {
        let n = buf.len().min(self.chunk).min(self.data.len() - self.pos);
        buf[..n].copy_from_slice(&self.data[self.pos..self.pos + n]);
        self.pos += n;
        Ok(n)
    }
}

/// All header oracles for one (header, size). Returns Err((signature, message)).
fn check_header(h: Header, size: u64, pack_offset: u64, garbage: &[u8], chunk: usize) -> Result<usize, (&'static str, String)> {
    let (type_id, base) = header_parts(&h);
    let mut buf = Vec::new();
    let written = h
        .write_to(size, &mut buf)
        .map_err(|e| ("", format!("write_to failed for {h:?} size {size}: {e}")))?;
    if written != buf.len() {
        return Err((
            "written-count",
            format!("{h:?} size {size}: write_to returned {written} but wrote {} bytes ({})", buf.len(), hex(&buf)),
        ));
    }
    if h.size(size) != written {
        return Err(("written-count", format!("{h:?} size {size}: Header::size() = {} but write_to wrote {written}", h.size(size))));
    }
    let model = model_header(type_id, size, &base);
    if buf != model {
        return Err((
            "encode-differs-from-format",
            format!("{h:?} size {size}: write_to produced {} but the pack format prescribes {}", hex(&buf), hex(&model)),
        ));
    }
    // the model decoder must invert the model encoder (harness self-check, not a violation)
    match model_decode(&model) {
        Some((t, s, b, n)) if t == type_id && s == size as u128 && b == base && n == model.len() => {}
        other => panic!("harness model does not round-trip: {other:?} for {h:?} {size}"),
    }
    let mut stream = buf.clone();
    stream.extend_from_slice(garbage);
    // the in-memory decoder indexes without bounds checks of its own: make sure there is always a terminator
    stream.extend_from_slice(&[0u8; 24]);

    let from_bytes = Entry::from_bytes(&stream, pack_offset, 20).map_err(|e| ("", format!("from_bytes failed for {h:?} size {size}: {e}")))?;
    let mut rd = Chunked {
        data: &stream,
        pos: 0,
        chunk,
    };
    let from_read = Entry::from_read(&mut rd, pack_offset, 20).map_err(|e| ("", format!("from_read failed for {h:?} size {size}: {e}")))?;
    for (origin, e) in [("from_bytes", &from_bytes), ("from_read", &from_read)] {
        if e.header != h {
            return Err((
                "decoded-header-differs",
                format!("{origin}: wrote {h:?} (size {size}) as {} but decoded header {:?}", hex(&buf), e.header),
            ));
        }
        if e.decompressed_size != size {
            return Err((
                "decoded-size-differs",
                format!("{origin}: wrote size {size} for {h:?} as {} but decoded size {}", hex(&buf), e.decompressed_size),
            ));
        }
        if e.data_offset != pack_offset + written as u64 {
            return Err((
                "consumed-length-differs",
                format!(
                    "{origin}: {h:?} size {size} was written as {written} bytes ({}) but the decoder consumed {} (data_offset {} for pack offset {pack_offset})",
                    hex(&buf),
                    e.data_offset as i128 - pack_offset as i128,
                    e.data_offset
                ),
            ));
        }
        if e.header_size() != written {
            return Err(("written-count", format!("{origin}: Entry::header_size() = {} but {written} bytes were written", e.header_size())));
        }
        if e.pack_offset() != pack_offset {
            return Err(("consumed-length-differs", format!("{origin}: Entry::pack_offset() = {} for an entry at {pack_offset}", e.pack_offset())));
        }
    }
    if rd.pos != written {
        return Err((
            "consumed-length-differs",
            format!("from_read took {} bytes from the stream for a {written}-byte header ({h:?} size {size})", rd.pos),
        ));
    }
    if let Header::OfsDelta { base_distance } = h {
        if pack_offset >= base_distance {
            let got = from_bytes.base_pack_offset(base_distance);
            if got != pack_offset - base_distance {
                return Err(("", format!("base_pack_offset({base_distance}) = {got} for an entry at {pack_offset}")));
            }
            if Header::verified_base_pack_offset(pack_offset, base_distance) != Some(pack_offset - base_distance) {
                return Err(("", format!("verified_base_pack_offset({pack_offset}, {base_distance}) is wrong")));
            }
        }
    }
    Ok(written)
}

/// first value whose offset encoding needs k+1 bytes: sum_{i=1..k} 128^i
fn ofs_boundary(k: u32) -> u128 {
    (1..=k).map(|i| 1u128 << (7 * i)).sum()
}

const MAX_DISTANCE: u64 = 1 << 63;

fn gen_size(t: &mut Tape) -> (u64, &'static str) {
    match t.weighted(&[2, 6, 2, 3, 3]) {
        0 => (*t.pick(&[0u64, 1, 15, 16, 17]), "size-tiny"),
        1 => {
            let k = t.below(9) as u32; // 2^4 .. 2^60
            let b = 1u64 << (4 + 7 * k);
            (*t.pick(&[b - 1, b, b + 1]), "size-7bit-boundary")
        }
        2 => (
            *t.pick(&[u64::MAX, u64::MAX - 1, 1 << 63, (1 << 63) - 1, 1 << 32, (1 << 32) - 1, 1 << 31, u64::MAX >> 3, (u64::MAX >> 3) + 1]),
            "size-extreme",
        ),
        3 => (t.u64(), "size-uniform"),
        _ => {
            let bits = t.range(0, 64) as u32;
            let v = t.u64();
            (if bits == 0 { 0 } else { v >> (64 - bits) }, "size-log-uniform")
        }
    }
}

fn gen_distance(t: &mut Tape) -> (u64, &'static str) {
    match t.weighted(&[2, 6, 2, 2, 3]) {
        0 => (*t.pick(&[1u64, 2, 126, 127, 128, 129]), "dist-tiny"),
        1 => {
            let k = 1 + t.below(8) as u32; // boundaries needing 2..9 bytes
            let b = ofs_boundary(k) as u64;
            (*t.pick(&[b - 1, b, b + 1]), "dist-continuation-boundary")
        }
        2 => (*t.pick(&[MAX_DISTANCE, MAX_DISTANCE - 1, MAX_DISTANCE - 2, 1 << 62, 1 << 32, 1 << 31, (1 << 31) - 1]), "dist-extreme"),
        3 => (1 + (t.u64() >> 1), "dist-uniform"),
        _ => {
            let bits = t.range(1, 63) as u32;
            let v = t.u64() >> (64 - bits);
            (v.max(1), "dist-log-uniform")
        }
    }
}

fn gen_header(t: &mut Tape, c: &mut Case) -> Header {
    match t.weighted(&[1, 1, 1, 1, 5, 2]) {
        0 => Header::Commit,
        1 => Header::Tree,
        2 => Header::Blob,
        3 => Header::Tag,
        4 => {
            let (d, class) = gen_distance(t);
            c.label(class);
            Header::OfsDelta { base_distance: d }
        }
        _ => Header::RefDelta {
            base_id: vp::gen::object_id(t),
        },
    }
}

// ------------------------------------------------------------------------------------------------------------
// deltas: model interpreter + generator of git-style deltas
// ------------------------------------------------------------------------------------------------------------

#[derive(Default, Debug, Clone)]
struct DeltaStats {
    copies: usize,
    inserts: usize,
    copy_64k: bool,
    max_copy_ofs: u64,
    sparse_ofs: bool,
}

fn delta_varint(d: &[u8], i: &mut usize) -> Option<u64> {
    let mut v = 0u64;
    let mut shift = 0;
    loop {
        let b = *d.get(*i)?;
        *i += 1;
        v |= ((b & 0x7f) as u64) << shift;
        shift += 7;
        if b & 0x80 == 0 {
            return Some(v);
        }
        if shift > 63 {
            return None;
        }
    }
}

/// patch-delta.c, transcribed. Returns the target and statistics, or an error text.
fn model_apply(base: &[u8], delta: &[u8]) -> Result<(Vec<u8>, DeltaStats), String> {
    let mut i = 0;
    let base_size = delta_varint(delta, &mut i).ok_or("truncated base size")?;
    let result_size = delta_varint(delta, &mut i).ok_or("truncated result size")?;
    if base_size != base.len() as u64 {
        return Err(format!("base size {base_size} != {}", base.len()));
    }
    let mut out = Vec::with_capacity(result_size as usize);
    let mut st = DeltaStats::default();
    while i < delta.len() {
        let cmd = delta[i];
        i += 1;
        if cmd & 0x80 != 0 {
            let mut ofs = 0u64;
            let mut size = 0u64;
            let mut present = [false; 4];
            for k in 0..4 {
                if cmd & (1 << k) != 0 {
                    ofs |= (*delta.get(i).ok_or("truncated copy")? as u64) << (8 * k);
                    i += 1;
                    present[k] = true;
                }
            }
            for k in 0..3 {
                if cmd & (0x10 << k) != 0 {
                    size |= (*delta.get(i).ok_or("truncated copy")? as u64) << (8 * k);
                    i += 1;
                }
            }
            if size == 0 {
                size = 0x10000;
            }
            // a lower byte absent while a higher one is present
            if (0..3).any(|k| !present[k] && present[k + 1..].iter().any(|p| *p)) {
                st.sparse_ofs = true;
            }
            let end = ofs.checked_add(size).ok_or("overflow")?;
            if end > base.len() as u64 {
                return Err(format!("copy {ofs}+{size} beyond base of {}", base.len()));
            }
            out.extend_from_slice(&base[ofs as usize..end as usize]);
            st.copies += 1;
            st.copy_64k |= size == 0x10000;
            st.max_copy_ofs = st.max_copy_ofs.max(ofs);
        } else if cmd != 0 {
            let n = cmd as usize;
            out.extend_from_slice(delta.get(i..i + n).ok_or("truncated insert")?);
            i += n;
            st.inserts += 1;
        } else {
            return Err("command 0".into());
        }
    }
    if out.len() as u64 != result_size {
        return Err(format!("result size {result_size} != produced {}", out.len()));
    }
    Ok((out, st))
}

#[derive(Debug, Clone)]
enum Op {
    Copy { ofs: u32, size: u32 }, // 1..=0x10000
    Insert(Vec<u8>),              // 1..=127 bytes
}

fn put_varint(out: &mut Vec<u8>, mut v: u64) {
    loop {
        let b = (v & 0x7f) as u8;
        v >>= 7;
        if v != 0 {
            out.push(b | 0x80);
        } else {
            out.push(b);
            break;
        }
    }
}

/// diff-delta.c:create_delta emission: only non-zero bytes of offset and size are stored; 0x10000 has no size bytes.
fn encode_delta(base_len: usize, ops: &[Op]) -> (Vec<u8>, usize) {
    let mut body = Vec::new();
    let mut result_len = 0usize;
    for op in ops {
        match op {
            Op::Copy { ofs, size } => {
                let mut cmd = 0x80u8;
                let mut args = Vec::new();
                for k in 0..4 {
                    let b = (ofs >> (8 * k)) as u8;
                    if b != 0 {
                        cmd |= 1 << k;
                        args.push(b);
                    }
                }
                for k in 0..2 {
                    let b = (size >> (8 * k)) as u8;
                    if b != 0 {
                        cmd |= 0x10 << k;
                        args.push(b);
                    }
                }
                body.push(cmd);
                body.extend(args);
                result_len += *size as usize;
            }
            Op::Insert(data) => {
                body.push(data.len() as u8);
                body.extend_from_slice(data);
                result_len += data.len();
            }
        }
    }
    let mut out = Vec::new();
    put_varint(&mut out, base_len as u64);
    put_varint(&mut out, result_len as u64);
    out.extend(body);
    (out, result_len)
}

struct Rng(u64);
impl Rng {
    fn next(&mut self) -> u64 {
        self.0 ^= self.0 << 13;
        self.0 ^= self.0 >> 7;
        self.0 ^= self.0 << 17;
        self.0.wrapping_mul(0x2545_f491_4f6c_dd1d)
    }
    fn fill(&mut self, n: usize) -> Vec<u8> {
        let mut v = Vec::with_capacity(n + 8);
        while v.len() < n {
            v.extend_from_slice(&self.next().to_le_bytes());
        }
        v.truncate(n);
        v
    }
}

fn zlib(data: &[u8]) -> Vec<u8> {
    use std::io::Write;
    let mut e = flate2::write::ZlibEncoder::new(Vec::new(), flate2::Compression::fast());
    e.write_all(data).expect("in-memory");
    e.finish().expect("in-memory")
}

fn inflate_at(pack: &[u8], data_offset: usize, size: usize) -> Result<Vec<u8>, String> {
    let mut out = Vec::with_capacity(size);
    let mut d = flate2::read::ZlibDecoder::new(&pack[data_offset..]);
    d.read_to_end(&mut out).map_err(|e| format!("inflate at {data_offset}: {e}"))?;
    if out.len() != size {
        return Err(format!("inflated {} bytes at {data_offset}, header says {size}", out.len()));
    }
    Ok(out)
}

/// Decode the object whose entry starts at `offset` with gitoxide, resolving ref-deltas through `by_id`.
fn gix_decode(
    pack: &gix_pack::data::File,
    offset: u64,
    by_id: &BTreeMap<[u8; 20], u64>,
) -> Result<(Vec<u8>, gix_pack::data::decode::entry::Outcome), String> {
    let entry = pack.entry(offset).map_err(|e| format!("entry({offset}): {e}"))?;
    let mut out = Vec::new();
    let mut inflate = gix_features::zlib::Inflate::default();
    let resolve = |id: &gix_hash::oid, _out: &mut Vec<u8>| {
        let key: [u8; 20] = id.as_bytes().try_into().ok()?;
        let ofs = by_id.get(&key)?;
        pack.entry(*ofs).ok().map(gix_pack::data::decode::entry::ResolvedBase::InPack)
    };
    let outcome = pack
        .decode_entry(entry, &mut out, &mut inflate, &resolve, &mut gix_pack::cache::Never)
        .map_err(|e| format!("decode_entry at {offset}: {e}"))?;
    Ok((out, outcome))
}

/// One edit step producing the next version of a blob.
fn mutate(t: &mut Tape, rng: &mut Rng, prev: &[u8]) -> (Vec<u8>, &'static str) {
    let mut v = prev.to_vec();
    let kind = t.weighted(&[3, 3, 2, 3, 3, 2, 1, 1]);
    let label = match kind {
        0 => {
            // overwrite a few bytes
            for _ in 0..t.range(1, 4) {
                if v.is_empty() {
                    break;
                }
                let p = t.below(v.len());
                let n = t.range(1, 12).min(v.len() - p);
                let r = rng.fill(n);
                v[p..p + n].copy_from_slice(&r);
            }
            "edit-overwrite"
        }
        1 => {
            let p = t.below(v.len() + 1);
            let n = t.range(1, 300);
            let r = rng.fill(n);
            v.splice(p..p, r);
            "edit-insert"
        }
        2 => {
            if !v.is_empty() {
                let p = t.below(v.len());
                let n = t.range(1, 400).min(v.len() - p);
                v.drain(p..p + n);
            }
            "edit-delete"
        }
        3 => {
            // move a block
            if v.len() > 4 {
                let a = t.below(v.len() - 1);
                let n = 1 + t.below(v.len() - a);
                let block: Vec<u8> = v.drain(a..a + n).collect();
                let p = t.below(v.len() + 1);
                v.splice(p..p, block);
            }
            "edit-move-block"
        }
        4 => {
            // duplicate a block somewhere else (gives copies from far offsets)
            if v.len() > 4 {
                let a = t.below(v.len() - 1);
                let n = 1 + t.below(v.len() - a);
                let block = v[a..a + n].to_vec();
                let p = t.below(v.len() + 1);
                v.splice(p..p, block);
            }
            "edit-duplicate-block"
        }
        5 => {
            let n = t.range(1, 200);
            let r = rng.fill(n);
            if t.bool() {
                v.extend(r);
            } else {
                v.splice(0..0, r);
            }
            "edit-append-prepend"
        }
        6 => {
            v.clear();
            "edit-empty-target"
        }
        _ => {
            // swap the halves: the second half is copied from offset >= len/2
            let mid = v.len() / 2;
            v.rotate_left(mid);
            "edit-swap-halves"
        }
    };
    (v, label)
}

struct PackEntryInfo {
    id: [u8; 20],
    size: u64,
    offset: u64,
    depth: u32,
    base: Option<[u8; 20]>,
}

fn id20(hex_id: &str) -> Option<[u8; 20]> {
    unhex(hex_id)?.try_into().ok()
}

fn parse_verify_pack(out: &str) -> Vec<PackEntryInfo> {
    let mut v = Vec::new();
    for line in out.lines() {
        let f: Vec<&str> = line.split_whitespace().collect();
        if f.len() < 5 || f[0].len() != 40 {
            continue;
        }
        let Some(id) = id20(f[0]) else { continue };
        let (Ok(size), Ok(offset)) = (f[2].parse(), f[4].parse()) else {
            continue;
        };
        let (depth, base) = if f.len() >= 7 { (f[5].parse().unwrap_or(0), id20(f[6])) } else { (0, None) };
        v.push(PackEntryInfo {
            id,
            size,
            offset,
            depth,
            base,
        });
    }
    v
}

pub fn main() {
    let mut ck = Check::new("C07", "exploration");
    ck.rule("header: kind in {Commit,Tree,Blob,Tag,OfsDelta,RefDelta} x size classes {tiny, 2^(4+7k)+-1 for every k, extremes up to u64::MAX, uniform, log-uniform} x distance classes {tiny, every continuation boundary sum(128^i)+-1, extremes up to 2^63, uniform, log-uniform} x pack offset x trailing garbage (continuation-looking bytes) x read chunking. git-deltas: 1..3 chains of 2..6 blob versions (random edits, block moves, duplicated blocks, swapped halves, empty target; bases 60 B..200 KiB) packed by git pack-objects (with and without --delta-base-offset). crafted-deltas: delta chains (depth 1..3, ofs- and ref-deltas) of copy/insert ops emitted like git's create_delta over bases up to 17 MiB. Non-trivial: header whose size or distance needs a continuation byte; delta with a copy of 0x10000 bytes or a copy offset >= 2^16. Distinct by decoded-case hash.");
    ck.assume(&format!("delta oracle: {} (pack-objects, verify-pack, index-pack)", Git::version()));
    ck.assume("header oracle: harness model transcribed from Documentation/gitformat-pack.txt in u128 arithmetic; it is cross-checked against the header bytes git wrote in every git-deltas world (re-encoding must reproduce git's bytes)");
    ck.assume("base distances are taken from 1..=2^63 as the property states; distance 0 and > 2^63 are not asserted");

    // ---------------------------------------------------------------------------------------------------
    ck.sub("header", SubCfg::new(600_000, 12_000_000).max_len(96), |t, c| {
        let h = gen_header(t, c);
        let (size, sclass) = gen_size(t);
        c.label(sclass);
        let pack_offset = match t.weighted(&[2, 2, 1]) {
            0 => 12,
            1 => t.u32() as u64,
            _ => t.u64() >> 2,
        };
        let garbage = match t.weighted(&[1, 2, 2]) {
            0 => vec![],
            1 => vec![*t.pick(&[0xffu8, 0x80, 0x81, 0x7f]); t.range(1, 6)],
            _ => t.bytes(8),
        };
        let chunk = *t.pick(&[1usize, 1, 2, 3, 64]);
        let (type_id, base) = header_parts(&h);
        c.label(match type_id {
            T_COMMIT => "kind-commit",
            T_TREE => "kind-tree",
            T_BLOB => "kind-blob",
            T_TAG => "kind-tag",
            T_OFS => "kind-ofs-delta",
            _ => "kind-ref-delta",
        });
        let crosses = size >= 16 || matches!(base, MBase::Ofs(d) if d >= 128);
        c.label_if(size >= 16, "size-has-continuation");
        c.label_if(matches!(base, MBase::Ofs(d) if d >= 128), "distance-has-continuation");
        c.nontrivial(crosses);
        c.key(&(h, size, pack_offset, &garbage, chunk));
        c.sample_with(|| format!("{h:?} size={size} pack_offset={pack_offset} garbage={} chunk={chunk}", hex(&garbage)));
        if let Err((sig, msg)) = check_header(h, size, pack_offset, &garbage, chunk) {
            c.fail_sig(sig, msg);
        }
    });

    // ---------------------------------------------------------------------------------------------------
    ck.sub_enum("header-boundaries", |r| {
        let mut sizes: Vec<u64> = vec![0, 1, 15, u64::MAX, u64::MAX - 1, 1 << 63];
        for k in 0..9u32 {
            let b = 1u64 << (4 + 7 * k);
            sizes.extend([b - 1, b, b + 1]);
        }
        let mut dists: Vec<u64> = vec![1, 2, 127, MAX_DISTANCE, MAX_DISTANCE - 1];
        for k in 1..=8u32 {
            let b = ofs_boundary(k) as u64;
            dists.extend([b - 1, b, b + 1]);
        }
        for k in 1..=9u32 {
            // also the largest value of each width in plain 7-bit groups
            let b = (1u128 << (7 * k)) as u64;
            dists.extend([b - 1, b, b + 1].into_iter().filter(|d| *d <= MAX_DISTANCE));
        }
        let id = gix_hash::ObjectId::from([0x80u8; 20]);
        let mut headers: Vec<Header> = vec![Header::Commit, Header::Tree, Header::Blob, Header::Tag, Header::RefDelta { base_id: id }];
        headers.extend(dists.iter().map(|d| Header::OfsDelta { base_distance: *d }));
        let mut fails = 0;
        for h in &headers {
            for s in &sizes {
                for garbage in [&[][..], &[0xff, 0xff, 0xff][..], &[0x80][..]] {
                    let key = {
                        use std::hash::{Hash, Hasher};
                        let mut hs = std::collections::hash_map::DefaultHasher::new();
                        (h, s, garbage).hash(&mut hs);
                        hs.finish()
                    };
                    r.eval(key, *s >= 16 || matches!(h, Header::OfsDelta { base_distance } if *base_distance >= 128));
                    if let Err((sig, msg)) = check_header(*h, *s, 12, garbage, 1) {
                        if fails < 5 {
                            r.fail(sig, msg, format!("{h:?} {s}").as_bytes());
                        }
                        fails += 1;
                    }
                }
            }
        }
        r.sample(format!("{} headers x {} sizes x 3 trailers", headers.len(), sizes.len()));
        r.exhaustive = true;
    });

    // ---------------------------------------------------------------------------------------------------
    ck.sub("git-deltas", SubCfg::new(100, 3_000).max_len(2048).max_shrink(40), |t, c| {
        let mut rng = Rng(t.u64() | 1);
        let ofs_deltas = t.bool();
        let nchains = t.range(1, 3);
        let mut blobs: Vec<Vec<u8>> = Vec::new();
        for _ in 0..nchains {
            let base_len = match t.weighted(&[5, 3, 2]) {
                0 => t.range(60, 2000),
                1 => t.range(2000, 66_000),
                _ => t.range(66_000, 200_000),
            };
            let mut cur = rng.fill(base_len);
            blobs.push(cur.clone());
            for _ in 0..t.range(1, 5) {
                let (next, label) = mutate(t, &mut rng, &cur);
                c.label(label);
                blobs.push(next.clone());
                cur = next;
            }
        }
        c.label(if ofs_deltas { "pack-ofs-deltas" } else { "pack-ref-deltas" });
        c.key(&(ofs_deltas, &blobs));
        let mut content: BTreeMap<[u8; 20], Vec<u8>> = BTreeMap::new();
        for b in &blobs {
            content.insert(id20(&object_sha1("blob", b)).expect("sha1"), b.clone());
        }
        c.sample_with(|| format!("ofs_deltas={ofs_deltas} blob sizes={:?}", blobs.iter().map(Vec::len).collect::<Vec<_>>()));

        let world = infra!(c, World::new("c07", true), "world");
        let git = world.git.clone().cfg("pack.threads=1").cfg("core.compression=1");
        let dir = world.scratch.join("in");
        infra!(c, std::fs::create_dir_all(&dir), "mkdir");
        let mut paths = String::new();
        for (i, b) in blobs.iter().enumerate() {
            let p = dir.join(format!("b{i}"));
            infra!(c, std::fs::write(&p, b), "write blob");
            paths.push_str(&format!("{}\n", p.display()));
        }
        let out = infra!(c, git.run_in(["hash-object", "-w", "--stdin-paths"], Some(paths.as_bytes())), "hash-object");
        let ids: Vec<String> = String::from_utf8_lossy(&out).lines().map(str::to_string).collect();
        if ids.len() != blobs.len() || ids.iter().zip(&blobs).any(|(i, b)| *i != object_sha1("blob", b)) {
            c.infra("git hash-object ids differ from the harness SHA-1");
            return;
        }
        let mut uniq: Vec<String> = ids.clone();
        uniq.sort();
        uniq.dedup();
        let list = uniq.join("\n") + "\n";
        let packbase = world.scratch.join("pack");
        let mut args = vec!["pack-objects".to_string(), "-q".into(), "--depth=50".into(), "--window=10".into()];
        if ofs_deltas {
            args.push("--delta-base-offset".into());
        }
        args.push(packbase.display().to_string());
        let out = infra!(c, git.run_in(&args, Some(list.as_bytes())), "pack-objects");
        let pack_hash = String::from_utf8_lossy(&out).trim().to_string();
        let pack_path = world.scratch.join(format!("pack-{pack_hash}.pack"));
        let idx_path = world.scratch.join(format!("pack-{pack_hash}.idx"));
        let vout = infra!(c, git.run(["verify-pack".to_string(), "-v".into(), idx_path.display().to_string()]), "verify-pack");
        let infos = parse_verify_pack(&String::from_utf8_lossy(&vout));
        if infos.len() != uniq.len() {
            c.infra(format!("verify-pack lists {} objects, expected {}", infos.len(), uniq.len()));
            return;
        }
        let raw = infra!(c, std::fs::read(&pack_path), "read pack");
        let by_id: BTreeMap<[u8; 20], u64> = infos.iter().map(|i| (i.id, i.offset)).collect();
        let pack = match gix_pack::data::File::at(&pack_path, gix_hash::Kind::Sha1) {
            Ok(p) => p,
            Err(e) => {
                c.fail(format!("data::File::at failed on a pack written by git: {e}"));
                return;
            }
        };
        let mut ndeltas = 0;
        let mut validated = 0;
        for info in &infos {
            let want = &content[&info.id];
            let is_delta = info.base.is_some();
            // --- header: decode from memory and from a stream, compare with git's report, re-encode
            let entry = match pack.entry(info.offset) {
                Ok(e) => e,
                Err(e) => {
                    c.fail(format!("entry({}) failed: {e}", info.offset));
                    return;
                }
            };
            let Some((mtype, msize, mbase, mlen)) = model_decode(&raw[info.offset as usize..]) else {
                c.infra("model cannot decode a git-written header");
                return;
            };
            let (etype, ebase) = header_parts(&entry.header);
            ensure_sig!(
                c,
                "git-header-decode",
                etype == mtype && ebase == mbase && entry.decompressed_size as u128 == msize && entry.data_offset == info.offset + mlen as u64 && msize == info.size as u128,
                "entry at {}: gitoxide decoded {:?} size {} data_offset {}, git reports size {} and the format gives type {mtype} base {mbase:?} size {msize} header length {mlen}",
                info.offset,
                entry.header,
                entry.decompressed_size,
                entry.data_offset,
                info.size
            );
            ensure!(c, is_delta == entry.header.is_delta(), "entry at {}: delta-ness differs from verify-pack", info.offset);
            let mut rd = Chunked {
                data: &raw[info.offset as usize..],
                pos: 0,
                chunk: 1,
            };
            match Entry::from_read(&mut rd, info.offset, 20) {
                Ok(e2) => ensure_sig!(c, "git-header-decode", e2 == entry && rd.pos == mlen, "from_read gives {e2:?} after {} bytes, from_bytes {entry:?}", rd.pos),
                Err(e) => {
                    c.fail(format!("from_read failed at {}: {e}", info.offset));
                    return;
                }
            }
            let mut re = Vec::new();
            let _ = entry.header.write_to(entry.decompressed_size, &mut re);
            ensure_sig!(
                c,
                "encode-differs-from-git",
                re == raw[info.offset as usize..info.offset as usize + mlen],
                "re-encoding {:?} size {} gives {} but git wrote {}",
                entry.header,
                entry.decompressed_size,
                hex(&re),
                hex(&raw[info.offset as usize..info.offset as usize + mlen])
            );
            match (&entry.header, ofs_deltas) {
                (Header::OfsDelta { base_distance }, _) => {
                    let base_ofs = info.base.and_then(|b| by_id.get(&b).copied());
                    ensure!(
                        c,
                        Some(info.offset.wrapping_sub(*base_distance)) == base_ofs,
                        "ofs-delta at {} distance {base_distance} does not point at its base (at {base_ofs:?})",
                        info.offset
                    );
                    c.label_if(*base_distance >= 128, "git-ofs-distance>=128");
                    c.label_if(*base_distance >= 16512, "git-ofs-distance>=16512");
                }
                (Header::RefDelta { base_id }, _) => {
                    ensure!(c, Some(base_id.as_slice()) == info.base.as_ref().map(|b| &b[..]), "ref-delta at {} names the wrong base", info.offset);
                }
                _ => {}
            }
            // --- object content
            let (got, outcome) = match gix_decode(&pack, info.offset, &by_id) {
                Ok(x) => x,
                Err(e) => {
                    c.fail_sig("decode-error", format!("object {} (depth {}): {e}", hex(&info.id), info.depth));
                    return;
                }
            };
            ensure_sig!(
                c,
                "delta-result-differs",
                got == *want,
                "object {} (delta depth {}) decodes to {} bytes, expected {} bytes; first difference at {:?}",
                hex(&info.id),
                info.depth,
                got.len(),
                want.len(),
                got.iter().zip(want.iter()).position(|(a, b)| a != b)
            );
            ensure!(
                c,
                outcome.kind == gix_object::Kind::Blob && outcome.object_size == want.len() as u64 && outcome.num_deltas == info.depth,
                "outcome {outcome:?} for a blob of {} bytes at delta depth {}",
                want.len(),
                info.depth
            );
            // --- model validation and delta statistics
            if let Some(base_id) = info.base {
                ndeltas += 1;
                let delta = infra!(c, inflate_at(&raw, info.offset as usize + mlen, info.size as usize), "inflate delta");
                match model_apply(&content[&base_id], &delta) {
                    Ok((res, st)) if res == *want => {
                        validated += 1;
                        c.label_if(st.copy_64k, "delta-copy-0x10000");
                        c.label_if(st.max_copy_ofs >= 1 << 16, "delta-copy-offset>=2^16");
                        c.label_if(st.sparse_ofs, "delta-sparse-offset-bytes");
                        c.label_if(st.inserts > 0 && st.copies > 0, "delta-copy+insert");
                        c.label_if(want.is_empty(), "delta-empty-target");
                        c.nontrivial(st.copy_64k || st.max_copy_ofs >= 1 << 16);
                    }
                    Ok(_) => {
                        println!("MODEL-BUG: property=C07 harness delta interpreter disagrees with git on a git-made delta");
                        c.infra("model delta interpreter disagrees with git");
                        return;
                    }
                    Err(e) => {
                        println!("MODEL-BUG: property=C07 harness delta interpreter rejects a git-made delta: {e}");
                        c.infra("model delta interpreter rejects a git delta");
                        return;
                    }
                }
                c.label_if(info.depth >= 2, "delta-chain-depth>=2");
                c.label_if(info.depth >= 4, "delta-chain-depth>=4");
            }
        }
        c.label_if(ndeltas == 0, "no-delta-in-pack");
        let _ = validated;
    });

    // ---------------------------------------------------------------------------------------------------
    ck.sub("crafted-deltas", SubCfg::new(500, 15_000).max_len(8192).max_shrink(40), |t, c| {
        let mut rng = Rng(t.u64() | 1);
        struct Obj {
            content: Vec<u8>,
            /// (index of the base object in the pack, delta bytes, stored as ref-delta)
            delta: Option<(usize, Vec<u8>, bool)>,
            depth: u32,
        }
        let mut objects: Vec<Obj> = Vec::new();
        let mut described: Vec<String> = Vec::new();
        let nchains = t.range(1, 4);
        let mut have_huge = false;
        for _ in 0..nchains {
            // base object of the chain
            let (base, bclass): (Vec<u8>, &'static str) = match t.weighted(&[20, 18, if have_huge { 0 } else { 1 }]) {
                0 => (rng.fill(t.range(1, 400)), "base-small"),
                1 => (rng.fill(t.range(0x10000, 0x28000)), "base-64k-160k"),
                _ => {
                    // 16 MiB + a bit, mostly zero with markers so that it compresses well
                    have_huge = true;
                    let len = (1 << 24) + t.range(0x100, 0x20000);
                    let mut v = vec![0u8; len];
                    for i in (0..len).step_by(4096) {
                        v[i..i + 8].copy_from_slice(&(i as u64 ^ rng.0).to_le_bytes());
                    }
                    (v, "base-16MiB")
                }
            };
            c.label(bclass);
            described.push(format!("base {} bytes", base.len()));
            objects.push(Obj {
                content: base,
                delta: None,
                depth: 0,
            });
            let depth = t.range(1, 3);
            c.label(["", "depth-1", "depth-2", "depth-3"][depth]);
            for level in 0..depth {
                let src_idx = objects.len() - 1;
                let src = objects[src_idx].content.clone();
                let nops = t.range(0, 10);
                let mut ops = Vec::new();
                for _ in 0..nops {
                    if src.is_empty() || t.chance(80) {
                        let n = match t.weighted(&[4, 1, 1]) {
                            0 => t.range(1, 20),
                            1 => 127,
                            _ => t.range(100, 127),
                        };
                        ops.push(Op::Insert(rng.fill(n)));
                    } else {
                        let max_size = src.len().min(0x10000);
                        let size = match t.weighted(&[4, 3, 2, 2]) {
                            0 => t.range(1, max_size.min(64)),
                            1 => max_size, // 0x10000 when the source is large enough
                            2 => *t.pick(&[0x100usize, 0xff, 0x101, 0xff00, 0xffff, 0x1000, 0x8000]),
                            _ => t.range(1, max_size),
                        }
                        .clamp(1, max_size);
                        let max_ofs = src.len() - size;
                        let ofs = match if max_ofs > 1 << 24 && t.bool() { 4 } else { t.weighted(&[3, 3, 3, 1]) } {
                            4 => (1 << 24) + t.below(max_ofs - (1 << 24) + 1),
                            0 => t.below(max_ofs + 1),
                            1 => *t.pick(&[
                                0usize, 0xff, 0x100, 0xffff, 0x10000, 0x10001, 0x1ff00, 0x20000, 0xff_ffff, 0x100_0000, 0x100_0001, 0x100_ff00, 0x101_0000,
                            ]),
                            2 => {
                                // sparse: one non-zero byte only
                                let k = t.below(4);
                                (t.range(1, 255)) << (8 * k)
                            }
                            _ => max_ofs,
                        }
                        .min(max_ofs);
                        ops.push(Op::Copy {
                            ofs: ofs as u32,
                            size: size as u32,
                        });
                    }
                }
                // git's patch_delta refuses deltas shorter than 4 bytes (DELTA_SIZE_MIN) and pack-objects never makes a
                // delta for an empty target: stay inside what git produces
                {
                    let (d, len) = encode_delta(src.len(), &ops);
                    if d.len() < 4 || len == 0 {
                        ops.push(Op::Insert(rng.fill(2)));
                    }
                }
                let (delta, result_len) = encode_delta(src.len(), &ops);
                let (target, st) = match model_apply(&src, &delta) {
                    Ok(x) => x,
                    Err(e) => panic!("harness delta encoder/interpreter disagree: {e}"),
                };
                assert_eq!(target.len(), result_len);
                c.label_if(st.copy_64k, "delta-copy-0x10000");
                c.label_if(st.max_copy_ofs >= 1 << 16, "delta-copy-offset>=2^16");
                c.label_if(st.max_copy_ofs >= 1 << 24, "delta-copy-offset>=2^24");
                c.label_if(st.sparse_ofs, "delta-sparse-offset-bytes");
                c.label_if(st.inserts > 0 && st.copies > 0, "delta-copy+insert");
                c.label_if(st.copies == 0, "delta-insert-only");
                c.nontrivial(st.copy_64k || st.max_copy_ofs >= 1 << 16);
                let is_ref = t.chance(80);
                c.label(if is_ref { "ref-delta" } else { "ofs-delta" });
                described.push(format!(
                    "  {}-delta: {}",
                    if is_ref { "ref" } else { "ofs" },
                    ops.iter()
                        .map(|o| match o {
                            Op::Copy { ofs, size } => format!("C{ofs:#x}+{size:#x}"),
                            Op::Insert(d) => format!("I{}", d.len()),
                        })
                        .collect::<Vec<_>>()
                        .join(",")
                ));
                objects.push(Obj {
                    content: target,
                    delta: Some((src_idx, delta, is_ref)),
                    depth: level as u32 + 1,
                });
            }
        }
        c.key(&(
            rng.0,
            objects
                .iter()
                .map(|o| (o.content.len(), o.delta.as_ref().map(|d| (d.0, &d.1, d.2))))
                .collect::<Vec<_>>(),
        ));
        c.sample_with(|| described.join("; "));
        // identical objects in one pack would confuse the id->offset map: discard (rare)
        let ids: Vec<[u8; 20]> = objects.iter().map(|o| id20(&object_sha1("blob", &o.content)).expect("sha1")).collect();
        {
            let mut s = ids.clone();
            s.sort();
            s.dedup();
            if s.len() != ids.len() {
                c.discard();
                return;
            }
        }
        // assemble the pack with the model header encoder
        let mut packbytes = b"PACK\0\0\0\x02".to_vec();
        packbytes.extend_from_slice(&(objects.len() as u32).to_be_bytes());
        let mut offsets: Vec<u64> = Vec::new();
        for o in &objects {
            let ofs = packbytes.len() as u64;
            offsets.push(ofs);
            match &o.delta {
                None => {
                    packbytes.extend(model_header(T_BLOB, o.content.len() as u64, &MBase::None));
                    packbytes.extend(zlib(&o.content));
                }
                Some((base_idx, delta, is_ref)) => {
                    let base = if *is_ref {
                        MBase::Ref(ids[*base_idx])
                    } else {
                        MBase::Ofs((ofs - offsets[*base_idx]) as u128)
                    };
                    packbytes.extend(model_header(if *is_ref { T_REF } else { T_OFS }, delta.len() as u64, &base));
                    packbytes.extend(zlib(delta));
                }
            }
        }
        let trailer = unhex(&sha1_hex(&packbytes)).expect("hex");
        packbytes.extend(trailer);

        let scratch = infra!(c, Scratch::new("c07"), "scratch");
        let git = Git::new(&scratch.path, &scratch.path);
        let pack_path = scratch.join("pack-crafted.pack");
        infra!(c, std::fs::write(&pack_path, &packbytes), "write pack");
        // the oracle: git must accept the pack (it applies every delta and names the results by their SHA-1); the ids
        // it records in the index must be the ids of the harness' targets, else the harness model is wrong
        infra!(
            c,
            git.run(["index-pack".to_string(), pack_path.display().to_string()]),
            "git index-pack rejected the crafted pack"
        );
        let idx = infra!(c, std::fs::read(scratch.join("pack-crafted.idx")), "read idx written by git");
        let git_ids: Vec<[u8; 20]> = if idx.len() >= 8 + 1024 && &idx[..8] == b"\xfftOc\0\0\0\x02" {
            let n = u32::from_be_bytes(idx[8 + 1020..8 + 1024].try_into().expect("4")) as usize;
            (0..n).filter_map(|i| idx.get(8 + 1024 + 20 * i..8 + 1024 + 20 * i + 20).and_then(|b| b.try_into().ok())).collect()
        } else {
            vec![]
        };
        {
            let mut want = ids.clone();
            want.sort();
            if git_ids != want {
                println!(
                    "MODEL-BUG: property=C07 git names the objects of the crafted pack {:?}, the harness model {:?}",
                    git_ids.iter().map(|i| hex(i)).collect::<Vec<_>>(),
                    want.iter().map(|i| hex(i)).collect::<Vec<_>>()
                );
                c.infra("git disagrees with the harness delta model");
                return;
            }
        }
        let by_id: BTreeMap<[u8; 20], u64> = ids.iter().copied().zip(offsets.iter().copied()).collect();
        let pack = match gix_pack::data::File::at(&pack_path, gix_hash::Kind::Sha1) {
            Ok(p) => p,
            Err(e) => {
                c.fail(format!("data::File::at failed on a pack git accepts: {e}"));
                return;
            }
        };
        for (i, (ofs, obj)) in offsets.iter().zip(&objects).enumerate() {
            let (got, outcome) = match gix_decode(&pack, *ofs, &by_id) {
                Ok(x) => x,
                Err(e) => {
                    c.fail_sig("decode-error", format!("object #{i} at {ofs}: {e}"));
                    return;
                }
            };
            ensure_sig!(
                c,
                "delta-result-differs",
                got == obj.content,
                "object #{i} (delta depth {}) decodes to {} bytes, git and the model give {} bytes; first difference at {:?}",
                obj.depth,
                got.len(),
                obj.content.len(),
                got.iter().zip(obj.content.iter()).position(|(a, b)| a != b)
            );
            ensure!(
                c,
                outcome.kind == gix_object::Kind::Blob && outcome.object_size == obj.content.len() as u64 && outcome.num_deltas == obj.depth,
                "outcome {outcome:?} for object #{i} of {} bytes at depth {}",
                obj.content.len(),
                obj.depth
            );
        }
    });

    ck.finish();
}
