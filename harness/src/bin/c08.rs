//! C08 — objects read from packs are exact, whatever caches are used.
//!
//! One case = one world: a generated history (files evolving by small edits so that delta chains form; trees, commits,
//! annotated tags; 1..3 import segments) is imported with `git fast-import` and packed by real git
//! (`git repack -f --depth=D --window=W`, ofs- or ref-deltas, pack index v1/v2, optionally one pack per segment, an
//! extra overlapping pack made by `git pack-objects`, a multi-pack-index, and/or the last segment left loose).
//! A generated request sequence (40..400 requests with repetitions, chain-neighbour locality, header-only requests,
//! missing ids and a tape-driven treatment of the reused output buffer) is then served
//!   * at pack level through `Bundle::find` / `data::File::decode_header` with ONE cache instance shared by all packs
//!     for each of 16 delta-cache configurations (`Never`, `StaticLinkedList<1|2|64>` x limits {0,1,64,1024},
//!     `MemoryCappedHashmap` {1,100,10240}), and
//!   * at store level through `gix_odb::at(..)` (+ pack cache, + object cache `MemoryCappedHashmap` {1,1024,1 MiB} /
//!     `Never`) with `try_find` / `try_header`.
//! Oracle: `git cat-file --batch-all-objects --batch` of the same repository (fetched once per world, each entry
//! validated against the harness' SHA-1): every answer must have git's kind and bytes, headers git's kind and size,
//! missing ids must be reported missing — for every configuration, order and repetition.
//! A second sub-check (`cache-model`) drives every cache implementation alone with generated put/get sequences under
//! the read path's invariant (a key always carries the same value): a cache may forget, it may never lie.
use std::collections::BTreeMap;
use std::path::{Path, PathBuf};

use gix_object::Kind;
use gix_pack::cache::DecodeEntry;
use vp::*;

struct Rng(u64);
impl Rng {
    fn next(&mut self) -> u64 {
        let mut x = self.0;
        x ^= x >> 12;
        x ^= x << 25;
        x ^= x >> 27;
        self.0 = x;
        x.wrapping_mul(0x2545F4914F6CDD1D)
    }
    fn below(&mut self, n: usize) -> usize {
        ((self.next() >> 33) as usize) % n.max(1)
    }
    fn fill(&mut self, n: usize) -> Vec<u8> {
        let mut v = Vec::with_capacity(n + 8);
        while v.len() < n {
            v.extend_from_slice(&self.next().to_le_bytes());
        }
        v.truncate(n);
        v
    }
}

const WORDS: &[&str] = &[
    "alpha", "beta", "gamma", "delta", "pack", "index", "object", "fn", "let", "mut", "return", "struct", "impl", "0", "1", "42", "->", "{", "}", "//",
];

fn text_lines(rng: &mut Rng, approx: usize) -> Vec<u8> {
    let mut v = Vec::with_capacity(approx + 40);
    let mut n = 0;
    while v.len() < approx {
        n += 1;
        let words = 1 + rng.below(6);
        v.extend_from_slice(format!("{n:04} ").as_bytes());
        for _ in 0..words {
            v.extend_from_slice(WORDS[rng.below(WORDS.len())].as_bytes());
            v.push(b' ');
        }
        v.extend_from_slice(format!("{:x}\n", rng.next() & 0xffff).as_bytes());
    }
    v
}

fn new_content(t: &mut Tape, rng: &mut Rng) -> Vec<u8> {
    let len = match t.weighted(&[2, 5, 4, 1]) {
        0 => t.range(0, 60),
        1 => t.range(200, 2500),
        2 => t.range(2500, 20_000),
        _ => t.range(60_000, 140_000),
    };
    if t.chance(200) {
        text_lines(rng, len)
    } else {
        rng.fill(len)
    }
}

/// One edit step producing the next version of a file.
fn mutate(t: &mut Tape, rng: &mut Rng, prev: &[u8]) -> Vec<u8> {
    let mut v = prev.to_vec();
    for _ in 0..t.range(1, 3) {
        match t.weighted(&[4, 4, 3, 3, 2, 3, 1, 1]) {
            0 => {
                for _ in 0..t.range(1, 4) {
                    if v.is_empty() {
                        break;
                    }
                    let p = t.below(v.len());
                    let n = t.range(1, 12).min(v.len() - p);
                    let r = rng.fill(n);
                    v[p..p + n].copy_from_slice(&r);
                }
            }
            1 => {
                let p = t.below(v.len() + 1);
                let n = t.range(1, 300);
                let r = text_lines(rng, n);
                v.splice(p..p, r);
            }
            2 => {
                if !v.is_empty() {
                    let p = t.below(v.len());
                    let n = t.range(1, 400).min(v.len() - p);
                    v.drain(p..p + n);
                }
            }
            3 => {
                if v.len() > 4 {
                    let a = t.below(v.len() - 1);
                    let n = 1 + t.below((v.len() - a).min(3000));
                    let block: Vec<u8> = v.drain(a..a + n).collect();
                    let p = t.below(v.len() + 1);
                    v.splice(p..p, block);
                }
            }
            4 => {
                if v.len() > 4 {
                    let a = t.below(v.len() - 1);
                    let n = 1 + t.below((v.len() - a).min(3000));
                    let block = v[a..a + n].to_vec();
                    let p = t.below(v.len() + 1);
                    v.splice(p..p, block);
                }
            }
            5 => {
                let n = t.range(1, 200);
                let r = text_lines(rng, n);
                if t.bool() {
                    v.extend(r);
                } else {
                    v.splice(0..0, r);
                }
            }
            6 => v.clear(),
            _ => {
                let mid = v.len() / 2;
                v.rotate_left(mid);
            }
        }
    }
    v
}

const PATHS: &[(&str, &str)] = &[
    ("a.txt", "100644"),
    ("b.rs", "100644"),
    ("src/lib.rs", "100644"),
    ("src/main.rs", "100644"),
    ("src/x/deep.c", "100644"),
    ("src/x/deeper/y.h", "100644"),
    ("docs/readme.md", "100644"),
    ("bin/tool", "100755"),
    ("data.bin", "100644"),
    ("z-last", "100644"),
    ("src.txt", "100644"),
    ("link", "120000"),
    ("docs/guide/ch1.md", "100644"),
    ("docs/guide/ch2.md", "100644"),
];

struct History {
    /// one fast-import stream per segment
    segments: Vec<Vec<u8>>,
    ncommits: usize,
    ntags: usize,
}

fn put_data(out: &mut Vec<u8>, d: &[u8]) {
    out.extend_from_slice(format!("data {}\n", d.len()).as_bytes());
    out.extend_from_slice(d);
    out.push(b'\n');
}

fn gen_history(t: &mut Tape, rng: &mut Rng, nseg: usize, long: bool) -> History {
    let mut files: Vec<(usize, Vec<u8>)> = Vec::new(); // (index into PATHS, content)
    let mut many: Vec<Vec<u8>> = Vec::new(); // contents of many/fNN
    let mut segments = Vec::new();
    let mut ncommits = 0;
    let mut ntags = 0;
    let mut time = 1_000_000_000u64;
    for seg in 0..nseg {
        let mut s: Vec<u8> = Vec::new();
        let commits_here = if long { t.range(12, 40) } else { t.range(2, 14) };
        for ci in 0..commits_here {
            ncommits += 1;
            time += 1 + t.below(1000) as u64;
            s.extend_from_slice(b"commit refs/heads/main\n");
            s.extend_from_slice(format!("mark :{}\n", ci + 1).as_bytes());
            s.extend_from_slice(format!("author A U Thor <author@example.com> {time} +0100\n").as_bytes());
            s.extend_from_slice(format!("committer C O Mitter <committer@example.com> {time} -0230\n").as_bytes());
            let msg = if t.chance(24) { text_lines(rng, t.range(500, 3000)) } else { text_lines(rng, t.range(5, 120)) };
            put_data(&mut s, &msg);
            if ci > 0 {
                s.extend_from_slice(format!("from :{ci}\n").as_bytes());
            } else if seg > 0 {
                s.extend_from_slice(b"from refs/heads/main^0\n");
            }
            let nops = t.range(1, 4);
            for _ in 0..nops {
                let op = if files.is_empty() { 0 } else { t.weighted(&[3, 8, 1, 2]) };
                match op {
                    0 => {
                        // add (or replace) a file
                        let pi = t.below(PATHS.len());
                        let existing = files.iter().position(|f| f.0 == pi);
                        let content = if PATHS[pi].1 == "120000" {
                            format!("src/target-{}", t.below(50)).into_bytes()
                        } else if let Some(pos) = existing {
                            let prev = files[pos].1.clone();
                            mutate(t, rng, &prev)
                        } else {
                            new_content(t, rng)
                        };
                        s.extend_from_slice(format!("M {} inline {}\n", PATHS[pi].1, PATHS[pi].0).as_bytes());
                        put_data(&mut s, &content);
                        match existing {
                            Some(pos) => files[pos].1 = content,
                            None => files.push((pi, content)),
                        }
                    }
                    1 => {
                        // the oldest file is "hot": it collects many versions, so long delta chains can form
                        let fi = if t.bool() { 0 } else { t.below(files.len()) };
                        let (pi, prev) = files[fi].clone();
                        let content = if PATHS[pi].1 == "120000" {
                            format!("src/target-{}", t.below(50)).into_bytes()
                        } else {
                            mutate(t, rng, &prev)
                        };
                        s.extend_from_slice(format!("M {} inline {}\n", PATHS[pi].1, PATHS[pi].0).as_bytes());
                        put_data(&mut s, &content);
                        files[fi].1 = content;
                    }
                    2 => {
                        let fi = t.below(files.len());
                        let (pi, _) = files.remove(fi);
                        s.extend_from_slice(format!("D {}\n", PATHS[pi].0).as_bytes());
                    }
                    _ => {
                        // a directory with many small files (large trees that deltify across commits)
                        if many.is_empty() {
                            let n = t.range(15, 45);
                            // the files are variations of three templates, so that many objects pick the same delta base and the
                            // delta trees branch (several children per base, each with descendants of its own once the files evolve)
                            let templates: Vec<Vec<u8>> = (0..3)
                                .map(|_| {
                                    let l = 300 + rng.below(2500);
                                    text_lines(rng, l)
                                })
                                .collect();
                            for i in 0..n {
                                let mut content = templates[i % 3].clone();
                                for _ in 0..1 + rng.below(3) {
                                    let pos = rng.below(content.len());
                                    let k = 1 + rng.below(8);
                                let r = rng.fill(k);
                                    let end = (pos + r.len()).min(content.len());
                                    content[pos..end].copy_from_slice(&r[..end - pos]);
                                }
                                content.extend_from_slice(format!("file {i}\n").as_bytes());
                                s.extend_from_slice(format!("M 100644 inline many/f{i:02}.txt\n").as_bytes());
                                put_data(&mut s, &content);
                                many.push(content);
                            }
                        } else {
                            for _ in 0..t.range(2, 8) {
                                let i = t.below(many.len());
                                let content = mutate(t, rng, &many[i]);
                                s.extend_from_slice(format!("M 100644 inline many/f{i:02}.txt\n").as_bytes());
                                put_data(&mut s, &content);
                                many[i] = content;
                            }
                        }
                    }
                }
            }
            if t.chance(40) {
                ntags += 1;
                s.extend_from_slice(format!("tag v{seg}.{ci}\nfrom :{}\ntagger T Agger <tagger@example.com> {time} +0000\n", ci + 1).as_bytes());
                let msg = text_lines(rng, t.range(5, 300));
                put_data(&mut s, &msg);
            }
        }
        segments.push(s);
    }
    History { segments, ncommits, ntags }
}

type Id = [u8; 20];

fn id20(hex_id: &str) -> Option<Id> {
    unhex(hex_id)?.try_into().ok()
}

fn parse_kind(s: &str) -> Option<Kind> {
    Some(match s {
        "blob" => Kind::Blob,
        "tree" => Kind::Tree,
        "commit" => Kind::Commit,
        "tag" => Kind::Tag,
        _ => return None,
    })
}

fn kind_name(k: Kind) -> &'static str {
    match k {
        Kind::Commit => "commit",
        Kind::Tree => "tree",
        Kind::Blob => "blob",
        Kind::Tag => "tag",
    }
}

/// parse `git cat-file --batch-all-objects --batch` output
fn parse_batch(mut d: &[u8]) -> Result<BTreeMap<Id, (Kind, Vec<u8>)>, String> {
    let mut m = BTreeMap::new();
    while !d.is_empty() {
        let nl = d.iter().position(|b| *b == b'\n').ok_or("no newline in batch header")?;
        let line = std::str::from_utf8(&d[..nl]).map_err(|_| "non-utf8 batch header")?;
        let f: Vec<&str> = line.split(' ').collect();
        if f.len() != 3 {
            return Err(format!("unexpected batch header {line:?}"));
        }
        let id = id20(f[0]).ok_or("bad id")?;
        let kind = parse_kind(f[1]).ok_or("bad kind")?;
        let size: usize = f[2].parse().map_err(|_| "bad size")?;
        let start = nl + 1;
        if d.len() < start + size + 1 {
            return Err("short batch output".into());
        }
        let body = d[start..start + size].to_vec();
        if object_sha1(f[1], &body) != f[0] {
            return Err(format!("git printed content for {} that does not hash to it", f[0]));
        }
        m.insert(id, (kind, body));
        d = &d[start + size + 1..];
    }
    Ok(m)
}

#[derive(Clone, Debug)]
struct EntryInfo {
    depth: u32,
    base: Option<Id>,
}

/// Delta relations of a pack, read from the entry headers (used for request locality, labels and the non-trivial
/// rule only — never for the verdict).
fn delta_structure(bundle: &gix_pack::Bundle) -> Result<BTreeMap<Id, EntryInfo>, String> {
    use gix_pack::data::entry::Header;
    let mut by_offset: BTreeMap<u64, Id> = BTreeMap::new();
    for e in bundle.index.iter() {
        let id: Id = e.oid.as_bytes().try_into().map_err(|_| "not a sha1 id")?;
        by_offset.insert(e.pack_offset, id);
    }
    let mut base_of: BTreeMap<Id, Option<Id>> = BTreeMap::new();
    for (ofs, id) in &by_offset {
        let entry = bundle.pack.entry(*ofs).map_err(|e| format!("entry({ofs}): {e}"))?;
        let base = match entry.header {
            Header::OfsDelta { base_distance } => Some(*by_offset.get(&(ofs.wrapping_sub(base_distance))).ok_or("ofs-delta base is not an entry")?),
            Header::RefDelta { base_id } => Some(base_id.as_bytes().try_into().map_err(|_| "not a sha1 id")?),
            _ => None,
        };
        base_of.insert(*id, base);
    }
    let mut m = BTreeMap::new();
    for (id, base) in &base_of {
        let mut depth = 0;
        let mut cur = *base;
        while let Some(b) = cur {
            depth += 1;
            if depth > 10_000 {
                return Err("delta cycle".into());
            }
            cur = base_of.get(&b).copied().flatten();
        }
        m.insert(*id, EntryInfo { depth, base: *base });
    }
    Ok(m)
}

// ------------------------------------------------------------------------------------------------ cache configurations

const N_PACK_CACHES: usize = 16;

fn pack_cache_name(i: usize) -> String {
    const LIMITS: [usize; 4] = [0, 1, 64, 1024];
    match i {
        0 => "Never".into(),
        1..=4 => format!("StaticLinkedList<1>({})", LIMITS[i - 1]),
        5..=8 => format!("StaticLinkedList<2>({})", LIMITS[i - 5]),
        9..=12 => format!("StaticLinkedList<64>({})", LIMITS[i - 9]),
        _ => format!("lru::MemoryCappedHashmap({})", [1usize, 100, 10240][i - 13]),
    }
}

fn make_pack_cache(i: usize) -> Box<dyn DecodeEntry + Send + 'static> {
    use gix_pack::cache::lru::{MemoryCappedHashmap, StaticLinkedList};
    const LIMITS: [usize; 4] = [0, 1, 64, 1024];
    match i {
        0 => Box::new(gix_pack::cache::Never),
        1..=4 => Box::new(StaticLinkedList::<1>::new(LIMITS[i - 1])),
        5..=8 => Box::new(StaticLinkedList::<2>::new(LIMITS[i - 5])),
        9..=12 => Box::new(StaticLinkedList::<64>::new(LIMITS[i - 9])),
        _ => Box::new(MemoryCappedHashmap::new([1usize, 100, 10240][i - 13])),
    }
}

const N_OBJ_CACHES: usize = 5;

fn obj_cache_name(j: usize) -> String {
    match j {
        0 => "none".into(),
        1 => "object::Never".into(),
        _ => format!("object::MemoryCappedHashmap({})", [1usize, 1024, 1 << 20][j - 2]),
    }
}

fn make_obj_cache(j: usize) -> Box<dyn gix_pack::cache::Object + Send + 'static> {
    match j {
        1 => Box::new(gix_pack::cache::object::Never),
        _ => Box::new(gix_pack::cache::object::MemoryCappedHashmap::new([1usize, 1024, 1 << 20][j.max(2) - 2])),
    }
}

// ------------------------------------------------------------------------------------------------ requests

#[derive(Clone, Debug, Hash)]
struct Req {
    id: Id,
    /// the id is not in the repository
    missing: bool,
    header_only: bool,
    /// which of the packs containing the object serves it at pack level
    pick: u8,
    /// 0 keep, 1 clear, 2 fresh, 3 fill with garbage of `fill` bytes, 4 truncate to 1
    buf_op: u8,
    fill: u32,
}

struct PackInfo {
    path: PathBuf,
    bundle: gix_pack::Bundle,
    entries: BTreeMap<Id, EntryInfo>,
}

fn apply_buf_op(buf: &mut Vec<u8>, r: &Req) {
    match r.buf_op {
        1 => buf.clear(),
        2 => *buf = Vec::new(),
        3 => {
            buf.clear();
            buf.resize(r.fill as usize, 0xAA);
        }
        4 => buf.truncate(1),
        _ => {}
    }
}

fn differs(got_kind: Kind, got: &[u8], want: &(Kind, Vec<u8>)) -> Option<String> {
    if got_kind == want.0 && got == want.1.as_slice() {
        return None;
    }
    Some(format!(
        "got {} of {} bytes, git has {} of {} bytes; first difference at {:?}",
        kind_name(got_kind),
        got.len(),
        kind_name(want.0),
        want.1.len(),
        got.iter().zip(want.1.iter()).position(|(a, b)| a != b)
    ))
}

/// Serve the request sequence at pack level with one delta cache shared by all packs.
fn run_pack_level(
    packs: &[PackInfo],
    reqs: &[Req],
    oracle: &BTreeMap<Id, (Kind, Vec<u8>)>,
    cache: &mut dyn DecodeEntry,
) -> Result<(), (&'static str, String)> {
    let mut out: Vec<u8> = Vec::new();
    let mut inflate = gix_features::zlib::Inflate::default();
    for (ri, r) in reqs.iter().enumerate() {
        apply_buf_op(&mut out, r);
        let oid = gix_hash::ObjectId::from(r.id);
        let holders: Vec<&PackInfo> = packs.iter().filter(|p| p.entries.contains_key(&r.id)).collect();
        if holders.is_empty() {
            // loose or missing: no pack may claim to have it
            for p in packs {
                match p.bundle.find(&oid, &mut out, &mut inflate, cache) {
                    Ok(None) => {}
                    Ok(Some((d, _))) => {
                        return Err((
                            "pack-invents-object",
                            format!("request #{ri}: pack {} returns {} of {} bytes for {} which it does not contain", p.path.display(), kind_name(d.kind), d.data.len(), hex(&r.id)),
                        ))
                    }
                    Err(e) => return Err(("pack-find-error", format!("request #{ri}: find({}) for an object not in the pack failed: {e}", hex(&r.id)))),
                }
            }
            continue;
        }
        let p = holders[r.pick as usize % holders.len()];
        let want = &oracle[&r.id];
        let info = &p.entries[&r.id];
        if r.header_only {
            let Some(idx) = p.bundle.index.lookup(&oid) else {
                return Err(("pack-misses-object", format!("request #{ri}: index of {} has no entry for {}", p.path.display(), hex(&r.id))));
            };
            let entry = p
                .bundle
                .pack
                .entry(p.bundle.index.pack_offset_at_index(idx))
                .map_err(|e| ("pack-find-error", format!("request #{ri}: entry(): {e}")))?;
            let resolve = |id: &gix_hash::oid| {
                let idx = p.bundle.index.lookup(id)?;
                p.bundle
                    .pack
                    .entry(p.bundle.index.pack_offset_at_index(idx))
                    .ok()
                    .map(gix_pack::data::decode::header::ResolvedBase::InPack)
            };
            match p.bundle.pack.decode_header(entry, &mut inflate, &resolve) {
                Ok(h) => {
                    if h.kind != want.0 || h.object_size != want.1.len() as u64 {
                        return Err((
                            "header-differs",
                            format!(
                                "request #{ri}: decode_header({}) (delta depth {}) = {} of {} bytes, git has {} of {} bytes",
                                hex(&r.id),
                                info.depth,
                                kind_name(h.kind),
                                h.object_size,
                                kind_name(want.0),
                                want.1.len()
                            ),
                        ));
                    }
                }
                Err(e) => return Err(("pack-find-error", format!("request #{ri}: decode_header({}) failed: {e}", hex(&r.id)))),
            }
            continue;
        }
        match p.bundle.find(&oid, &mut out, &mut inflate, cache) {
            Ok(Some((d, _loc))) => {
                if let Some(m) = differs(d.kind, d.data, want) {
                    return Err((
                        "object-differs",
                        format!("request #{ri}: Bundle::find({}) (delta depth {} in {}): {m}", hex(&r.id), info.depth, p.path.file_name().unwrap_or_default().to_string_lossy()),
                    ));
                }
            }
            Ok(None) => return Err(("pack-misses-object", format!("request #{ri}: Bundle::find({}) = None although git's index lists it", hex(&r.id)))),
            Err(e) => return Err(("pack-find-error", format!("request #{ri}: Bundle::find({}) (delta depth {}) failed: {e}", hex(&r.id), info.depth))),
        }
    }
    Ok(())
}

/// Serve the request sequence through the general object database handle.
fn run_store_level(
    objects: &Path,
    reqs: &[Req],
    oracle: &BTreeMap<Id, (Kind, Vec<u8>)>,
    pack_cache: Option<usize>,
    obj_cache: usize,
    use_midx: bool,
) -> Result<(), (&'static str, String)> {
    let mut handle = gix_odb::at_opts(
        objects,
        Vec::new(),
        gix_odb::store::init::Options {
            use_multi_pack_index: use_midx,
            ..Default::default()
        },
    )
    .map_err(|e| ("store-open-error", format!("gix_odb::at_opts failed: {e}")))?;
    if let Some(i) = pack_cache {
        handle.set_pack_cache(move || make_pack_cache(i));
    }
    if obj_cache != 0 {
        handle.set_object_cache(move || make_obj_cache(obj_cache));
    }
    let mut out: Vec<u8> = Vec::new();
    for (ri, r) in reqs.iter().enumerate() {
        apply_buf_op(&mut out, r);
        let oid = gix_hash::ObjectId::from(r.id);
        let want = oracle.get(&r.id);
        if r.header_only {
            match (gix_odb::Header::try_header(&handle, &oid), want) {
                (Ok(None), None) => {}
                (Ok(Some(h)), Some(w)) => {
                    if h.kind() != w.0 || h.size() != w.1.len() as u64 {
                        return Err(("header-differs", format!("request #{ri}: try_header({}) = {h:?}, git has {} of {} bytes", hex(&r.id), kind_name(w.0), w.1.len())));
                    }
                }
                (Ok(Some(h)), None) => return Err(("store-invents-object", format!("request #{ri}: try_header({}) = {h:?} for an id that is not in the repository", hex(&r.id)))),
                (Ok(None), Some(_)) => return Err(("store-misses-object", format!("request #{ri}: try_header({}) = None, git has the object", hex(&r.id)))),
                (Err(e), _) => return Err(("store-find-error", format!("request #{ri}: try_header({}) failed: {e}", hex(&r.id)))),
            }
            continue;
        }
        match (gix_object::Find::try_find(&handle, &oid, &mut out), want) {
            (Ok(None), None) => {}
            (Ok(Some(d)), Some(w)) => {
                if let Some(m) = differs(d.kind, d.data, w) {
                    return Err(("object-differs", format!("request #{ri}: try_find({}): {m}", hex(&r.id))));
                }
            }
            (Ok(Some(d)), None) => {
                return Err(("store-invents-object", format!("request #{ri}: try_find({}) = {} of {} bytes for an id that is not in the repository", hex(&r.id), kind_name(d.kind), d.data.len())))
            }
            (Ok(None), Some(_)) => return Err(("store-misses-object", format!("request #{ri}: try_find({}) = None, git has the object", hex(&r.id)))),
            (Err(e), _) => return Err(("store-find-error", format!("request #{ri}: try_find({}) failed: {e}", hex(&r.id)))),
        }
    }
    Ok(())
}

pub fn main() {
    let mut ck = Check::new("C08", "exploration");
    ck.rule("world = generated history (1..3 segments of 2..14 commits; 14 paths incl. nested dirs, exec, symlink, a 15..45-file directory; file versions by overwrite/insert/delete/move/duplicate/append/empty/rotate edits; annotated tags) packed by git with depth in 0..50, window in 0..20, ofs- or ref-deltas, idx v1/v2, {single pack, pack per segment, last segment loose} x {extra overlapping pack} x {multi-pack-index}; request sequence of 40..400 (ids with repetition of the last 4, delta-base/child locality, uniform, missing ids; header-only requests; reused output buffer kept/cleared/replaced/garbage-filled/truncated) served under 16 pack-level delta-cache configurations and 6 store-level (pack cache x object cache) configurations. Non-trivial: some full request hits an object of delta depth >= 2 after another object of the same delta chain was requested (so the chain can be partially cached) — bounded caches are always among the configurations. Distinct by hash of history streams, pack options and requests. cache-model: each of the 16 delta caches and 3 object caches alone under 1..120 put/get operations over a small key space ((pack id, offset) incl. offsets >= 2^32 and equal offsets in different packs; object ids) where a key always carries the same value (sizes 0..8, ~64, ~1000, ~10000); non-trivial: at least one cache hit.");
    ck.assume(&format!("oracle: {} (fast-import, repack, pack-objects, multi-pack-index, cat-file --batch-all-objects); every object git prints is re-hashed by the harness", Git::version()));
    ck.assume("at pack level every pack gets a distinct data::File::id, as the shared cache is keyed by (pack id, offset)");

    ck.sub("cached-reads", SubCfg::new(96, 2_400).max_len(6000).max_shrink(16), |t, c| {
        let mut rng = Rng(t.u64() | 1);
        // ---- pack options
        let depth = match t.weighted(&[1, 2, 4, 8]) {
            0 => 0,
            1 => t.range(1, 2),
            2 => t.range(3, 10),
            _ => t.range(11, 50),
        };
        let window = match t.weighted(&[1, 3, 12]) {
            0 => 0,
            1 => t.range(1, 3),
            _ => t.range(4, 20),
        };
        let ofs = !t.chance(96);
        let idx_v1 = t.chance(32);
        let compression = *t.pick(&["", "", "pack.compression=0", "pack.compression=1", "pack.compression=9"]);
        let layout = t.weighted(&[4, 4, 3]); // 0 single pack, 1 pack per segment, 2 per segment + last loose
        let nseg = if layout == 0 { t.range(1, 2) } else { t.range(2, 3) };
        let extra_pack = t.chance(64);
        let midx = t.chance(48);
        let nreq = t.range(40, 400);
        let req_seed = t.u64();
        let long = t.chance(80);
        let hist = gen_history(t, &mut rng, nseg, long);
        c.label_if(long, "long-history");

        c.label(if ofs { "ofs-deltas" } else { "ref-deltas" });
        c.label(["layout-single-pack", "layout-pack-per-segment", "layout-last-segment-loose"][layout]);
        c.label_if(extra_pack, "extra-overlapping-pack");
        c.label_if(midx, "multi-pack-index");
        c.label_if(idx_v1, "idx-v1");
        c.label_if(depth == 0 || window == 0, "no-deltas");

        // ---- build the world
        let world = infra!(c, World::new("c08", true), "world");
        let mut git = world
            .git
            .clone()
            .cfg("fastimport.unpackLimit=1000000")
            .cfg("pack.threads=1")
            .cfg("repack.writeBitmaps=false")
            .cfg(if ofs { "repack.useDeltaBaseOffset=true" } else { "repack.useDeltaBaseOffset=false" })
            .cfg(if idx_v1 { "pack.indexVersion=1" } else { "pack.indexVersion=2" });
        if !compression.is_empty() {
            git = git.cfg(compression);
        }
        let depth_arg = format!("--depth={depth}");
        let window_arg = format!("--window={window}");
        for (si, seg) in hist.segments.iter().enumerate() {
            infra!(c, git.run_in(["fast-import", "--quiet"], Some(seg)), "fast-import");
            let last = si + 1 == hist.segments.len();
            match layout {
                0 => {
                    if last {
                        infra!(c, git.run(["repack", "-a", "-d", "-f", "-q", &depth_arg, &window_arg]), "repack");
                    }
                }
                1 => {
                    infra!(c, git.run(["repack", "-d", "-f", "-q", &depth_arg, &window_arg]), "repack");
                }
                _ => {
                    if !last {
                        infra!(c, git.run(["repack", "-d", "-f", "-q", &depth_arg, &window_arg]), "repack");
                    }
                }
            }
        }
        let objects = world.repo().join("objects");
        let batch = infra!(c, git.run(["cat-file", "--batch-all-objects", "--batch"]), "cat-file --batch-all-objects");
        let oracle = infra!(c, parse_batch(&batch), "parse cat-file output");
        let all_ids: Vec<Id> = oracle.keys().copied().collect();
        if all_ids.is_empty() {
            c.discard();
            return;
        }
        if extra_pack {
            // an additional pack holding every k-th object (duplicates of objects in the other packs / loose ones)
            let k = t.range(2, 4);
            let off = t.below(k);
            let list: String = all_ids.iter().enumerate().filter(|(i, _)| i % k == off).map(|(_, id)| format!("{}\n", hex(id))).collect();
            let mut args = vec!["pack-objects".to_string(), "-q".into(), format!("--depth={}", t.range(0, 20)), format!("--window={}", t.range(0, 10))];
            if t.bool() {
                args.push("--delta-base-offset".into());
            }
            args.push(objects.join("pack/pack").display().to_string());
            infra!(c, git.run_in(&args, Some(list.as_bytes())), "pack-objects (extra pack)");
        }
        if midx {
            infra!(c, git.run(["multi-pack-index", "write"]), "multi-pack-index write");
        }
        // ---- open the packs
        let mut pack_paths: Vec<PathBuf> = infra!(c, std::fs::read_dir(objects.join("pack")), "read pack dir")
            .filter_map(|e| e.ok().map(|e| e.path()))
            .filter(|p| p.extension().and_then(|e| e.to_str()) == Some("idx"))
            .collect();
        pack_paths.sort();
        let mut packs: Vec<PackInfo> = Vec::new();
        for (i, p) in pack_paths.iter().enumerate() {
            let mut bundle = match gix_pack::Bundle::at(p, gix_hash::Kind::Sha1) {
                Ok(b) => b,
                Err(e) => {
                    c.fail_sig("open-error", format!("Bundle::at({}) failed on a pack written by git: {e}", p.display()));
                    return;
                }
            };
            bundle.pack.id = i as u32 + 1;
            let entries = infra!(c, delta_structure(&bundle), "read delta structure");
            packs.push(PackInfo {
                path: p.clone(),
                bundle,
                entries,
            });
        }
        // delta relations over all packs
        let mut max_depth = 0;
        let mut neighbours: BTreeMap<Id, Vec<Id>> = BTreeMap::new();
        let mut depth_of: BTreeMap<Id, u32> = BTreeMap::new();
        for p in &packs {
            for (id, e) in &p.entries {
                max_depth = max_depth.max(e.depth);
                let d = depth_of.entry(*id).or_default();
                *d = (*d).max(e.depth);
                if let Some(b) = e.base {
                    neighbours.entry(*id).or_default().push(b);
                    neighbours.entry(b).or_default().push(*id);
                }
            }
        }
        c.label(match max_depth {
            0 => "max-depth-0",
            1 => "max-depth-1",
            2..=4 => "max-depth-2..4",
            5..=15 => "max-depth-5..15",
            _ => "max-depth-16+",
        });
        let packed: usize = all_ids.iter().filter(|id| packs.iter().any(|p| p.entries.contains_key(*id))).count();
        c.label_if(packed < all_ids.len(), "has-loose-objects");
        c.label_if(packs.len() >= 2, "multiple-packs");
        c.label(match all_ids.len() {
            0..=39 => "objects<40",
            40..=119 => "objects-40..119",
            _ => "objects>=120",
        });

        // ---- requests (drawn from a generator seeded by the tape, so that a short tape still yields a varied sequence;
        //      lowering `nreq` on the tape yields a prefix of the same sequence)
        let mut rq = Rng(req_seed | 1);
        let mut reqs: Vec<Req> = Vec::with_capacity(nreq);
        for _ in 0..nreq {
            let how = if reqs.is_empty() { 2 } else { [0, 0, 0, 0, 0, 1, 1, 1, 2, 2, 2, 2, 2, 2, 3][rq.below(15)] };
            let (id, missing) = match how {
                0 => {
                    // a delta neighbour of one of the last two requests
                    let back = 1 + rq.below(2.min(reqs.len()));
                    let prev = reqs[reqs.len() - back].id;
                    match neighbours.get(&prev) {
                        Some(n) if !n.is_empty() => (n[rq.below(n.len())], false),
                        _ => (all_ids[rq.below(all_ids.len())], false),
                    }
                }
                1 => {
                    let back = 1 + rq.below(4.min(reqs.len()));
                    let r = &reqs[reqs.len() - back];
                    (r.id, r.missing)
                }
                2 => (all_ids[rq.below(all_ids.len())], false),
                _ => {
                    let mut id: Id = rq.fill(20).try_into().expect("20 bytes");
                    if rq.below(2) == 0 {
                        // share a long prefix with an existing object
                        let e = all_ids[rq.below(all_ids.len())];
                        id[..19].copy_from_slice(&e[..19]);
                        id[19] = e[19] ^ 0x01;
                    }
                    let missing = !oracle.contains_key(&id);
                    (id, missing)
                }
            };
            let buf_op = [0u8, 0, 0, 0, 0, 0, 0, 0, 1, 1, 2, 2, 3, 3, 3, 4][rq.below(16)];
            let fill = if buf_op == 3 {
                match rq.below(6) {
                    0..=2 => 1 + rq.below(200) as u32,
                    3..=4 => 200 + rq.below(20_000) as u32,
                    _ => 20_000 + rq.below(380_000) as u32,
                }
            } else {
                0
            };
            reqs.push(Req {
                id,
                missing,
                header_only: rq.below(6) == 0,
                pick: rq.below(256) as u8,
                buf_op,
                fill,
            });
        }
        // non-trivial: a full request for a depth>=2 object preceded by a request on the same chain
        let mut seen: std::collections::BTreeSet<Id> = Default::default();
        let mut partial_chain = false;
        let mut deep_requests = 0;
        for r in &reqs {
            if !r.header_only && depth_of.get(&r.id).copied().unwrap_or(0) >= 2 {
                deep_requests += 1;
                // walk the chain towards the base in every pack
                for p in &packs {
                    let mut cur = r.id;
                    let mut guard = 0;
                    while let Some(b) = p.entries.get(&cur).and_then(|e| e.base) {
                        if seen.contains(&b) {
                            partial_chain = true;
                        }
                        cur = b;
                        guard += 1;
                        if guard > 200 {
                            break;
                        }
                    }
                }
                if seen.contains(&r.id) {
                    partial_chain = true;
                }
            }
            if !r.header_only {
                seen.insert(r.id);
            }
        }
        c.label_if(deep_requests > 0, "requests-depth>=2");
        c.label_if(partial_chain, "partially-cached-chain");
        c.label_if(reqs.iter().any(|r| r.missing), "has-missing-id");
        c.nontrivial(partial_chain);
        c.key(&(&hist.segments, depth, window, ofs, idx_v1, compression, layout, extra_pack, midx, &reqs));
        c.sample_with(|| {
            format!(
                "{} commits, {} tags, {} objects ({} packed in {} packs, max delta depth {max_depth}); depth={depth} window={window} ofs={ofs} idx_v1={idx_v1} layout={layout} extra_pack={extra_pack} midx={midx}; {} requests ({} header-only, {} missing, {} on depth>=2)",
                hist.ncommits,
                hist.ntags,
                all_ids.len(),
                packed,
                packs.len(),
                reqs.len(),
                reqs.iter().filter(|r| r.header_only).count(),
                reqs.iter().filter(|r| r.missing).count(),
                deep_requests
            )
        });

        // ---- pack level: every delta cache configuration, one cache shared by all packs
        for i in 0..N_PACK_CACHES {
            let mut cache = make_pack_cache(i);
            if let Err((sig, msg)) = run_pack_level(&packs, &reqs, &oracle, &mut cache) {
                c.fail_sig(sig, format!("[pack level, delta cache {}] {msg}", pack_cache_name(i)));
                return;
            }
        }
        // ---- store level: no caches, then 5 generated (pack cache, object cache) combinations
        let mut combos: Vec<(Option<usize>, usize)> = vec![(None, 0)];
        for _ in 0..5 {
            let pc = if t.chance(40) { None } else { Some(t.below(N_PACK_CACHES)) };
            combos.push((pc, t.below(N_OBJ_CACHES)));
        }
        for (pc, oc) in combos {
            if let Err((sig, msg)) = run_store_level(&objects, &reqs, &oracle, pc, oc, midx) {
                c.fail_sig(
                    sig,
                    format!(
                        "[store level, pack cache {}, object cache {}] {msg}",
                        pc.map(pack_cache_name).unwrap_or_else(|| "none".into()),
                        obj_cache_name(oc)
                    ),
                );
                return;
            }
        }
    });

    // ---------------------------------------------------------------------------------------------------------------
    // The caches in isolation, under the invariant of the real read path: a key always carries the same value
    // (an object at (pack, offset) / with a given id never changes). A cache may forget, but it may never lie.
    ck.sub("cache-model", SubCfg::new(20_000, 600_000).max_len(500), |t, c| {
        let which = t.below(N_PACK_CACHES + 3);
        let value_of = |pack: u32, offset: u64, seed: u64| -> (Vec<u8>, Kind, usize) {
            let mut r = Rng((seed ^ (u64::from(pack) << 40) ^ offset.wrapping_mul(0x9E37_79B9_7F4A_7C15)) | 1);
            let len = match r.below(8) {
                0 => r.below(9),
                1 => 8 + r.below(60),
                2..=4 => 50 + r.below(30),
                5 => 900 + r.below(300),
                6 => 10_000 + r.below(500),
                _ => r.below(200),
            };
            let kind = [Kind::Blob, Kind::Tree, Kind::Commit, Kind::Tag][r.below(4)];
            let csize = r.below(100_000);
            (r.fill(len), kind, csize)
        };
        let seed = t.u64();
        let nops = t.range(1, 120);
        let mut out: Vec<u8> = Vec::new();
        let mut hits = 0;
        let mut puts: std::collections::BTreeSet<(u32, u64)> = Default::default();
        let mut ops_desc: Vec<(bool, u32, u64)> = Vec::new();
        if which < N_PACK_CACHES {
            let mut cache = make_pack_cache(which);
            for _ in 0..nops {
                let is_put = t.chance(110);
                let pack = t.below(3) as u32;
                let offset = [12u64, 13, 200, 4096, 1 << 32, (1 << 32) + 12, u64::MAX][t.below(7)].wrapping_add(if t.chance(64) { t.below(4) as u64 } else { 0 });
                let offset = if offset < 12 { 12 } else { offset };
                ops_desc.push((is_put, pack, offset));
                let (data, kind, csize) = value_of(pack, offset, seed);
                if is_put {
                    cache.put(pack, offset, &data, kind, csize);
                    puts.insert((pack, offset));
                } else {
                    match t.below(4) {
                        0 => out.clear(),
                        1 => out = vec![0xAA; t.range(0, 2000)],
                        2 => out = Vec::new(),
                        _ => {}
                    }
                    match cache.get(pack, offset, &mut out) {
                        Some((k, cs)) => {
                            hits += 1;
                            ensure_sig!(c, "cache-invents-entry", puts.contains(&(pack, offset)), "{}: get({pack}, {offset}) hits although that key was never put", pack_cache_name(which));
                            ensure_sig!(
                                c,
                                "cache-returns-wrong-entry",
                                k == kind && cs == csize && out == data,
                                "{}: get({pack}, {offset}) = ({}, {cs}, {} bytes), the value put for this key is ({}, {csize}, {} bytes)",
                                pack_cache_name(which),
                                kind_name(k),
                                out.len(),
                                kind_name(kind),
                                data.len()
                            );
                        }
                        None => {}
                    }
                }
            }
            c.label("delta-cache");
        } else {
            let j = which - N_PACK_CACHES + 2;
            let mut cache = make_obj_cache(j);
            let mut put_ids: std::collections::BTreeSet<gix_hash::ObjectId> = Default::default();
            for _ in 0..nops {
                let is_put = t.chance(110);
                let n = t.below(12) as u64;
                ops_desc.push((is_put, 0, n));
                let (data, kind, _) = value_of(7, n, seed);
                let id = gix_object::compute_hash(gix_hash::Kind::Sha1, kind, &data);
                if is_put {
                    gix_pack::cache::Object::put(&mut cache, id, kind, &data);
                    put_ids.insert(id);
                } else {
                    if t.bool() {
                        out = vec![0x55; t.range(0, 500)];
                    }
                    if let Some(k) = gix_pack::cache::Object::get(&mut cache, &id, &mut out) {
                        hits += 1;
                        ensure_sig!(c, "cache-invents-entry", put_ids.contains(&id), "{}: get({id}) hits although that id was never put", obj_cache_name(j));
                        ensure_sig!(
                            c,
                            "cache-returns-wrong-entry",
                            k == kind && out == data,
                            "{}: get({id}) = ({}, {} bytes), the object is ({}, {} bytes)",
                            obj_cache_name(j),
                            kind_name(k),
                            out.len(),
                            kind_name(kind),
                            data.len()
                        );
                    }
                }
            }
            c.label("object-cache");
        }
        c.label_if(hits > 0, "has-cache-hit");
        c.nontrivial(hits > 0);
        c.key(&(which, seed, &ops_desc));
        c.sample_with(|| format!("cache #{which}, {nops} ops, {hits} hits: {:?}", &ops_desc[..ops_desc.len().min(10)]));
    });

    ck.finish();
}
