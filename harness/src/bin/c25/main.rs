//! C25 — index files written by gitoxide round-trip and are valid for git.
//!
//! `built`:   index states assembled through the public API (`State::new`, `dangerously_push_entry`, `sort_entries`)
//!            from a tape: names of every length across the 0xfff boundary, stages, every mode, persisted and
//!            in-memory flags, removed entries, arbitrary stat values; written with every extension option, with and
//!            without `skip_hash`, through `State::write_to`, `File::write_to` and `File::write`.
//! `rewrite`: indices written by git (worlds of C24: cache tree valid / partially invalid, sparse directories,
//!            conflicts, extended flags, v4 input) are decoded by gix-index, modified (removals, flag changes) and
//!            written back.
//! Oracles for every written file: (1) the independent reader of C24 (`../c24/idx.rs`) must accept it — header,
//! 8-byte entry alignment with NUL padding, name-length saturation, checksum (SHA-1 of the body, or null with
//! `skip_hash`), EOIE offset and hash — and find exactly the expected entries and extensions; (2) git must list exactly
//! the expected entries (`ls-files --stage --debug -z`) and `git fsck` must not complain about the index;
//! (3) `State::from_bytes` / `File::at` must give back the state that was written.
#[path = "../c24/idx.rs"]
mod idx;
#[path = "../c24/world.rs"]
mod world;

use gix_index::entry::{Flags, Mode, Stat};
use gix_index::write::{Extensions, Options};
use gix_object::bstr::ByteSlice;
use vp::*;

const REMOVE: u32 = 1 << 17;

#[derive(Debug, Clone, Hash, PartialEq, Eq)]
struct E {
    path: Vec<u8>,
    stage: u32,
    mode: u32,
    /// in-memory flag bits without the stage
    flags: u32,
    stat: [u32; 9],
    id: [u8; 20],
}

impl E {
    fn removed(&self) -> bool {
        self.flags & REMOVE != 0
    }
    fn mem_flags(&self) -> u32 {
        self.flags | self.stage << 12
    }
    fn disk_flags16(&self) -> u16 {
        ((self.mem_flags() & 0xf000) as u16) | self.path.len().min(0xfff) as u16
    }
    fn disk_ext16(&self) -> u16 {
        if self.flags & 0x4000 != 0 {
            ((self.flags >> 16) & 0x6000) as u16
        } else {
            0
        }
    }
    fn stat(&self) -> idx::StatData {
        idx::StatData {
            ctime: (self.stat[0], self.stat[1]),
            mtime: (self.stat[2], self.stat[3]),
            dev: self.stat[4],
            ino: self.stat[5],
            uid: self.stat[6],
            gid: self.stat[7],
            size: self.stat[8],
        }
    }
}

#[derive(Debug, Clone, Copy, Hash, PartialEq, Eq)]
enum ExtOpt {
    All,
    None,
    Given { tree_cache: bool, end_of_index_entry: bool },
}

impl ExtOpt {
    fn gen(t: &mut Tape) -> ExtOpt {
        match t.weighted(&[3, 2, 4]) {
            0 => ExtOpt::All,
            1 => ExtOpt::None,
            _ => ExtOpt::Given {
                tree_cache: t.bool(),
                end_of_index_entry: t.bool(),
            },
        }
    }
    fn to_gix(self) -> Extensions {
        match self {
            ExtOpt::All => Extensions::All,
            ExtOpt::None => Extensions::None,
            ExtOpt::Given {
                tree_cache,
                end_of_index_entry,
            } => Extensions::Given {
                tree_cache,
                end_of_index_entry,
            },
        }
    }
    fn tree(self) -> bool {
        matches!(self, ExtOpt::All | ExtOpt::Given { tree_cache: true, .. })
    }
    fn eoie(self) -> bool {
        matches!(
            self,
            ExtOpt::All
                | ExtOpt::Given {
                    end_of_index_entry: true,
                    ..
                }
        )
    }
}

#[derive(Debug, Clone, Copy, Hash, PartialEq, Eq)]
enum How {
    StateWriteTo,
    FileWriteTo,
    FileWrite,
}

fn gen_u32(t: &mut Tape) -> u32 {
    match t.weighted(&[3, 3, 2]) {
        0 => *t.pick(&[0u32, 1, 0x7fff_ffff, 0x8000_0000, 0xffff_fffe, 0xffff_ffff]),
        1 => t.below(100_000) as u32,
        _ => t.u32(),
    }
}

const LONG_LENS: &[usize] = &[
    0xffe, 0xfff, 0x1000, 0x1001, 0x1002, 0x1003, 0x1004, 0x1005, 0x1006, 0x1007, 0x2000, 0x2001,
];

fn gen_path(t: &mut Tape, existing: &[E], allow_long: bool) -> Vec<u8> {
    const ALPHA: &[u8] = b"ab/.-~0\x01\xff A_";
    match t.weighted(&[6, 4, if allow_long { 2 } else { 0 }]) {
        0 => t.string_of(ALPHA, 1, 12),
        1 if !existing.is_empty() => {
            // derived from an existing name: prefix relations stress the ordering
            let mut p = existing[t.below(existing.len())].path.clone();
            match t.below(3) {
                0 => p.push(*t.pick(ALPHA)),
                1 => {
                    if p.len() > 1 {
                        p.pop();
                    }
                }
                _ => p.extend(t.string_of(ALPHA, 1, 4)),
            }
            if p.len() > 0x2100 {
                p.truncate(12);
            }
            p
        }
        1 => t.string_of(ALPHA, 1, 12),
        _ => {
            let len = *t.pick(LONG_LENS);
            let lead = *t.pick(b"!0Mz~");
            let mut p = vec![lead; 1];
            while p.len() < len {
                p.push(if p.len() % 97 == 0 { b'/' } else { b'L' });
            }
            // avoid a trailing or doubled slash mattering: names are opaque bytes to the index anyway
            p
        }
    }
}

fn gen_built(t: &mut Tape) -> (Vec<E>, ExtOpt, bool, How) {
    let n = match t.weighted(&[3, 6, 2]) {
        0 => t.range(0, 5),
        1 => t.range(6, 40),
        _ => t.range(41, 200),
    };
    let allow_long = t.chance(64);
    let mut v: Vec<E> = Vec::new();
    let mut long_budget = 3usize;
    for _ in 0..n {
        let path = gen_path(t, &v, allow_long && long_budget > 0);
        if path.len() >= 0xffe {
            long_budget -= 1;
        }
        // (sparse-directory entries need the `sdir` extension to be valid for git, and a state built through the
        // public API cannot be marked sparse: that mode is covered by the `rewrite` sub-check)
        let mode = match t.weighted(&[8, 2, 2, 2]) {
            0 => 0o100644,
            1 => 0o100755,
            2 => 0o120000,
            _ => 0o160000,
        };
        let stages: Vec<u32> = if t.chance(40) {
            let mask = t.range(1, 7);
            (1..=3u32).filter(|s| mask & (1 << (s - 1)) != 0).collect()
        } else {
            vec![0]
        };
        // unique (path, stage); a path is either merged or unmerged
        if v.iter().any(|e| e.path == path) {
            continue;
        }
        for stage in stages {
            let mut flags = 0u32;
            if t.chance(40) {
                flags |= 0x8000; // ASSUME_VALID
            }
            if t.chance(50) {
                flags |= 0x4000; // EXTENDED
                flags |= match t.weighted(&[3, 3, 2, 1]) {
                    0 => 1 << 29,
                    1 => 1 << 30,
                    2 => 1 << 29 | 1 << 30,
                    _ => 0,
                };
            }
            if t.chance(26) {
                flags |= REMOVE;
            }
            if t.chance(13) {
                // in-memory only flags: documented as not persisted
                flags |= *t.pick(&[1u32 << 16, 1 << 18, 1 << 19, 1 << 20, 1 << 21, 1 << 23, 1 << 26, 1 << 27]);
            }
            let mut stat = [0u32; 9];
            if t.chance(230) {
                for s in stat.iter_mut() {
                    *s = gen_u32(t);
                }
            }
            let id = gen::object_id(t);
            let mut idb = [0u8; 20];
            idb.copy_from_slice(id.as_bytes());
            v.push(E {
                path: path.clone(),
                stage,
                mode,
                flags,
                stat,
                id: idb,
            });
        }
    }
    let ext = ExtOpt::gen(t);
    let skip_hash = t.chance(64);
    let how = *t.pick(&[How::FileWriteTo, How::FileWriteTo, How::StateWriteTo, How::FileWrite]);
    (v, ext, skip_hash, how)
}

fn to_stat(s: &[u32; 9]) -> Stat {
    use gix_index::entry::stat::Time;
    Stat {
        ctime: Time {
            secs: s[0],
            nsecs: s[1],
        },
        mtime: Time {
            secs: s[2],
            nsecs: s[3],
        },
        dev: s[4],
        ino: s[5],
        uid: s[6],
        gid: s[7],
        size: s[8],
    }
}

fn stat_of(s: &Stat) -> idx::StatData {
    idx::StatData {
        ctime: (s.ctime.secs, s.ctime.nsecs),
        mtime: (s.mtime.secs, s.mtime.nsecs),
        dev: s.dev,
        ino: s.ino,
        uid: s.uid,
        gid: s.gid,
        size: s.size,
    }
}

/// A minimal repository created without spawning git.
fn bare_bones_repo(tag: &str) -> Result<(Scratch, Git), String> {
    let scratch = Scratch::new(tag).map_err(|e| e.to_string())?;
    let repo = scratch.join("repo");
    for d in ["repo/.git/objects", "repo/.git/refs", "home"] {
        std::fs::create_dir_all(scratch.join(d)).map_err(|e| e.to_string())?;
    }
    std::fs::write(repo.join(".git/HEAD"), b"ref: refs/heads/main\n").map_err(|e| e.to_string())?;
    let git = Git::new(&repo, scratch.join("home"));
    Ok((scratch, git))
}

/// The expectation for one entry of a written file.
#[derive(Debug, Clone, PartialEq, Eq)]
struct Want {
    path: Vec<u8>,
    stat: idx::StatData,
    mode: u32,
    id: [u8; 20],
    flags16: u16,
    ext16: u16,
}

struct WriteOutcome {
    bytes: Vec<u8>,
    version: gix_index::Version,
}

/// Write `state` in the requested way; returns the bytes of the complete file (with trailer).
fn write_state(
    c: &mut Case,
    state: gix_index::State,
    ext: ExtOpt,
    skip_hash: bool,
    how: How,
    path: &std::path::Path,
) -> Option<(WriteOutcome, gix_index::State)> {
    let options = Options {
        extensions: ext.to_gix(),
        skip_hash,
    };
    match how {
        How::StateWriteTo => {
            // State::write_to() writes everything but the trailer
            let mut buf = Vec::new();
            let version = match state.write_to(&mut buf, options) {
                Ok(v) => v,
                Err(e) => {
                    c.fail(format!("State::write_to failed: {e}"));
                    return None;
                }
            };
            let trailer = if skip_hash { [0u8; 20] } else { idx::sha1(&buf) };
            buf.extend_from_slice(&trailer);
            Some((WriteOutcome { bytes: buf, version }, state))
        }
        How::FileWriteTo => {
            let file = gix_index::File::from_state(state, path);
            let mut buf = Vec::new();
            let (version, hash) = match file.write_to(&mut buf, options) {
                Ok(v) => v,
                Err(e) => {
                    c.fail(format!("File::write_to failed: {e}"));
                    return None;
                }
            };
            if buf.len() < 20 || buf[buf.len() - 20..] != *hash.as_bytes() {
                c.fail(format!("File::write_to returned hash {hash} which is not the trailer of the file"));
                return None;
            }
            Some((WriteOutcome { bytes: buf, version }, file.into_parts().0))
        }
        How::FileWrite => {
            let mut file = gix_index::File::from_state(state, path);
            if let Err(e) = file.write(options) {
                c.fail(format!("File::write failed: {e}"));
                return None;
            }
            let bytes = match std::fs::read(path) {
                Ok(b) => b,
                Err(e) => {
                    c.fail(format!("File::write left no readable file: {e}"));
                    return None;
                }
            };
            let lock = path.with_extension("lock");
            if lock.exists() {
                c.fail("File::write left its lock file behind".to_string());
                return None;
            }
            if bytes.len() < 20 || Some(&bytes[bytes.len() - 20..]) != file.checksum().as_ref().map(|h| h.as_bytes()) {
                c.fail(format!(
                    "File::write: checksum() = {:?} is not the trailer of the file",
                    file.checksum()
                ));
                return None;
            }
            let version = file.version();
            Some((WriteOutcome { bytes, version }, file.into_parts().0))
        }
    }
}

fn sorted_tree(t: &idx::TreeNode) -> idx::TreeNode {
    let mut t = t.clone();
    t.children = t.children.iter().map(sorted_tree).collect();
    t.children.sort_by(|a, b| a.name.cmp(&b.name));
    t
}

struct Expect<'a> {
    want: &'a [Want],
    /// the header version must be 3 / may be 3
    must_v3: bool,
    may_v3: bool,
    tree: Option<idx::TreeNode>,
    sdir: bool,
    eoie: bool,
    skip_hash: bool,
}

/// Oracle 1: the independent reader. Returns the parsed file.
fn check_layout(c: &mut Case, out: &WriteOutcome, ex: &Expect) -> Option<idx::Index> {
    let m = match idx::parse(&out.bytes) {
        Ok(m) => m,
        Err(e) => {
            c.fail_sig("layout", format!("the written file is not a well-formed index: {e}"));
            return None;
        }
    };
    if m.version != out.version as u32 {
        c.fail(format!("header says version {}, write returned {:?}", m.version, out.version));
        return None;
    }
    if m.version == 4 || (ex.must_v3 && m.version != 3) || (!ex.may_v3 && m.version != 2) {
        c.fail(format!(
            "version {} written (extended flag on a written entry: {}, on any entry: {})",
            m.version, ex.must_v3, ex.may_v3
        ));
        return None;
    }
    if m.checksum_is_null != ex.skip_hash {
        c.fail(format!("skip_hash={} but trailer null={}", ex.skip_hash, m.checksum_is_null));
        return None;
    }
    if m.entries.len() != ex.want.len() {
        c.fail(format!("{} entries written, expected {}", m.entries.len(), ex.want.len()));
        return None;
    }
    for (i, (g, w)) in m.entries.iter().zip(ex.want).enumerate() {
        let got = Want {
            path: g.path.clone(),
            stat: g.stat,
            mode: g.mode,
            id: g.id,
            flags16: g.flags16,
            ext16: g.ext16,
        };
        if &got != w {
            let short = |w: &Want| {
                format!(
                    "{{path: {:?} ({} bytes), stat: {:?}, mode: {:o}, id: {}, flags: {:#06x}, ext: {:#06x}}}",
                    show(&w.path[..w.path.len().min(40)]),
                    w.path.len(),
                    w.stat,
                    w.mode,
                    idx::hex20(&w.id),
                    w.flags16,
                    w.ext16
                )
            };
            c.fail(format!("entry {i} on disk is {} expected {}", short(&got), short(w)));
            return None;
        }
    }
    let mut want_ext: Vec<[u8; 4]> = Vec::new();
    if ex.tree.is_some() {
        want_ext.push(*b"TREE");
    }
    if ex.sdir {
        want_ext.push(*b"sdir");
    }
    if ex.eoie {
        want_ext.push(*b"EOIE");
    }
    if m.ext_order != want_ext {
        let names = |v: &[[u8; 4]]| v.iter().map(|s| String::from_utf8_lossy(s).to_string()).collect::<Vec<_>>();
        c.fail(format!(
            "extensions written: {:?}, expected {:?}",
            names(&m.ext_order),
            names(&want_ext)
        ));
        return None;
    }
    if m.tree.as_ref().map(sorted_tree) != ex.tree.as_ref().map(sorted_tree) {
        c.fail(format!("TREE written as {:?}, state held {:?}", m.tree, ex.tree));
        return None;
    }
    Some(m)
}

/// Oracle 2: git. `git` must run inside a repository; `index` is the written file.
fn check_git(c: &mut Case, git: &Git, index: &std::path::Path, want: &[Want], fsck: bool) -> bool {
    let g = git
        .clone()
        .env("GIT_INDEX_FILE", index.to_str().unwrap_or(""))
        .cfg("sparse.expectFilesOutsideOfPatterns=true");
    let (ok, out, err) = match g.try_run(["ls-files", "--sparse", "--stage", "--debug", "-z"], None) {
        Ok(r) => r,
        Err(e) => {
            c.fail_sig("git-rejects", format!("git ls-files crashed on the written index: {e}"));
            return false;
        }
    };
    if !ok {
        c.fail_sig(
            "git-rejects",
            format!("git ls-files rejects the written index: {}", String::from_utf8_lossy(&err)),
        );
        return false;
    }
    let listed = match idx::parse_ls_files_debug(&out) {
        Ok(l) => l,
        Err(e) => {
            c.infra(e);
            return false;
        }
    };
    if listed.len() != want.len() {
        c.fail(format!("git lists {} entries, expected {}", listed.len(), want.len()));
        return false;
    }
    for (i, (g, w)) in listed.iter().zip(want).enumerate() {
        let w_flags = (w.flags16 & 0xf000) as u32 | (w.ext16 as u32) << 16;
        let same = g.path == w.path
            && g.stage == ((w.flags16 >> 12) & 3) as u32
            && g.mode == w.mode
            && g.id == w.id
            && g.stat == w.stat
            && g.flags & idx::ONDISK_FLAG_MASK == w_flags & idx::ONDISK_FLAG_MASK;
        if !same {
            c.fail(format!(
                "git lists entry {i} as {{path: {:?} ({} bytes), stage {}, mode {:o}, id {}, stat {:?}, flags {:#x}}}, expected {{{:?} ({} bytes), flags16 {:#06x}, ext {:#06x}, mode {:o}, id {}, stat {:?}}}",
                show(&g.path[..g.path.len().min(40)]),
                g.path.len(),
                g.stage,
                g.mode,
                idx::hex20(&g.id),
                g.stat,
                g.flags,
                show(&w.path[..w.path.len().min(40)]),
                w.path.len(),
                w.flags16,
                w.ext16,
                w.mode,
                idx::hex20(&w.id),
                w.stat
            ));
            return false;
        }
    }
    if fsck {
        let (_ok, out, err) = match g.try_run(["fsck", "--no-dangling", "--no-progress"], None) {
            Ok(r) => r,
            Err(e) => {
                c.fail_sig("git-rejects", format!("git fsck crashed on the written index: {e}"));
                return false;
            }
        };
        for line in out.split(|b| *b == b'\n').chain(err.split(|b| *b == b'\n')) {
            let l = String::from_utf8_lossy(line);
            let about_index = l.contains("index file")
                || l.contains("stage entries")
                || l.contains("bad signature")
                || l.contains("bad index version")
                || l.contains("index entry");
            if l.starts_with("fatal:") || ((l.starts_with("error:") || l.starts_with("warning:")) && about_index) {
                c.fail_sig("git-fsck", format!("git fsck complains about the written index: {l}"));
                return false;
            }
        }
    }
    true
}

/// Oracle 3: gix-index reads back what it wrote.
fn check_readback(
    c: &mut Case,
    out: &WriteOutcome,
    written: &gix_index::State,
    want: &[Want],
    on_disk: &idx::Index,
    path: Option<&std::path::Path>,
    compare_sparse: bool,
) -> bool {
    let known = on_disk.entries.iter().any(|e| e.path.len() >= 0xfff && e.nuls > 1);
    c.label_if(known, "long-name-padded");
    let ts = written.timestamp();
    for limit in [1usize, 4] {
        let opts = gix_index::decode::Options {
            thread_limit: Some(limit),
            min_extension_block_in_bytes_for_threading: 0,
            expected_checksum: None,
        };
        let res: Result<gix_index::State, String> = match path {
            Some(p) if limit == 4 => gix_index::File::at(p, gix_hash::Kind::Sha1, false, opts)
                .map(|f| f.into_parts().0)
                .map_err(|e| format!("File::at: {e}")),
            _ => gix_index::State::from_bytes(&out.bytes, ts, gix_hash::Kind::Sha1, opts)
                .map(|(s, _)| s)
                .map_err(|e| format!("State::from_bytes: {e}")),
        };
        let problem: Option<String> = match res {
            Err(e) => Some(format!("the written file cannot be read back: {e}")),
            Ok(back) => (|| {
                if back.version() != out.version {
                    return Some(format!("read back version {:?}, wrote {:?}", back.version(), out.version));
                }
                if back.entries().len() != want.len() {
                    return Some(format!("read back {} entries, wrote {}", back.entries().len(), want.len()));
                }
                for (i, (b, w)) in back.entries().iter().zip(want).enumerate() {
                    let w_flags = (w.flags16 & 0xf000) as u32 | (w.ext16 as u32) << 16;
                    let mut id = [0u8; 20];
                    id.copy_from_slice(b.id.as_bytes());
                    if b.path(&back).as_bytes() != w.path.as_slice()
                        || stat_of(&b.stat) != w.stat
                        || b.mode.bits() != w.mode
                        || id != w.id
                        || b.flags.bits() != w_flags
                    {
                        return Some(format!(
                            "read back entry {i} as {{path {:?} ({} bytes), {:?}, mode {:o}, id {}, flags {:#x}}}, wrote {{path {:?} ({} bytes), {:?}, mode {:o}, id {}, flags {:#x}}}",
                            show(&b.path(&back)[..b.path(&back).len().min(40)]),
                            b.path(&back).len(),
                            b.stat,
                            b.mode.bits(),
                            b.id,
                            b.flags.bits(),
                            show(&w.path[..w.path.len().min(40)]),
                            w.path.len(),
                            w.stat,
                            w.mode,
                            idx::hex20(&w.id),
                            w_flags
                        ));
                    }
                }
                let wrote_tree = on_disk.tree.is_some();
                if wrote_tree && back.tree() != written.tree() {
                    return Some(format!("read back tree {:?}, wrote {:?}", back.tree(), written.tree()));
                }
                if !wrote_tree && back.tree().is_some() {
                    return Some("read back a tree cache that was not written".into());
                }
                if compare_sparse && back.is_sparse() != written.is_sparse() {
                    return Some(format!("read back is_sparse={}, wrote {}", back.is_sparse(), written.is_sparse()));
                }
                None
            })(),
        };
        if let Some(p) = problem {
            if known {
                c.fail_sig("roundtrip-long-name-padding-not-skipped", p);
            } else {
                c.fail_sig("roundtrip", p);
            }
            return false;
        }
    }
    true
}

pub fn main() {
    let mut ck = Check::new("C25", "exploration");
    ck.rule("built: 0..200 entries pushed in tape order through State::new/dangerously_push_entry/sort_entries — names over an alphabet around '/' with prefix relations, names of 0xffe..0x2001 bytes, merged and unmerged paths (stage subsets), modes file/exec/symlink/gitlink, ASSUME_VALID, EXTENDED with none/either/both of INTENT_TO_ADD and SKIP_WORKTREE, REMOVE, in-memory-only flags, boundary stat values — written with Extensions::{All,None,Given{..}} x skip_hash through State::write_to / File::write_to / File::write. rewrite: a git-written index (C24 worlds without untracked cache/resolve-undo/split index: TREE valid or partially invalid, sdir, conflicts, extended flags, long names, v4) decoded by File::at, every k-th entry flagged REMOVE and/or ASSUME_VALID toggled, written back. Non-trivial: a name >= 0xfff bytes, or a removed entry followed by a kept one, or an extended flag. Distinct by state/script hash.");
    ck.assume(&format!("{} is the acceptance oracle (ls-files --stage --debug -z, fsck for checksum and entry order); fsck is skipped with skip_hash because git 2.39 does not know null trailers", Git::version()));
    ck.assume("EXTENDED is set whenever INTENT_TO_ADD or SKIP_WORKTREE is (the writer keys the version and the extended flag word off EXTENDED, as its documentation says); in-memory-only flags are documented as not persisted; states hold sorted, unique (path, stage) entries; sparse-directory entries only come from git-written sparse indices (a state built through the public API cannot be marked sparse, and git rejects directory entries without the sdir extension)");

    ck.sub(
        "built",
        SubCfg::new(1500, 40_000).max_len(6000).max_shrink(150),
        |t, c| {
            let (entries, ext, skip_hash, how) = gen_built(t);
            c.key(&(&entries, ext, skip_hash, how));
            let kept: Vec<&E> = entries.iter().filter(|e| !e.removed()).collect();
            let has_long = kept.iter().any(|e| e.path.len() >= 0xfff);
            let has_ext = kept.iter().any(|e| e.flags & 0x4000 != 0);
            // expected order: git's index order, by an independent comparator
            let mut sorted: Vec<&E> = entries.iter().collect();
            sorted.sort_by(|a, b| idx::index_order(&a.path, a.stage, &b.path, b.stage));
            let removed_then_kept = sorted
                .iter()
                .position(|e| e.removed())
                .map_or(false, |p| sorted[p..].iter().any(|e| !e.removed()));
            c.nontrivial(has_long || has_ext || removed_then_kept);
            c.label_if(has_long, "name>=0xfff");
            c.label_if(has_ext, "extended-flags");
            c.label_if(removed_then_kept, "removed-then-kept");
            c.label_if(kept.iter().any(|e| e.stage != 0), "conflict-stages");
            c.label_if(kept.is_empty(), "nothing-written");
            c.label_if(skip_hash, "skip_hash");
            c.label(match how {
                How::StateWriteTo => "State::write_to",
                How::FileWriteTo => "File::write_to",
                How::FileWrite => "File::write",
            });
            c.label(match ext {
                ExtOpt::All => "ext-all",
                ExtOpt::None => "ext-none",
                ExtOpt::Given { .. } => "ext-given",
            });
            c.sample_with(|| {
                format!(
                    "{} entries ({} kept), lens {:?}, ext {ext:?}, skip_hash {skip_hash}, {how:?}; first: {:?}",
                    entries.len(),
                    kept.len(),
                    kept.iter().map(|e| e.path.len()).filter(|l| *l > 100).collect::<Vec<_>>(),
                    entries.first().map(|e| (show(&e.path[..e.path.len().min(30)]), e.stage, e.mode, e.flags))
                )
            });

            let mut state = gix_index::State::new(gix_hash::Kind::Sha1);
            for e in &entries {
                let id = gix_hash::ObjectId::from_bytes_or_panic(&e.id);
                state.dangerously_push_entry(
                    to_stat(&e.stat),
                    id,
                    Flags::from_bits_retain(e.mem_flags()),
                    Mode::from_bits_retain(e.mode),
                    e.path.as_bstr(),
                );
            }
            state.sort_entries();
            // the state's own order must be the index order
            for (i, (got, want)) in state.entries().iter().zip(&sorted).enumerate() {
                ensure!(
                    c,
                    got.path(&state).as_bytes() == want.path.as_slice() && got.stage_raw() == want.stage,
                    "sort_entries(): position {i} holds {:?} stage {}, git's order has {:?} stage {}",
                    show(got.path(&state)),
                    got.stage_raw(),
                    show(&want.path),
                    want.stage
                );
            }
            let want: Vec<Want> = sorted
                .iter()
                .filter(|e| !e.removed())
                .map(|e| Want {
                    path: e.path.clone(),
                    stat: e.stat(),
                    mode: e.mode,
                    id: e.id,
                    flags16: e.disk_flags16(),
                    ext16: e.disk_ext16(),
                })
                .collect();

            let (scratch, git) = infra!(c, bare_bones_repo("c25"), "scratch repository");
            let index_path = scratch.join("repo/.git/index");
            let Some((out, written)) = write_state(c, state, ext, skip_hash, how, &index_path) else {
                return;
            };
            let ex = Expect {
                want: &want,
                must_v3: has_ext,
                may_v3: entries.iter().any(|e| e.flags & 0x4000 != 0),
                tree: None,
                sdir: false,
                eoie: false,
                skip_hash,
            };
            let Some(on_disk) = check_layout(c, &out, &ex) else {
                return;
            };
            if how != How::FileWrite {
                infra!(c, std::fs::write(&index_path, &out.bytes), "write index file");
            }
            if !check_git(c, &git, &index_path, &want, !skip_hash) {
                return;
            }
            check_readback(c, &out, &written, &want, &on_disk, Some(&index_path), true);
        },
    );

    ck.sub(
        "rewrite",
        SubCfg::new(160, 4_000).max_len(6000).max_shrink(40),
        |t, c| {
            let ext = ExtOpt::gen(t);
            let skip_hash = t.chance(48);
            let how = *t.pick(&[How::FileWriteTo, How::FileWrite, How::StateWriteTo]);
            let remove_every = *t.pick(&[0usize, 0, 0, 1, 2, 3, 7]);
            let remove_offset = t.below(7);
            let toggle_valid_every = *t.pick(&[0usize, 0, 2, 5]);
            let mut s = world::gen_script(t);
            // the writer only carries TREE / sdir / EOIE: keep inputs free of what it drops, and decodable
            s.untracked_cache = false;
            s.status = false;
            s.untracked.clear();
            s.gitignores.clear();
            s.split = false;
            for cf in s.conflicts.iter_mut() {
                cf.resolve = None;
            }
            if !s.long_paths.is_empty() {
                s.version = 4;
            }
            c.key(&(&s, ext, skip_hash, how, remove_every, remove_offset, toggle_valid_every));
            c.sample_with(|| {
                format!(
                    "v{} threads={} sparse={:?} paths={} ita={} long={:?} conflicts={} write_tree={} late={}+{}; ext {ext:?} skip_hash {skip_hash} {how:?} remove every {remove_every}+{remove_offset} toggle {toggle_valid_every}",
                    s.version,
                    s.threads,
                    s.sparse.as_ref().map(|d| d.len()),
                    s.paths.len(),
                    s.ita.len(),
                    s.long_paths.iter().map(|p| p.0.len()).collect::<Vec<_>>(),
                    s.conflicts.len(),
                    s.write_tree,
                    s.late_adds.len(),
                    s.late_removes.len()
                )
            });
            let mut last: Vec<u8> = Vec::new();
            let mut nontrivial = false;
            world::run_script(&s, c, &mut |c, w, git, step| {
                if !matches!(step, "write-tree" | "late changes" | "sparse-checkout" | "conflicts" | "final") {
                    return true;
                }
                let index_path = w.git_dir().join("index");
                let bytes = match std::fs::read(&index_path) {
                    Ok(b) => b,
                    Err(e) => {
                        c.infra(format!("read index: {e}"));
                        return false;
                    }
                };
                if bytes == last {
                    return true;
                }
                last = bytes.clone();
                let input = match idx::parse(&bytes) {
                    Ok(m) => m,
                    Err(e) => {
                        c.infra(format!("MODEL-BUG: reader rejects git's index after {step}: {e}"));
                        return false;
                    }
                };
                if input.reuc.is_some() || input.untr.is_some() || input.link.is_some() || input.fsmn {
                    // cannot happen with the restrictions above; such states are outside the writer's documented scope
                    c.discard();
                    return false;
                }
                let file = match gix_index::File::at(&index_path, gix_hash::Kind::Sha1, false, Default::default()) {
                    Ok(f) => f,
                    Err(e) => {
                        c.infra(format!("input index after {step} is not decodable (C24's business): {e}"));
                        return false;
                    }
                };
                let mut state: gix_index::State = file.into_parts().0;
                // modifications
                let mut want: Vec<Want> = Vec::new();
                let mut any_removed_then_kept = false;
                let mut seen_removed = false;
                for (i, (e, m)) in state.entries_mut().iter_mut().zip(&input.entries).enumerate() {
                    let remove = remove_every != 0 && (i + remove_offset) % remove_every == 0;
                    if toggle_valid_every != 0 && i % toggle_valid_every == 0 {
                        e.flags.toggle(Flags::ASSUME_VALID);
                    }
                    if remove {
                        e.flags.insert(Flags::REMOVE);
                        seen_removed = true;
                        continue;
                    }
                    any_removed_then_kept |= seen_removed;
                    let mem = e.flags.bits();
                    want.push(Want {
                        path: m.path.clone(),
                        stat: m.stat,
                        mode: m.mode,
                        id: m.id,
                        flags16: (mem & 0xf000) as u16 | m.path.len().min(0xfff) as u16,
                        ext16: if mem & 0x4000 != 0 { ((mem >> 16) & 0x6000) as u16 } else { 0 },
                    });
                }
                let has_ext = want.iter().any(|w| w.flags16 & 0x4000 != 0);
                let has_long = want.iter().any(|w| w.path.len() >= 0xfff);
                nontrivial |= has_ext || has_long || any_removed_then_kept;
                c.label_if(has_long, "name>=0xfff");
                c.label_if(has_ext, "extended-flags");
                c.label_if(any_removed_then_kept, "removed-then-kept");
                c.label_if(input.tree.is_some(), "input-TREE");
                c.label_if(input.sdir, "input-sdir");
                c.label_if(input.version == 4, "input-v4");
                c.label_if(want.iter().any(|w| w.flags16 & 0x3000 != 0), "conflict-stages");
                let writes_tree = ext.tree() && input.tree.is_some();
                let sdir = state.is_sparse();
                if sdir != (input.sdir || input.entries.iter().any(|e| e.mode == 0o040000)) {
                    c.infra("decoded is_sparse differs from the input (C24's business)".to_string());
                    return false;
                }
                let n_entries_before_removal = input.entries.len();
                let eoie = n_entries_before_removal > 0 && ext.eoie() && (writes_tree || sdir);
                c.label_if(writes_tree, "writes-TREE");
                c.label_if(eoie, "writes-EOIE");
                let out_path = w.scratch.join("rewritten");
                let _ = std::fs::remove_file(&out_path);
                let may_v3 = input.entries.iter().zip(state.entries()).any(|(_, e)| e.flags.contains(Flags::EXTENDED));
                let Some((out, written)) = write_state(c, state, ext, skip_hash, how, &out_path) else {
                    return false;
                };
                let ex = Expect {
                    want: &want,
                    must_v3: has_ext,
                    may_v3,
                    tree: if writes_tree { input.tree.clone() } else { None },
                    sdir,
                    eoie,
                    skip_hash,
                };
                let Some(on_disk) = check_layout(c, &out, &ex) else {
                    return false;
                };
                if how != How::FileWrite {
                    if let Err(e) = std::fs::write(&out_path, &out.bytes) {
                        c.infra(format!("write index file: {e}"));
                        return false;
                    }
                }
                if !check_git(c, git, &out_path, &want, !skip_hash) {
                    return false;
                }
                // git takes the id of a fully valid cache tree at face value
                let root_valid = input.tree.as_ref().map_or(false, |t| t.entry_count >= 0);
                if writes_tree && root_valid && remove_every == 0 && !want.iter().any(|w| w.flags16 & 0x3000 != 0) {
                    let g = git.clone().env("GIT_INDEX_FILE", out_path.to_str().unwrap_or(""));
                    match g.try_run(["write-tree", "--missing-ok"], None) {
                        Ok((true, o, _)) => {
                            let got = String::from_utf8_lossy(&o).trim().to_string();
                            let want_root = idx::hex20(&input.tree.as_ref().unwrap().id.unwrap());
                            if got != want_root {
                                c.fail(format!("git write-tree on the rewritten index gives {got}, the cache tree root was {want_root}"));
                                return false;
                            }
                        }
                        Ok((false, _, e)) => {
                            c.fail(format!(
                                "git write-tree fails on the rewritten index: {}",
                                String::from_utf8_lossy(&e)
                            ));
                            return false;
                        }
                        Err(e) => {
                            c.infra(e);
                            return false;
                        }
                    }
                }
                check_readback(c, &out, &written, &want, &on_disk, Some(&out_path), true)
            });
            c.nontrivial(nontrivial);
        },
    );

    ck.finish();
}
