//! C36 — wildcard matching agrees with git's wildmatch.
//!
//! Oracle: `model::dowild`, a line-by-line transcription of git 2.39 `wildmatch.c:dowild` (with git's own
//! `sane_ctype` classes), validated in every run against real git by expressing a match as a pathspec
//! (`git ls-files -- ':(glob)PAT'`, `PAT`, `:(icase)...`), see `GitOracle`.
//! 3-way vote: a disagreement gitoxide != model found by the fast sub-checks is put to real git when git can
//! express it; if git sides with gitoxide the model is wrong and the run is inconclusive (MODEL-BUG).
use bstr::ByteSlice;
use gix_glob::wildmatch::Mode;
use vp::*;

// ------------------------------------------------------------------------------------------------
// reference model: git's wildmatch.c

mod model {
    pub const CASEFOLD: u32 = 1;
    pub const PATHNAME: u32 = 2;

    #[derive(PartialEq, Eq, Clone, Copy, Debug)]
    pub enum R {
        Match,
        NoMatch,
        AbortAll,
        AbortToStarStar,
    }

    /// Deviations of gitoxide from git that are recorded as known findings; the plain model has all of them off.
    #[derive(Clone, Copy, Default, Debug, PartialEq, Eq)]
    pub struct Quirks {
        /// with CASEFOLD the whole pattern is lower-cased (git folds only top-level literals and the literal after `*`;
        /// bracket members, range ends and escaped characters stay as written), and ranges are also tried upper-cased
        pub fold_whole_pattern: bool,
        /// inside a bracket expression, an escaped member that equals the text character does not become the possible
        /// start of a range (git: it always does), so `[\\]-[:alnum:]]` is parsed differently when the text has `]`
        pub escaped_match_keeps_prev: bool,
        /// `[:blank:]` = ASCII whitespace (git: space and tab)
        pub blank_is_whitespace: bool,
        /// `[:space:]` = only ' ' (git: space, \t, \n, \r)
        pub space_is_sp_only: bool,
    }

    // git-compat-util.h sane_ctype
    fn isspace(c: u8) -> bool {
        matches!(c, b' ' | b'\t' | b'\n' | b'\r')
    }
    fn isdigit(c: u8) -> bool {
        c.is_ascii_digit()
    }
    fn isalpha(c: u8) -> bool {
        c.is_ascii_alphabetic()
    }
    fn isalnum(c: u8) -> bool {
        c.is_ascii_alphanumeric()
    }
    fn isprint(c: u8) -> bool {
        (0x20..=0x7e).contains(&c)
    }
    fn islower(c: u8) -> bool {
        c.is_ascii_lowercase()
    }
    fn isupper(c: u8) -> bool {
        c.is_ascii_uppercase()
    }
    fn iscntrl(c: u8) -> bool {
        c < 0x20 || c == 0x7f
    }
    fn ispunct(c: u8) -> bool {
        isprint(c) && !isalnum(c) && c != b' '
    }
    fn isxdigit(c: u8) -> bool {
        c.is_ascii_hexdigit()
    }
    fn is_glob_special(c: u8) -> bool {
        matches!(c, b'*' | b'?' | b'[' | b'\\')
    }

    pub struct Ctx<'a> {
        pub pat: &'a [u8],
        pub text: &'a [u8],
        pub flags: u32,
        pub q: Quirks,
        pub steps: u64,
        pub exhausted: bool,
        /// positions of the `[` of every `[:` inside a bracket expression that was found not to be a class ("treat like a normal set")
        pub malformed_at: Vec<usize>,
    }

    impl Ctx<'_> {
        fn p(&self, i: usize) -> u8 {
            let c = self.pat.get(i).copied().unwrap_or(0);
            if self.q.fold_whole_pattern && self.flags & CASEFOLD != 0 {
                c.to_ascii_lowercase()
            } else {
                c
            }
        }
        fn t(&self, i: usize) -> u8 {
            self.text.get(i).copied().unwrap_or(0)
        }
        fn text_has_slash_from(&self, i: usize) -> Option<usize> {
            self.text.get(i..).and_then(|s| s.iter().position(|b| *b == b'/')).map(|d| i + d)
        }

        pub fn dowild(&mut self, pstart: usize, tstart: usize) -> R {
            self.steps += 1;
            if self.steps > 2_000_000 {
                self.exhausted = true;
                return R::AbortAll;
            }
            let casefold = self.flags & CASEFOLD != 0;
            let pathname = self.flags & PATHNAME != 0;
            let mut p = pstart;
            let mut t = tstart;
            loop {
                let mut p_ch = self.p(p);
                if p_ch == 0 {
                    break;
                }
                let mut t_ch = self.t(t);
                if t_ch == 0 && p_ch != b'*' {
                    return R::AbortAll;
                }
                if casefold && isupper(t_ch) {
                    t_ch = t_ch.to_ascii_lowercase();
                }
                if casefold && isupper(p_ch) {
                    p_ch = p_ch.to_ascii_lowercase();
                }
                match p_ch {
                    b'?' => {
                        if pathname && t_ch == b'/' {
                            return R::NoMatch;
                        }
                    }
                    b'*' => {
                        let match_slash;
                        p += 1;
                        if self.p(p) == b'*' {
                            let prev_p = p as isize - 2;
                            loop {
                                p += 1;
                                if self.p(p) != b'*' {
                                    break;
                                }
                            }
                            if !pathname {
                                match_slash = true;
                            } else if (prev_p < pstart as isize || self.p(prev_p as usize) == b'/')
                                && (self.p(p) == 0
                                    || self.p(p) == b'/'
                                    || (self.p(p) == b'\\' && self.p(p + 1) == b'/'))
                            {
                                if self.p(p) == b'/' && self.dowild(p + 1, t) == R::Match {
                                    return R::Match;
                                }
                                match_slash = true;
                            } else {
                                match_slash = false;
                            }
                        } else {
                            match_slash = !pathname;
                        }
                        if self.p(p) == 0 {
                            if !match_slash && self.text_has_slash_from(t).is_some() {
                                return R::NoMatch;
                            }
                            return R::Match;
                        } else if !match_slash && self.p(p) == b'/' {
                            match self.text_has_slash_from(t) {
                                None => return R::NoMatch,
                                Some(pos) => t = pos,
                            }
                            // the slash is consumed by the top-level for loop
                        } else {
                            loop {
                                if t_ch == 0 {
                                    break;
                                }
                                if !is_glob_special(self.p(p)) {
                                    p_ch = self.p(p);
                                    if casefold && isupper(p_ch) {
                                        p_ch = p_ch.to_ascii_lowercase();
                                    }
                                    loop {
                                        t_ch = self.t(t);
                                        if t_ch == 0 || !(match_slash || t_ch != b'/') {
                                            break;
                                        }
                                        if casefold && isupper(t_ch) {
                                            t_ch = t_ch.to_ascii_lowercase();
                                        }
                                        if t_ch == p_ch {
                                            break;
                                        }
                                        t += 1;
                                    }
                                    if t_ch != p_ch {
                                        return R::NoMatch;
                                    }
                                }
                                let matched = self.dowild(p, t);
                                if matched != R::NoMatch {
                                    if !match_slash || matched != R::AbortToStarStar {
                                        return matched;
                                    }
                                } else if !match_slash && t_ch == b'/' {
                                    return R::AbortToStarStar;
                                }
                                t += 1;
                                t_ch = self.t(t);
                            }
                            return R::AbortAll;
                        }
                    }
                    b'[' => {
                        p += 1;
                        p_ch = self.p(p);
                        if p_ch == b'^' {
                            p_ch = b'!';
                        }
                        let negated = p_ch == b'!';
                        if negated {
                            p += 1;
                            p_ch = self.p(p);
                        }
                        let mut prev_ch = 0u8;
                        let mut matched = false;
                        loop {
                            'body: {
                                if p_ch == 0 {
                                    return R::AbortAll;
                                }
                                if p_ch == b'\\' {
                                    p += 1;
                                    p_ch = self.p(p);
                                    if p_ch == 0 {
                                        return R::AbortAll;
                                    }
                                    if t_ch == p_ch {
                                        matched = true;
                                        if self.q.escaped_match_keeps_prev {
                                            p_ch = prev_ch;
                                        }
                                    }
                                } else if p_ch == b'-' && prev_ch != 0 && self.p(p + 1) != 0 && self.p(p + 1) != b']' {
                                    p += 1;
                                    p_ch = self.p(p);
                                    if p_ch == b'\\' {
                                        p += 1;
                                        p_ch = self.p(p);
                                        if p_ch == 0 {
                                            return R::AbortAll;
                                        }
                                    }
                                    if t_ch <= p_ch && t_ch >= prev_ch {
                                        matched = true;
                                    } else if casefold && islower(t_ch) {
                                        let up = t_ch.to_ascii_uppercase();
                                        if self.q.fold_whole_pattern {
                                            let (a, b) = (prev_ch.to_ascii_uppercase(), p_ch.to_ascii_uppercase());
                                            if (up <= b && up >= a) || (up <= a && up >= b) {
                                                matched = true;
                                            }
                                        } else if up <= p_ch && up >= prev_ch {
                                            matched = true;
                                        }
                                    }
                                    p_ch = 0;
                                } else if p_ch == b'[' && self.p(p + 1) == b':' {
                                    p += 2;
                                    let s = p;
                                    loop {
                                        p_ch = self.p(p);
                                        if p_ch == 0 || p_ch == b']' {
                                            break;
                                        }
                                        p += 1;
                                    }
                                    if p_ch == 0 {
                                        return R::AbortAll;
                                    }
                                    let i = p as isize - s as isize - 1;
                                    if i < 0 || self.p(p - 1) != b':' {
                                        // Didn't find ":]", so treat like a normal set.
                                        p = s - 2;
                                        if !self.malformed_at.contains(&p) {
                                            self.malformed_at.push(p);
                                        }
                                        p_ch = b'[';
                                        if t_ch == p_ch {
                                            matched = true;
                                        }
                                        break 'body;
                                    }
                                    // class names are compared as written
                                    let class = &self.pat[s..s + i as usize];
                                    let hit = match class {
                                        b"alnum" => isalnum(t_ch),
                                        b"alpha" => isalpha(t_ch),
                                        b"blank" => {
                                            if self.q.blank_is_whitespace {
                                                t_ch.is_ascii_whitespace()
                                            } else {
                                                t_ch == b' ' || t_ch == b'\t'
                                            }
                                        }
                                        b"cntrl" => iscntrl(t_ch),
                                        b"digit" => isdigit(t_ch),
                                        b"graph" => isprint(t_ch) && !isspace(t_ch),
                                        b"lower" => islower(t_ch),
                                        b"print" => isprint(t_ch),
                                        b"punct" => ispunct(t_ch),
                                        b"space" => {
                                            if self.q.space_is_sp_only {
                                                t_ch == b' '
                                            } else {
                                                isspace(t_ch)
                                            }
                                        }
                                        b"upper" => isupper(t_ch) || (casefold && islower(t_ch)),
                                        b"xdigit" => isxdigit(t_ch),
                                        _ => return R::AbortAll,
                                    };
                                    if hit {
                                        matched = true;
                                    }
                                    p_ch = 0;
                                } else if t_ch == p_ch {
                                    matched = true;
                                }
                            }
                            prev_ch = p_ch;
                            p += 1;
                            p_ch = self.p(p);
                            if p_ch == b']' {
                                break;
                            }
                        }
                        if matched == negated || (pathname && t_ch == b'/') {
                            return R::NoMatch;
                        }
                    }
                    other => {
                        let mut lit = other;
                        if other == b'\\' {
                            // Literal match with following character; p[1] == 0 fails in the comparison below
                            p += 1;
                            lit = self.p(p);
                        }
                        if t_ch != lit {
                            return R::NoMatch;
                        }
                    }
                }
                t += 1;
                p += 1;
            }
            if self.t(t) != 0 {
                R::NoMatch
            } else {
                R::Match
            }
        }
    }

    /// `None` if the step budget was exhausted.
    pub fn wildmatch(pat: &[u8], text: &[u8], flags: u32, q: Quirks) -> Option<bool> {
        let mut c = Ctx {
            pat,
            text,
            flags,
            q,
            steps: 0,
            exhausted: false,
            malformed_at: Vec::new(),
        };
        let r = c.dowild(0, 0);
        if c.exhausted {
            None
        } else {
            Some(r == R::Match)
        }
    }

    /// Positions of the `[` of every `[:` inside a bracket expression that lacks its `:]` (git: "treat like a normal
    /// set"). Bracket parsing in git does not depend on the text, so this is a static walk over the pattern that
    /// mirrors dowild's top level and its bracket loop.
    pub fn malformed_class_positions(pat: &[u8]) -> Vec<usize> {
        let at = |i: usize| pat.get(i).copied().unwrap_or(0);
        let mut out = Vec::new();
        let mut p = 0usize;
        while at(p) != 0 {
            match at(p) {
                b'\\' => p += 1,
                b'[' => {
                    p += 1;
                    let mut p_ch = at(p);
                    if p_ch == b'^' || p_ch == b'!' {
                        p += 1;
                        p_ch = at(p);
                    }
                    let mut prev_ch = 0u8;
                    loop {
                        'body: {
                            if p_ch == 0 {
                                return out;
                            }
                            if p_ch == b'\\' {
                                p += 1;
                                p_ch = at(p);
                                if p_ch == 0 {
                                    return out;
                                }
                            } else if p_ch == b'-' && prev_ch != 0 && at(p + 1) != 0 && at(p + 1) != b']' {
                                p += 1;
                                if at(p) == b'\\' {
                                    p += 1;
                                    if at(p) == 0 {
                                        return out;
                                    }
                                }
                                p_ch = 0;
                            } else if p_ch == b'[' && at(p + 1) == b':' {
                                p += 2;
                                let s = p;
                                while at(p) != 0 && at(p) != b']' {
                                    p += 1;
                                }
                                if at(p) == 0 {
                                    return out;
                                }
                                let i = p as isize - s as isize - 1;
                                if i < 0 || at(p - 1) != b':' {
                                    p = s - 2;
                                    if !out.contains(&p) {
                                        out.push(p);
                                    }
                                    p_ch = b'[';
                                    break 'body;
                                }
                                p_ch = 0;
                            }
                        }
                        prev_ch = p_ch;
                        p += 1;
                        p_ch = at(p);
                        if p_ch == b']' {
                            break;
                        }
                    }
                }
                _ => {}
            }
            p += 1;
        }
        out
    }

    /// The pattern with every such `[:` written as `\\[:`, which means the same to git; `None` if there is no such place.
    /// Positions are those of git's (static) parse plus those met while matching `text` under the deviations `q`
    /// (with `escaped_match_keeps_prev` the bracket parse depends on the text).
    pub fn escape_malformed_classes(pat: &[u8], text: &[u8], flags: u32, q: Quirks) -> Option<Vec<u8>> {
        let mut at = malformed_class_positions(pat);
        let mut c = Ctx {
            pat,
            text,
            flags,
            q,
            steps: 0,
            exhausted: false,
            malformed_at: Vec::new(),
        };
        c.dowild(0, 0);
        at.extend(c.malformed_at);
        if at.is_empty() {
            return None;
        }
        let mut out = Vec::new();
        for (i, b) in pat.iter().enumerate() {
            if at.contains(&i) {
                out.push(b'\\');
            }
            out.push(*b);
        }
        Some(out)
    }
}

use model::{Quirks, CASEFOLD, PATHNAME};

const SIG_MALFORMED: &str = "malformed-posix-class-in-bracket";
const SIG_FOLD: &str = "casefold-folds-whole-pattern";
const SIG_ESC_PREV: &str = "bracket-escaped-member-range-start";
const SIG_BLANK: &str = "posix-blank-is-ascii-whitespace";
const SIG_SPACE: &str = "posix-space-is-only-sp";
/// priority order used to name a disagreement that needs several recorded deviations at once
const EXPLANATIONS: [&str; 5] = [SIG_MALFORMED, SIG_FOLD, SIG_ESC_PREV, SIG_BLANK, SIG_SPACE];

/// gitoxide's answer `got` differs from git's. Find the smallest set of recorded deviation classes such that
/// "git's algorithm plus these deviations" reproduces gitoxide's behaviour on this input, and name the disagreement
/// after its first member. Returns "" if no such set exists (an unrecorded kind of disagreement).
///
/// The classes: four switches in the model (see `Quirks`), and `malformed-posix-class-in-bracket`, which is defined by
/// a rewrite: gitoxide is right again when every `[:` that lacks its `:]` is written `\[:` (same meaning in git).
fn classify(pat: &[u8], text: &[u8], flags: u32, got: bool) -> &'static str {
    let mut best: Option<(u32, &'static str)> = None;
    for mask in 0u32..32 {
        let use_rewrite = mask & 1 != 0;
        let q = Quirks {
            fold_whole_pattern: mask & 2 != 0,
            escaped_match_keeps_prev: mask & 4 != 0,
            blank_is_whitespace: mask & 8 != 0,
            space_is_sp_only: mask & 16 != 0,
        };
        let explained = if use_rewrite {
            let Some(rw) = model::escape_malformed_classes(pat, text, flags, q) else { continue };
            let rw = rw.as_slice();
            // the rewrite must not change the meaning for git, and gitoxide must follow "git + q" on it
            model::wildmatch(rw, text, flags, Quirks::default()) == model::wildmatch(pat, text, flags, Quirks::default())
                && model::wildmatch(rw, text, flags, q)
                    == Some(gix_glob::wildmatch(rw.as_bstr(), text.as_bstr(), gix_mode(flags)))
        } else {
            model::wildmatch(pat, text, flags, q) == Some(got)
        };
        if explained && mask != 0 {
            let size = mask.count_ones();
            let first = EXPLANATIONS[mask.trailing_zeros() as usize];
            if best.map_or(true, |(s, _)| size < s) {
                best = Some((size, first));
            }
        }
    }
    best.map_or("", |b| b.1)
}

fn gix_mode(flags: u32) -> Mode {
    let mut m = Mode::empty();
    if flags & CASEFOLD != 0 {
        m |= Mode::IGNORE_CASE;
    }
    if flags & PATHNAME != 0 {
        m |= Mode::NO_MATCH_SLASH_LITERAL;
    }
    m
}

fn flags_name(flags: u32) -> &'static str {
    match flags {
        0 => "plain",
        1 => "casefold",
        2 => "pathname",
        _ => "pathname+casefold",
    }
}

// ------------------------------------------------------------------------------------------------
// generator

#[derive(Clone, Debug, Hash, PartialEq, Eq)]
enum BrItem {
    Ch(u8),
    Esc(u8),
    Range(u8, u8),
    /// range whose end is escaped
    RangeEsc(u8, u8),
    Class(&'static str),
    /// raw bytes, used for malformed `[:` forms
    Raw(&'static [u8]),
}

#[derive(Clone, Debug, Hash, PartialEq, Eq)]
enum Tok {
    Lit(u8),
    Any,
    Star(u8),
    Esc(u8),
    TrailingBackslash,
    Bracket {
        neg: Option<u8>,
        items: Vec<BrItem>,
        closed: bool,
    },
}

const CLASSES: [&str; 12] = [
    "alnum", "alpha", "blank", "cntrl", "digit", "graph", "lower", "print", "punct", "space", "upper", "xdigit",
];
const BAD_CLASS_FORMS: [&[u8]; 7] = [
    b"[:foo:]",
    b"[:ALPHA:]",
    b"[:alpha",
    b"[:]",
    b"[::]",
    b"[:alpha]",
    b"[:alpha:",
];
/// literals in patterns: common path characters first, then boundary characters
const LITS: &[u8] = b"abcabcABxy//..-_ZzA09 \t]!^:{,\xc3";
/// characters in texts
const TEXT_CHARS: &[u8] = b"abcabcABxy///..-_ZzA09 \t\r]![^:{*?\\\xc3\n\x0c\x7f";

fn class_member(name: &str, t: &mut Tape) -> u8 {
    let s: &[u8] = match name {
        "alnum" => b"a0Z",
        "alpha" => b"aZ",
        "blank" => b" \t\r\n\x0c",
        "cntrl" => b"\t\x7f\x01",
        "digit" => b"09",
        "graph" => b"a!~",
        "lower" => b"az",
        "print" => b" a~",
        "punct" => b"!]_^",
        "space" => b" \t\r\n\x0c",
        "upper" => b"AZa",
        "xdigit" => b"afAF09g",
        _ => b"a",
    };
    *t.pick(s)
}

fn gen_bracket(t: &mut Tape) -> Tok {
    let neg = match t.weighted(&[6, 2, 2]) {
        0 => None,
        1 => Some(b'!'),
        _ => Some(b'^'),
    };
    let n = t.range(1, 4);
    let mut items = Vec::new();
    if t.chance(40) {
        items.push(BrItem::Ch(b']'));
    }
    if t.chance(24) {
        items.push(BrItem::Ch(b'-'));
    }
    for _ in 0..n {
        let item = match t.weighted(&[8, 6, 2, 2, 2, 6, 2, 1]) {
            0 => BrItem::Ch(*t.pick(b"abcABxyZ/.-_[!^\\*?:09 \t".as_slice())),
            1 => {
                let ranges: &[(u8, u8)] = &[
                    (b'a', b'c'),
                    (b'A', b'C'),
                    (b'a', b'z'),
                    (b'A', b'Z'),
                    (b'0', b'9'),
                    (b'Z', b'a'),
                    (b'_', b'b'),
                    (b'A', b'z'),
                    (b'a', b'Z'),
                    (b'+', b'/'),
                    (b'-', b'-'),
                    (b'!', b'~'),
                ];
                let (a, b) = *t.pick(ranges);
                BrItem::Range(a, b)
            }
            2 => BrItem::Range(*t.pick(b"cz9C".as_slice()), *t.pick(b"aA0".as_slice())), // reversed
            3 => BrItem::Esc(*t.pick(b"]\\-a[A^!".as_slice())),
            4 => BrItem::RangeEsc(*t.pick(b"aA\\".as_slice()), *t.pick(b"]cz\\".as_slice())),
            5 => BrItem::Class(*t.pick(&CLASSES)),
            6 => BrItem::Raw(*t.pick(&BAD_CLASS_FORMS)),
            _ => BrItem::Ch(b'-'),
        };
        items.push(item);
    }
    if t.chance(16) {
        items.push(BrItem::Ch(b'-'));
    }
    Tok::Bracket {
        neg,
        items,
        closed: !t.chance(16),
    }
}

#[derive(Clone, Copy, PartialEq)]
enum Shape {
    General,
    /// `*literal`: the ENDS_WITH shortcut
    StarLiteral,
    /// literal prefix followed by glob: the prefix shortcut
    LiteralThenGlob,
    /// no wildcard at all
    LiteralOnly,
    /// `lit**/rest`: a `**` right after a literal prefix
    LiteralThenDoubleStar,
}

fn gen_tokens(t: &mut Tape, shape: Shape) -> Vec<Tok> {
    let mut toks = Vec::new();
    let lit = |t: &mut Tape| Tok::Lit(*t.pick(LITS));
    match shape {
        Shape::LiteralOnly => {
            for _ in 0..t.range(1, 8) {
                toks.push(lit(t));
            }
            return toks;
        }
        Shape::StarLiteral => {
            toks.push(Tok::Star(1));
            for _ in 0..t.range(0, 6) {
                toks.push(lit(t));
            }
            return toks;
        }
        Shape::LiteralThenGlob => {
            for _ in 0..t.range(1, 5) {
                toks.push(lit(t));
            }
        }
        Shape::LiteralThenDoubleStar => {
            for _ in 0..t.range(1, 3) {
                toks.push(Tok::Lit(*t.pick(b"abcxyAB._-".as_slice())));
            }
            toks.push(Tok::Star(2));
            toks.push(Tok::Lit(b'/'));
        }
        Shape::General => {}
    }
    let n = t.range(0, 10) + if t.chance(48) { t.range(0, 14) } else { 0 };
    let mut stars = 0;
    while toks.len() < n.min(24) {
        match t.weighted(&[10, 2, 4, 3, 4, 3]) {
            0 => toks.push(lit(t)),
            1 => toks.push(Tok::Any),
            2 if stars < 8 => {
                stars += 1;
                toks.push(Tok::Star(1));
            }
            3 if stars < 8 => {
                stars += 1;
                // the `**` family with its slash contexts
                let k = t.weighted(&[3, 3, 3, 2, 1, 1]);
                if matches!(k, 1 | 3 | 5) {
                    toks.push(Tok::Lit(b'/'));
                }
                toks.push(Tok::Star(if k == 4 { 3 } else { 2 }));
                match k {
                    1 | 2 => toks.push(Tok::Lit(b'/')),
                    5 => toks.push(Tok::Esc(b'/')),
                    _ => {}
                }
            }
            4 => toks.push(gen_bracket(t)),
            5 => toks.push(Tok::Esc(*t.pick(b"*?[\\aA/]!b".as_slice()))),
            _ => toks.push(lit(t)),
        }
    }
    if t.chance(10) {
        toks.push(Tok::TrailingBackslash);
    }
    toks
}

fn render(toks: &[Tok]) -> Vec<u8> {
    let mut out = Vec::new();
    for tok in toks {
        match tok {
            Tok::Lit(c) => out.push(*c),
            Tok::Any => out.push(b'?'),
            Tok::Star(n) => out.extend(std::iter::repeat(b'*').take(*n as usize)),
            Tok::Esc(c) => {
                out.push(b'\\');
                out.push(*c);
            }
            Tok::TrailingBackslash => out.push(b'\\'),
            Tok::Bracket { neg, items, closed } => {
                out.push(b'[');
                if let Some(n) = neg {
                    out.push(*n);
                }
                for it in items {
                    match it {
                        BrItem::Ch(c) => out.push(*c),
                        BrItem::Esc(c) => {
                            out.push(b'\\');
                            out.push(*c);
                        }
                        BrItem::Range(a, b) => {
                            out.push(*a);
                            out.push(b'-');
                            out.push(*b);
                        }
                        BrItem::RangeEsc(a, b) => {
                            if *a == b'\\' {
                                out.push(b'\\');
                            }
                            out.push(*a);
                            out.push(b'-');
                            out.push(b'\\');
                            out.push(*b);
                        }
                        BrItem::Class(n) => {
                            out.extend_from_slice(b"[:");
                            out.extend_from_slice(n.as_bytes());
                            out.extend_from_slice(b":]");
                        }
                        BrItem::Raw(r) => out.extend_from_slice(r),
                    }
                }
                if *closed {
                    out.push(b']');
                }
            }
        }
    }
    out
}

fn flip_case(c: u8) -> u8 {
    if c.is_ascii_lowercase() {
        c.to_ascii_uppercase()
    } else {
        c.to_ascii_lowercase()
    }
}

/// A text that is meant to match (or nearly match) the pattern.
fn instantiate(toks: &[Tok], t: &mut Tape, flip: bool) -> Vec<u8> {
    let mut out = Vec::new();
    let mut lit = |c: u8, t: &mut Tape, out: &mut Vec<u8>| {
        if flip && c.is_ascii_alphabetic() && t.chance(96) {
            out.push(flip_case(c))
        } else {
            out.push(c)
        }
    };
    for tok in toks {
        match tok {
            Tok::Lit(c) | Tok::Esc(c) => lit(*c, t, &mut out),
            Tok::TrailingBackslash => {
                if t.bool() {
                    out.push(b'\\')
                }
            }
            Tok::Any => out.push(*t.pick(b"ab/x.A".as_slice())),
            Tok::Star(n) => {
                let k = t.weighted(&[4, 4, 2, 1]);
                for _ in 0..k {
                    let alpha: &[u8] = if *n >= 2 || t.chance(40) { b"ab/x/." } else { b"abx.A" };
                    out.push(*t.pick(alpha));
                }
            }
            Tok::Bracket { neg, items, .. } => {
                if neg.is_some() && t.chance(160) {
                    out.push(*t.pick(b"qQ/7 ".as_slice()));
                    continue;
                }
                if items.is_empty() {
                    out.push(b'q');
                    continue;
                }
                match &items[t.below(items.len())] {
                    BrItem::Ch(c) | BrItem::Esc(c) => lit(*c, t, &mut out),
                    BrItem::Range(a, b) | BrItem::RangeEsc(a, b) => {
                        let (lo, hi) = if a <= b { (*a, *b) } else { (*b, *a) };
                        let c = match t.weighted(&[3, 3, 2, 1, 1]) {
                            0 => lo,
                            1 => hi,
                            2 => lo + ((hi - lo) / 2),
                            3 => lo.wrapping_sub(1).max(1),
                            _ => hi.saturating_add(1).min(0x7f),
                        };
                        lit(c, t, &mut out)
                    }
                    BrItem::Class(n) => out.push(class_member(n, t)),
                    BrItem::Raw(r) => out.push(*t.pick(r)),
                }
            }
        }
    }
    out
}

fn perturb(text: &mut Vec<u8>, t: &mut Tape) {
    for _ in 0..t.range(1, 2) {
        let pos = t.below(text.len() + 1);
        match t.weighted(&[3, 3, 3, 1]) {
            0 if !text.is_empty() => {
                text.remove(pos.min(text.len() - 1));
            }
            1 => text.insert(pos, *t.pick(TEXT_CHARS)),
            2 if !text.is_empty() => {
                let p = pos.min(text.len() - 1);
                text[p] = *t.pick(TEXT_CHARS);
            }
            _ => text.truncate(pos),
        }
    }
}

/// (text, derived-from-pattern)
fn gen_text(t: &mut Tape, toks: &[Tok]) -> (Vec<u8>, bool) {
    let mut text;
    let derived;
    match t.weighted(&[5, 5, 2]) {
        0 => {
            let flip = t.chance(64);
            text = instantiate(toks, t, flip);
            derived = true;
        }
        1 => {
            let flip = t.chance(64);
            text = instantiate(toks, t, flip);
            perturb(&mut text, t);
            derived = true;
        }
        _ => {
            text = t.string_of(TEXT_CHARS, 0, 12);
            derived = false;
        }
    }
    text.retain(|b| *b != 0);
    text.truncate(40);
    (text, derived)
}

struct Features {
    starstar: bool,
    bracket: bool,
    escape: bool,
}

fn features(toks: &[Tok]) -> Features {
    Features {
        starstar: toks.iter().any(|t| matches!(t, Tok::Star(n) if *n >= 2)),
        bracket: toks.iter().any(|t| matches!(t, Tok::Bracket { .. })),
        escape: toks.iter().any(|t| match t {
            Tok::Esc(_) | Tok::TrailingBackslash => true,
            Tok::Bracket { items, .. } => items.iter().any(|i| matches!(i, BrItem::Esc(_) | BrItem::RangeEsc(..))),
            _ => false,
        }),
    }
}

fn label_tokens(c: &mut Case, toks: &[Tok]) -> usize {
    let f = features(toks);
    c.label_if(f.starstar, "starstar");
    c.label_if(f.bracket, "bracket");
    c.label_if(f.escape, "escape");
    c.label_if(toks.iter().any(|t| matches!(t, Tok::Star(1))), "star");
    c.label_if(toks.iter().any(|t| matches!(t, Tok::Any)), "question");
    for t in toks {
        if let Tok::Bracket { neg, items, closed } = t {
            c.label_if(neg.is_some(), "bracket-negated");
            c.label_if(!*closed, "bracket-unterminated");
            for i in items {
                match i {
                    BrItem::Class(_) => c.label("posix-class"),
                    BrItem::Raw(_) => c.label("posix-class-malformed"),
                    BrItem::Range(a, b) if a > b => c.label("range-reversed"),
                    BrItem::Range(..) | BrItem::RangeEsc(..) => c.label("range"),
                    _ => {}
                }
            }
        }
        c.label_if(matches!(t, Tok::TrailingBackslash), "trailing-backslash");
    }
    f.starstar as usize + f.bracket as usize + f.escape as usize
}

// ------------------------------------------------------------------------------------------------
// real git as wildmatch oracle

const EMPTY_BLOB: &str = "e69de29bb2d1d6434b8b29ae775ad8c2e48c5391";

/// true if `p` can be an index entry path in git on this platform
fn valid_index_path(p: &[u8]) -> bool {
    if p.is_empty() || p.contains(&0) || p.len() > 200 {
        return false;
    }
    p.split(|b| *b == b'/').all(|comp| {
        if comp.is_empty() || comp == b"." || comp == b".." {
            return false;
        }
        let lower = comp.to_ascii_lowercase();
        // .git and its NTFS/HFS look-alikes are refused by verify_path (protectNTFS defaults to on)
        !(lower.starts_with(b".git") || lower.starts_with(b"git~"))
    })
}

/// Can the pattern be handed to git as (the path part of) a pathspec without being rewritten by path normalization?
fn pattern_expressible(p: &[u8]) -> bool {
    if p.is_empty() || p.contains(&0) || p.first() == Some(&b'/') || p.last() == Some(&b'/') {
        return false;
    }
    p.split(|b| *b == b'/')
        .all(|comp| !comp.is_empty() && comp != b"." && comp != b"..")
}

fn nowildcard_len(p: &[u8]) -> usize {
    p.iter()
        .position(|b| matches!(b, b'*' | b'?' | b'[' | b'\\'))
        .unwrap_or(p.len())
}

fn eq_fold(a: &[u8], b: &[u8], fold: bool) -> bool {
    if fold {
        a.eq_ignore_ascii_case(b)
    } else {
        a == b
    }
}

/// How `git ls-files -- <pathspec>` relates to wildmatch for one (pattern, text, flags):
/// `Some((pat_rest, text_rest))` means: the path is listed iff git's wildmatch(pat_rest, text_rest, flags) matches.
/// `None`: git's answer says nothing about wildmatch (literal/leading-directory match, or the literal prefix differs).
fn reduce_for_git<'a>(pat: &'a [u8], text: &'a [u8], flags: u32) -> Option<(&'a [u8], &'a [u8])> {
    let fold = flags & CASEFOLD != 0;
    let n = nowildcard_len(pat);
    if n == pat.len() {
        return None;
    }
    // match_pathspec_item(): literal equality / leading directory match comes first
    if text.len() >= pat.len()
        && eq_fold(pat, &text[..pat.len()], fold)
        && (text.len() == pat.len() || text[pat.len()] == b'/')
    {
        return None;
    }
    // git_fnmatch(): literal prefix compared separately, wildmatch sees the rest
    if text.len() < n || !eq_fold(&pat[..n], &text[..n], fold) {
        return None;
    }
    Some((&pat[n..], &text[n..]))
}

fn pathspec_for(pat: &[u8], flags: u32) -> Option<Vec<u8>> {
    let magic: &[u8] = match flags {
        0 => {
            if pat.first() == Some(&b':') {
                return None;
            }
            b""
        }
        1 => b":(icase)",
        2 => b":(glob)",
        _ => b":(icase,glob)",
    };
    let mut v = magic.to_vec();
    v.extend_from_slice(pat);
    Some(v)
}

struct GitOracle {
    world: World,
    texts: Vec<Vec<u8>>,
}

impl GitOracle {
    /// Put those of `texts` into a fresh index that can be there together.
    fn new(texts: &[Vec<u8>]) -> Result<GitOracle, String> {
        let mut chosen: Vec<Vec<u8>> = Vec::new();
        for t in texts {
            if !valid_index_path(t) || chosen.contains(t) {
                continue;
            }
            // no D/F conflicts
            let conflict = chosen.iter().any(|c| {
                (c.len() > t.len() && c.starts_with(t) && c[t.len()] == b'/')
                    || (t.len() > c.len() && t.starts_with(c) && t[c.len()] == b'/')
            });
            if !conflict {
                chosen.push(t.clone());
            }
        }
        let world = World::new("c36", false)?;
        if !chosen.is_empty() {
            let mut input = Vec::new();
            for t in &chosen {
                input.extend_from_slice(format!("100644 {EMPTY_BLOB}\t").as_bytes());
                input.extend_from_slice(t);
                input.push(0);
            }
            world.git.run_in(["update-index", "-z", "--index-info"], Some(&input))?;
        }
        let listed = world.git.run(["ls-files", "-z"])?;
        let mut have: Vec<Vec<u8>> = listed.split(|b| *b == 0).filter(|s| !s.is_empty()).map(|s| s.to_vec()).collect();
        have.sort();
        let mut want = chosen.clone();
        want.sort();
        if have != want {
            return Err(format!(
                "index does not hold the expected paths: have {:?}, want {:?}",
                have.iter().map(|p| show(p)).collect::<Vec<_>>(),
                want.iter().map(|p| show(p)).collect::<Vec<_>>()
            ));
        }
        Ok(GitOracle { world, texts: chosen })
    }

    /// the set of index paths git selects for the pattern in the given mode; `None` if not expressible
    fn select(&self, pat: &[u8], flags: u32) -> Result<Option<Vec<Vec<u8>>>, String> {
        if !pattern_expressible(pat) {
            return Ok(None);
        }
        let Some(spec) = pathspec_for(pat, flags) else {
            return Ok(None);
        };
        use std::os::unix::ffi::OsStrExt;
        let args: Vec<&std::ffi::OsStr> = vec![
            std::ffi::OsStr::new("ls-files"),
            std::ffi::OsStr::new("-z"),
            std::ffi::OsStr::new("--"),
            std::ffi::OsStr::from_bytes(&spec),
        ];
        let out = self.world.git.run(args)?;
        Ok(Some(
            out.split(|b| *b == 0).filter(|s| !s.is_empty()).map(|s| s.to_vec()).collect(),
        ))
    }
}

/// Ask real git about a single pair. `None`: git cannot express the question.
fn ask_git(pat: &[u8], text: &[u8], flags: u32) -> Result<Option<bool>, String> {
    // git only ever runs wildmatch on the part of the pattern starting at the first special character
    if nowildcard_len(pat) != 0 || !valid_index_path(text) {
        return Ok(None);
    }
    if reduce_for_git(pat, text, flags).is_none() {
        return Ok(None);
    }
    let oracle = GitOracle::new(&[text.to_vec()])?;
    Ok(oracle.select(pat, flags)?.map(|sel| sel.iter().any(|s| s == text)))
}

/// A disagreement that belongs to a recorded deviation class; reported at the end of the case so that the remaining
/// evaluations of the case are still made (an unclassified disagreement is reported at once).
type Deferred = Option<(&'static str, String)>;

fn report_deferred(c: &mut Case, d: Deferred) {
    if let Some((sig, msg)) = d {
        c.fail_sig(&pin(sig), msg);
    }
}

/// Compare gitoxide's `got` with the model for one evaluation; returns false if the case is over (failure recorded).
fn vote(c: &mut Case, deferred: &mut Deferred, what: &str, pat: &[u8], text: &[u8], flags: u32, got: bool) -> bool {
    let Some(want) = model::wildmatch(pat, text, flags, Quirks::default()) else {
        c.discard();
        return false;
    };
    if got == want {
        return true;
    }
    // 3-way vote: every unexplained disagreement is put to real git; disagreements that are exactly explained by a
    // recorded deviation class are confirmed for a deterministic sample only (spawning git is expensive)
    let sig = classify(pat, text, flags, got);
    let sample = {
        use std::hash::{Hash, Hasher};
        let mut h = std::collections::hash_map::DefaultHasher::new();
        (pat, text, flags).hash(&mut h);
        h.finish() % 16 == 0
    };
    let asked = if sig.is_empty() || sample {
        ask_git(pat, text, flags)
    } else {
        Ok(None)
    };
    match asked {
        Err(e) => {
            c.infra(format!("git oracle: {e}"));
            return false;
        }
        Ok(Some(git)) if git != want => {
            c.infra(format!(
                "MODEL-BUG: model says {want}, git and gitoxide say {git} for pattern {} text {} ({})",
                show(pat),
                show(text),
                flags_name(flags)
            ));
            return false;
        }
        Ok(confirmed) => {
            let msg = format!(
                "{what}: gitoxide says {got}, git's wildmatch says {want} for pattern `{}` text `{}` mode {} ({})",
                show(pat),
                show(text),
                flags_name(flags),
                if confirmed.is_some() {
                    "confirmed by real git"
                } else {
                    "model only: not expressible as a pathspec, or not in the confirmation sample"
                }
            );
            if sig.is_empty() {
                c.fail(msg);
                false
            } else {
                deferred.get_or_insert((sig, msg));
                true
            }
        }
    }
}

/// `C36_PROBE='pattern<TAB>text' c36`: print what gitoxide, the model and git say (triage helper, escapes: \\xNN)
fn probe(arg: &str) {
    fn unescape(s: &str) -> Vec<u8> {
        let b = s.as_bytes();
        let mut out = Vec::new();
        let mut i = 0;
        while i < b.len() {
            if b[i] == b'\\' && b.get(i + 1) == Some(&b'x') && i + 3 < b.len() {
                if let Ok(v) = u8::from_str_radix(&s[i + 2..i + 4], 16) {
                    out.push(v);
                    i += 4;
                    continue;
                }
            }
            out.push(b[i]);
            i += 1;
        }
        out
    }
    let (p, t) = arg.split_once('\t').unwrap_or((arg, ""));
    let (p, t) = (unescape(p), unescape(t));
    for flags in 0..4u32 {
        println!(
            "{:18} gix={:5} model={:?} git={:?} pattern-matches={:?}",
            flags_name(flags),
            gix_glob::wildmatch(p.as_bstr(), t.as_bstr(), gix_mode(flags)),
            model::wildmatch(&p, &t, flags, Quirks::default()),
            ask_git(&p, &t, flags),
            gix_glob::Pattern::from_bytes_without_negation(&p).map(|pp| pp.matches(t.as_bstr(), gix_mode(flags)))
        );
    }
}

/// Triage helper for pinning known findings: `VP_PIN=<signature>` makes failures of that class carry an unknown signature
/// (`<signature>#pin`) so that the runner shrinks them and writes a case file even though the class is listed as known.
fn pin(sig: &str) -> String {
    match std::env::var("VP_PIN") {
        Ok(p) if p == sig => format!("{sig}#pin"),
        _ => sig.to_string(),
    }
}
fn pinning() -> bool {
    std::env::var_os("VP_PIN").is_some()
}

fn main() {
    if let Ok(arg) = std::env::var("C36_PROBE") {
        probe(&arg);
        return;
    }
    let mut ck = Check::new("C36", "exploration");
    ck.rule("Patterns of <= 24 tokens and <= 8 star groups over literals (path characters, upper/lower case, blanks, ']', '!', '^', ':', a high byte), '?', '*', '**' with and without slash context ('/**/', '**/', '/**', '***', '**\\/'), bracket expressions (negation with '!' and '^', leading ']', '-' at the edges, ranges incl. reversed, mixed-case and escaped ends, all 12 POSIX classes, 7 malformed class forms, unterminated), backslash escapes incl. a trailing backslash; texts instantiated from the pattern (optionally case-flipped), perturbed instantiations, and random texts; every pair is evaluated in all four modes (pathname x casefold). Non-trivial: the pattern has >= 2 of {'**', bracket expression, escape} and the text is derived from the pattern. Distinct by (pattern, text).");
    ck.assume(&format!(
        "oracle is a transcription of wildmatch.c:dowild of git 2.39 validated in this run against {} (sub-check git-pathspec) by expressing matches as pathspecs; patterns and texts contain no NUL byte",
        Git::version()
    ));
    ck.assume("git runs wildmatch only on the pattern part starting at the first glob-special character (the literal prefix is compared separately), so git-confirmed pairs have patterns starting with one of * ? [ \\; other pairs rely on the validated model");
    ck.assume("the reference for Pattern::matches() is git's use of wildmatch in dir.c/pathspec.c (literal prefix compared separately, wildmatch on the rest); this differs from wildmatch on the whole pattern only for 'lit**...' patterns (sub-check pattern-matches generates them with a shape of their own)");
    ck.assume("a disagreement that is exactly explained by a recorded deviation class (known_findings.json) is confirmed with real git only for a deterministic 1/16 sample; every unexplained disagreement is put to real git when expressible");

    // gix_glob::wildmatch vs the model, 4 modes per pair
    ck.sub("wildmatch", SubCfg::new(150_000, 5_000_000).max_len(400), |t, c| {
        let toks = gen_tokens(t, Shape::General);
        let pat = render(&toks);
        let (text, derived) = gen_text(t, &toks);
        let nfeat = label_tokens(c, &toks);
        c.label(if derived { "text-derived" } else { "text-random" });
        c.key(&(&pat, &text));
        c.nontrivial(nfeat >= 2 && derived);
        c.sample_with(|| format!("pattern `{}` text `{}`", show(&pat), show(&text)));
        let mut any_match = false;
        let mut deferred = None;
        for flags in 0..4u32 {
            let got = gix_glob::wildmatch(pat.as_bstr(), text.as_bstr(), gix_mode(flags));
            any_match |= got;
            if !vote(c, &mut deferred, "wildmatch()", &pat, &text, flags, got) {
                return;
            }
        }
        c.label(if any_match { "matches-some-mode" } else { "matches-no-mode" });
        report_deferred(c, deferred);
    });

    // Pattern::matches (shortcut paths) vs the model on the parsed pattern text
    ck.sub("pattern-matches", SubCfg::new(100_000, 3_000_000).max_len(400), |t, c| {
        let shape = *t.pick(&[
            Shape::General,
            Shape::StarLiteral,
            Shape::StarLiteral,
            Shape::LiteralThenGlob,
            Shape::LiteralThenGlob,
            Shape::LiteralOnly,
            Shape::LiteralThenDoubleStar,
        ]);
        let toks = gen_tokens(t, shape);
        let mut raw = Vec::new();
        // decorations handled by gix_glob::parse: negation, escapes of '!' and '#', anchoring, directory marker
        match t.weighted(&[10, 2, 1, 1, 2]) {
            1 => raw.push(b'!'),
            2 => raw.extend_from_slice(b"\\!"),
            3 => raw.extend_from_slice(b"\\#"),
            4 => raw.push(b'/'),
            _ => {}
        }
        raw.extend(render(&toks));
        if t.chance(32) {
            raw.push(b'/');
        }
        let (text, derived) = gen_text(t, &toks);
        let Some(p) = gix_glob::parse(&raw) else {
            c.label("parse-none");
            c.key(&(&raw, &text));
            // nothing is left: blank, or only the decorations ('!', anchoring and directory slashes)
            let rest = raw.strip_prefix(b"!").unwrap_or(&raw);
            let nothing_left = rest.iter().all(u8::is_ascii_whitespace) || rest.iter().all(|b| *b == b'/');
            ensure!(c, nothing_left, "gix_glob::parse() returned None for pattern `{}`", show(&raw));
            return;
        };
        let nfeat = label_tokens(c, &toks);
        use gix_glob::pattern::Mode as PM;
        c.label_if(p.mode.contains(PM::ENDS_WITH), "shortcut-ends-with");
        c.label_if(p.first_wildcard_pos.is_none(), "shortcut-no-wildcard");
        c.label_if(matches!(p.first_wildcard_pos, Some(n) if n > 0), "shortcut-literal-prefix");
        c.label_if(p.mode.contains(PM::NO_SUB_DIR), "no-sub-dir");
        c.key(&(&raw, &text));
        c.nontrivial(derived && (nfeat >= 2 || p.mode.contains(PM::ENDS_WITH) || matches!(p.first_wildcard_pos, Some(n) if n > 0)));
        c.sample_with(|| format!("raw `{}` parsed {:?} text `{}`", show(&raw), p, show(&text)));
        // parse() must keep the pattern text intact apart from the documented decorations
        ensure!(
            c,
            raw.find(p.text.as_slice()).is_some(),
            "parsed text `{}` is not a part of the raw pattern `{}`",
            show(&p.text),
            show(&raw)
        );
        ensure!(
            c,
            p.first_wildcard_pos == {
                let n = nowildcard_len(&p.text);
                (n != p.text.len()).then_some(n)
            },
            "first_wildcard_pos {:?} is not the position of the first glob character in `{}`",
            p.first_wildcard_pos,
            show(&p.text)
        );
        // The reference for Pattern::matches() is what git does with such a pattern in dir.c/pathspec.c
        // (match_basename(), match_pathname(), git_fnmatch()): the literal prefix up to the first glob character is
        // compared on its own and wildmatch sees only the rest of pattern and text. That differs from wildmatch on the
        // whole pattern exactly when the rest starts with `**` after a non-slash literal (`lit**/x`): for git the `**`
        // is then at the start of the pattern and may match across directories.
        let n = nowildcard_len(&p.text);
        let dstar_after_literal = n > 0 && n < p.text.len() && p.text[n - 1] != b'/' && p.text[n..].starts_with(b"**");
        c.label_if(dstar_after_literal, "doublestar-after-literal-prefix");
        let mut deferred = None;
        for flags in 0..4u32 {
            let got = p.matches(text.as_bstr(), gix_mode(flags));
            if dstar_after_literal {
                let fold = flags & CASEFOLD != 0;
                let prefix_ok = text.len() >= n && eq_fold(&p.text[..n], &text[..n], fold);
                let Some(rest_matches) = (if prefix_ok {
                    model::wildmatch(&p.text[n..], &text[n..], flags, Quirks::default())
                } else {
                    Some(false)
                }) else {
                    c.discard();
                    return;
                };
                if got != rest_matches {
                    let whole = model::wildmatch(&p.text, &text, flags, Quirks::default());
                    let msg = format!(
                        "Pattern::matches(): gitoxide says {got}; git compares the literal prefix `{}` and runs wildmatch on the rest `{}`, which says {rest_matches} for text `{}` mode {}",
                        show(&p.text[..n]),
                        show(&p.text[n..]),
                        show(&text),
                        flags_name(flags)
                    );
                    if whole == Some(got) {
                        // gitoxide = wildmatch on the whole pattern: the recorded class
                        deferred.get_or_insert(("doublestar-after-literal-prefix", msg));
                    } else {
                        // something else is wrong as well; let the ordinary vote name it
                        if !vote(c, &mut deferred, "Pattern::matches()", &p.text, &text, flags, got) {
                            return;
                        }
                    }
                }
                continue;
            }
            if !vote(c, &mut deferred, "Pattern::matches()", &p.text, &text, flags, got) {
                return;
            }
        }
        report_deferred(c, deferred);
    });

    // model and gitoxide vs real git: one index with texts, several patterns, 4 pathspec forms each
    ck.sub(
        "git-pathspec",
        SubCfg::new(220, 4_000).max_len(2500).max_shrink(40),
        |t, c| {
            let npat = t.range(3, 6);
            let mut pats = Vec::new();
            let mut texts: Vec<Vec<u8>> = Vec::new();
            let mut nfeat_max = 0;
            for _ in 0..npat {
                let shape = if t.chance(64) { Shape::LiteralThenGlob } else { Shape::General };
                let mut toks = gen_tokens(t, shape);
                // git hands only the part from the first special character on to wildmatch: make sure there is one
                if !toks.iter().any(|k| !matches!(k, Tok::Lit(_))) {
                    toks.insert(t.below(toks.len() + 1), Tok::Star(1));
                }
                nfeat_max = nfeat_max.max(label_tokens(c, &toks));
                for _ in 0..t.range(2, 4) {
                    let (text, _) = gen_text(t, &toks);
                    texts.push(text);
                }
                pats.push(render(&toks));
            }
            c.key(&(&pats, &texts));
            let oracle = infra!(c, GitOracle::new(&texts), "git index");
            let mut informative = 0usize;
            let mut matched = 0usize;
            let mut deferred: Deferred = None;
            for pat in &pats {
                for flags in 0..4u32 {
                    let selected = match infra!(c, oracle.select(pat, flags), "git ls-files") {
                        Some(s) => s,
                        None => {
                            c.label("pattern-not-expressible");
                            continue;
                        }
                    };
                    for text in &oracle.texts {
                        let Some((p_rest, t_rest)) = reduce_for_git(pat, text, flags) else {
                            continue;
                        };
                        let git = selected.iter().any(|s| s == text);
                        let Some(want) = model::wildmatch(p_rest, t_rest, flags, Quirks::default()) else {
                            continue;
                        };
                        informative += 1;
                        matched += git as usize;
                        if git != want {
                            c.infra(format!(
                                "MODEL-BUG: git lists={git} but model says {want} for pathspec pattern `{}` path `{}` ({}); wildmatch input `{}` vs `{}`",
                                show(pat), show(text), flags_name(flags), show(p_rest), show(t_rest)
                            ));
                            return;
                        }
                        let got = gix_glob::wildmatch(p_rest.as_bstr(), t_rest.as_bstr(), gix_mode(flags));
                        if got != git {
                            let sig = classify(p_rest, t_rest, flags, got);
                            let msg = format!(
                                "gix_glob::wildmatch says {got}, real git says {git}: pattern `{}` text `{}` mode {} (pathspec `{}` on index path `{}`)",
                                show(p_rest), show(t_rest), flags_name(flags), show(pat), show(text)
                            );
                            if sig.is_empty() {
                                c.fail(msg);
                                return;
                            }
                            deferred.get_or_insert((sig, msg));
                        }
                    }
                }
            }
            report_deferred(c, deferred);
            c.label_if(matched > 0, "git-matched-some");
            c.label_if(informative == 0, "no-informative-pair");
            c.label_if(informative >= 20, "informative-pairs>=20");
            c.label_if(informative >= 60, "informative-pairs>=60");
            c.label_if(matched >= 10, "git-matches>=10");
            c.nontrivial(nfeat_max >= 2 && informative >= 8 && matched > 0);
            c.sample_with(|| {
                format!(
                    "{} patterns x {} index paths, {} informative pairs, {} matches; first pattern `{}`",
                    pats.len(),
                    oracle.texts.len(),
                    informative,
                    matched,
                    show(&pats[0])
                )
            });
        },
    );

    ck.finish();
}
