//! C21 — reflogs read back forwards and backwards identically.
//!
//! Sub-checks
//! * `roundtrip`    : generated `log::Line`s -> `Line::write_to` -> `iter::forward` must give the lines back;
//!                    `iter::reverse` over a `Cursor` with every interesting buffer size >= the longest line must give
//!                    exactly the forward entries reversed, without any `Err`.
//! * `store-append` : entries appended through `file::Store` transactions (the real append path,
//!                    loose/reflog.rs) read back with `reflog_iter` / `reflog_iter_rev`.
//! * `git-written`  : reflogs written by `git update-ref -m` decode (forwards and backwards) to what
//!                    `git log -g` reports.
use gix_object::bstr::{BString, ByteSlice};
use gix_ref::file::log::iter;
use gix_ref::log::Line;
use vp::gen;
use vp::*;

// ---------------------------------------------------------------------------------------------
// generator

#[derive(Clone, Copy, PartialEq, Eq, Debug)]
enum MsgAlpha {
    /// printable ASCII without '>' and CR
    Plain,
    /// text with the bytes that matter to the line grammar: '>', '<', TAB, CR, SP
    Grammar,
    /// any byte but LF
    Bytes,
    /// valid UTF-8 with multi-byte characters, no '>' and no CR
    Utf8,
}

fn gen_message(t: &mut Tape, alpha: MsgAlpha) -> Vec<u8> {
    let len = match t.weighted(&[2, 2, 5, 3, 2, 1]) {
        0 => 0,
        1 => 1,
        2 => t.range(2, 40),
        3 => 80,
        4 => 500,
        _ => 2000,
    };
    if len == 0 {
        return Vec::new();
    }
    // long messages repeat a short pattern (keeps the tape small); a few bytes are then placed individually
    const PLAIN: &[u8] = b"abcXYZ 019:-_/.,()'\"@#";
    const GRAMMAR: &[u8] = b"ab >< \t\r>\xc3\xa4\xff";
    let pick = |t: &mut Tape| -> u8 {
        match alpha {
            MsgAlpha::Plain => *t.pick(PLAIN),
            MsgAlpha::Grammar => {
                if t.chance(150) {
                    *t.pick(PLAIN)
                } else {
                    *t.pick(GRAMMAR)
                }
            }
            MsgAlpha::Bytes | MsgAlpha::Utf8 => {
                let b = t.u8();
                if b == b'\n' {
                    0x0b
                } else {
                    b
                }
            }
        }
    };
    if alpha == MsgAlpha::Utf8 {
        // characters of 1..4 bytes; `len` counts characters here
        const CHARS: &[char] = &['a', 'Z', ' ', ':', '\u{e4}', '\u{2192}', '\u{1d11e}', '\u{fffd}', '\t', '<'];
        let plen = t.range(1, 6).min(len);
        let pattern: Vec<char> = (0..plen).map(|_| *t.pick(CHARS)).collect();
        let s: String = pattern.iter().copied().cycle().take(len).collect();
        return s.into_bytes();
    }
    let plen = t.range(1, 8).min(len);
    let pattern: Vec<u8> = (0..plen).map(|_| pick(t)).collect();
    let mut m: Vec<u8> = pattern.iter().copied().cycle().take(len).collect();
    let points = t.below(4);
    for _ in 0..points {
        let p = match t.below(3) {
            0 => 0,
            1 => len - 1,
            _ => t.below(len),
        };
        m[p] = pick(t);
    }
    m
}

fn gen_line(t: &mut Tape, alpha: MsgAlpha) -> Line {
    let (signature, _) = gen::signature(t);
    Line {
        previous_oid: gen::object_id(t),
        new_oid: gen::object_id(t),
        signature,
        message: gen_message(t, alpha).into(),
    }
}

fn gen_lines(t: &mut Tape) -> (Vec<Line>, MsgAlpha) {
    let alpha = *t.pick(&[
        MsgAlpha::Plain,
        MsgAlpha::Plain,
        MsgAlpha::Plain,
        MsgAlpha::Utf8,
        MsgAlpha::Utf8,
        MsgAlpha::Grammar,
        MsgAlpha::Grammar,
        MsgAlpha::Bytes,
    ]);
    let n = match t.weighted(&[1, 2, 2, 6, 4, 2]) {
        0 => 0,
        1 => 1,
        2 => 2,
        3 => t.range(3, 8),
        4 => t.range(9, 20),
        _ => t.range(21, 50),
    };
    let mut lines = Vec::new();
    for _ in 0..n {
        if t.is_empty() {
            break;
        }
        lines.push(gen_line(t, alpha));
    }
    (lines, alpha)
}

fn same(a: &Line, b: &Line) -> bool {
    a.previous_oid == b.previous_oid && a.new_oid == b.new_oid && a.signature == b.signature && a.message == b.message
}

fn brief(l: &Line) -> String {
    format!(
        "{} {} {:?} <{:?}> {:?} msg[{}]={:?}",
        l.previous_oid,
        l.new_oid,
        l.signature.name,
        l.signature.email,
        l.signature.time,
        l.message.len(),
        if l.message.len() > 60 {
            l.message[..60].as_bstr()
        } else {
            l.message.as_bstr()
        }
    )
}

/// Failure classes that are recognised by what is special about the message of the affected line.
const MESSAGE_CLASSES: &[&str] = &["message-contains-gt", "message-non-utf8-lossy", "message-ends-with-cr"];

/// failures of one case; reported at the end so that a failure outside the message classes wins
#[derive(Default)]
struct Fails(Vec<(String, String)>);

impl Fails {
    fn add(&mut self, sig: String, msg: String) {
        if self.0.len() < 16 || !MESSAGE_CLASSES.contains(&sig.as_str()) {
            self.0.push((sig, msg));
        }
    }
    fn report(self, c: &mut Case) {
        let pick = self
            .0
            .iter()
            .find(|(s, _)| !MESSAGE_CLASSES.contains(&s.as_str()))
            .or(self.0.first());
        if let Some((sig, msg)) = pick {
            c.fail_sig(sig, msg.clone());
        }
    }
}

fn lossy(m: &[u8]) -> Vec<u8> {
    String::from_utf8_lossy(m).into_owned().into_bytes()
}

/// failure class of a written line `want` that read back as `got` (None: parse error)
fn class_of(want: &Line, got: Option<&Line>, dir: &'static str) -> String {
    let m = &want.message;
    if m.contains(&b'>') {
        return "message-contains-gt".into();
    }
    if let Some(g) = got {
        let rest_same =
            g.previous_oid == want.previous_oid && g.new_oid == want.new_oid && g.signature == want.signature;
        if rest_same && m.to_str().is_err() && (g.message.as_slice() == lossy(m).as_slice()
                || Some(g.message.as_slice()) == lossy(m).strip_suffix(b"\r")) {
            return "message-non-utf8-lossy".into();
        }
        if rest_same && m.last() == Some(&b'\r') && g.message.as_slice() == &m[..m.len() - 1] {
            return "message-ends-with-cr".into();
        }
    }
    format!("{dir}-differs")
}

/// forward pass over `bytes`
fn forward_all(bytes: &[u8]) -> Vec<Result<Line, String>> {
    iter::forward(bytes)
        .map(|r| r.map(|l| l.to_owned()).map_err(|e| e.to_string()))
        .collect()
}

/// first sentence: what was written (`want`) reads back forwards
fn check_forward(f: &mut Fails, fwd: &[Result<Line, String>], want: &[Line], what: &str) {
    for (i, w) in want.iter().enumerate() {
        match fwd.get(i) {
            None => break,
            Some(Err(e)) => f.add(
                class_of(w, None, "forward"),
                format!("{what}: forward: line {i} does not parse: {e}; written was {}", brief(w)),
            ),
            Some(Ok(g)) if !same(g, w) => f.add(
                class_of(w, Some(g), "forward"),
                format!("{what}: forward: line {i} reads back as {} but {} was written", brief(g), brief(w)),
            ),
            _ => {}
        }
    }
    if fwd.len() != want.len() {
        f.add(
            "forward-count".into(),
            format!("{what}: forward yields {} entries, {} were written", fwd.len(), want.len()),
        );
    }
}

/// second sentence: reverse with buffer `size` == forward reversed (an unparseable line must be the same
/// unparseable line in both directions). `written` classifies failures by the message of the affected line.
fn check_reverse<F: std::io::Read + std::io::Seek>(
    f: &mut Fails,
    log: F,
    size: usize,
    fwd: &[Result<Line, String>],
    written: &[Line],
    what: &str,
) -> bool {
    let mut buf = vec![0u8; size];
    let it = match iter::reverse(log, &mut buf) {
        Ok(it) => it,
        Err(e) => {
            f.add("reverse-init".into(), format!("{what}: reverse() with buffer {size} failed: {e}"));
            return false;
        }
    };
    let class = |i: usize, got: Option<&Line>| -> String {
        match written.get(i) {
            // the forward direction strips a CR before the newline, the reverse direction does not
            Some(w) if w.message.last() == Some(&b'\r') && !w.message.contains(&b'>') => "message-ends-with-cr".into(),
            Some(w) => class_of(w, got, "reverse"),
            None => "reverse-differs".into(),
        }
    };
    let mut n = 0usize;
    for r in it {
        let Some(i) = fwd.len().checked_sub(n + 1) else {
            f.add(
                "reverse-count".into(),
                format!("{what}: reverse with buffer {size} yields more than the {} forward entries", fwd.len()),
            );
            return false;
        };
        match (r, &fwd[i]) {
            (Ok(l), Ok(w)) => {
                if !same(&l, w) {
                    let sig = class(i, Some(&l));
                    let known_class = MESSAGE_CLASSES.contains(&sig.as_str());
                    f.add(
                        sig,
                        format!(
                            "{what}: reverse with buffer {size}: entry {n} from the end is {} but forward entry {i} is {}",
                            brief(&l),
                            brief(w)
                        ),
                    );
                    if !known_class {
                        return false;
                    }
                    // a difference explained by the message of this one line: keep comparing the other lines
                }
            }
            (Err(gix_ref::file::log::iter::reverse::Error::Decode(_)), Err(_)) => {}
            (Ok(l), Err(e)) => {
                f.add(
                    class(i, Some(&l)),
                    format!("{what}: reverse with buffer {size}: entry {n} from the end is {} but forward line {i} is an error: {e}", brief(&l)),
                );
                return false;
            }
            (Err(e), w) => {
                f.add(
                    if matches!(e, gix_ref::file::log::iter::reverse::Error::Io(_)) { "reverse-io-error".into() } else { class(i, None) },
                    format!(
                        "{what}: reverse with buffer {size}: entry {n} from the end is an error: {e} ({}) but forward entry {i} is {}",
                        std::error::Error::source(&e).map(|s| s.to_string()).unwrap_or_default(),
                        w.as_ref().map(brief).unwrap_or_else(|e| format!("error {e}"))
                    ),
                );
                return false;
            }
        }
        n += 1;
    }
    if n != fwd.len() {
        f.add(
            "reverse-count".into(),
            format!("{what}: reverse with buffer {size} yields {n} entries, forward yields {}", fwd.len()),
        );
        return false;
    }
    true
}

/// longest line including one separator byte (see the rule)
fn lmax(bytes: &[u8]) -> usize {
    bytes.split(|b| *b == b'\n').map(|l| l.len() + 1).max().unwrap_or(1)
}

fn buffer_sizes(t: &mut Tape, lmax: usize, file: usize) -> (Vec<usize>, bool) {
    let hi = file + 2;
    if hi >= lmax && hi - lmax <= 200 {
        return ((lmax..=hi).collect(), true);
    }
    let mut v = vec![
        lmax,
        lmax + 1,
        lmax + 2,
        lmax + 3,
        lmax + 4,
        2 * lmax - 1,
        2 * lmax,
        2 * lmax + 1,
        file.saturating_sub(1),
        file,
        file + 1,
        512,
        4096,
    ];
    for _ in 0..16 {
        v.push(t.range(lmax, hi));
    }
    v.retain(|s| *s >= lmax);
    v.sort();
    v.dedup();
    (v, false)
}

fn hash_lines(c: &mut Case, lines: &[Line]) {
    for l in lines {
        c.key(&(l.previous_oid, l.new_oid, &l.signature.name, &l.signature.email, &l.message));
        c.key(&(l.signature.time.seconds, l.signature.time.offset));
    }
}

// ---------------------------------------------------------------------------------------------

pub fn main() {
    let mut ck = Check::new("C21", "exploration");
    ck.rule("Reflogs of 0..50 entries; ids from a pool (null id, all-ones, ...) or random; signatures as in C01 (names/emails without <,>,LF, TAB allowed inside; times incl. negative, 10^k boundaries, extremes; offsets below 100h, -0000); messages of length 0, 1, 2..40, 80, 500, 2000 over one of four alphabets per log: plain ASCII (no '>' / CR), multi-byte UTF-8 text, grammar bytes ('>', '<', TAB, CR, SP, invalid UTF-8), any byte but LF, with bytes placed at the first/last position. The log is written with Line::write_to (optionally without the final newline), or appended through file::Store transactions, or written by git update-ref. Reverse reading uses every buffer size in [L, file+2] when that span is <= 200, else L..L+4, 2L-1..2L+1, file-1..file+1, 512, 4096 and 16 drawn sizes, where L = longest line + 1 separator byte. Non-trivial: >= 3 entries and at least one buffer smaller than the file (the window slides). Distinct by all entry fields.");
    ck.assume("buffer sizes start at L = (longest line content + 1): the line plus one newline; the last line of a log without final newline needs its preceding newline in the window");
    ck.assume(&format!("git-written: {}; identities and messages are compared to what `git log -g --date=raw` prints (%gn %ge %gd %gs), ids to the values given to update-ref", Git::version()));

    ck.sub("roundtrip", SubCfg::new(6_000, 150_000).max_len(4096).max_shrink(3000), |t, c| {
        let (lines, alpha) = gen_lines(t);
        let strip_final_newline = t.chance(24);
        hash_lines(c, &lines);
        c.key(&strip_final_newline);
        let mut bytes = Vec::new();
        for l in &lines {
            if let Err(e) = l.write_to(&mut bytes) {
                c.fail_sig("write-refused", format!("write_to refused {}: {e}", brief(l)));
                return;
            }
        }
        let strip = strip_final_newline && !bytes.is_empty();
        if strip {
            bytes.pop();
        }
        let l = lmax(&bytes);
        let (sizes, exhaustive) = buffer_sizes(t, l, bytes.len());
        c.key(&sizes);
        c.label(match alpha {
            MsgAlpha::Plain => "msg-plain",
            MsgAlpha::Grammar => "msg-grammar-bytes",
            MsgAlpha::Bytes => "msg-any-bytes",
            MsgAlpha::Utf8 => "msg-utf8-multibyte",
        });
        c.label(match lines.len() {
            0 => "entries-0",
            1 => "entries-1",
            2 => "entries-2",
            3..=8 => "entries-3..8",
            9..=20 => "entries-9..20",
            _ => "entries-21..50",
        });
        c.label_if(strip, "no-final-newline");
        c.label_if(exhaustive, "all-buffer-sizes");
        c.label_if(lines.iter().any(|l| l.message.contains(&b'>')), "has-gt-in-message");
        c.label_if(lines.iter().any(|l| l.message.last() == Some(&b'\r')), "has-trailing-cr");
        c.label_if(lines.iter().any(|l| l.message.is_empty()), "has-empty-message");
        c.label_if(lines.iter().any(|l| l.message.to_str().is_err()), "has-non-utf8-message");
        c.label_if(lines.iter().any(|l| l.message.len() >= 500), "has-long-message");
        c.label_if(lines.iter().any(|l| l.signature.name.contains(&b'\t')), "tab-in-name");
        let sliding = sizes.iter().any(|s| *s < bytes.len());
        c.label_if(sliding, "window-slides");
        c.nontrivial(lines.len() >= 3 && sliding);
        c.sample_with(|| {
            format!(
                "{} entries, {} bytes, L={l}, {} buffer sizes {:?}..; first: {}",
                lines.len(),
                bytes.len(),
                sizes.len(),
                sizes.iter().take(4).collect::<Vec<_>>(),
                lines.first().map(brief).unwrap_or_default()
            )
        });
        let fwd = forward_all(&bytes);
        let mut f = Fails::default();
        check_forward(&mut f, &fwd, &lines, "write_to");
        for s in &sizes {
            if !check_reverse(&mut f, std::io::Cursor::new(&bytes), *s, &fwd, &lines, "cursor") {
                break;
            }
        }
        f.report(c);
    });

    ck.sub("store-append", SubCfg::new(1_500, 40_000).max_len(1024).max_shrink(1500), |t, c| {
        use gix_ref::transaction::{Change, LogChange, PreviousValue, RefEdit, RefLog};
        let alpha = *t.pick(&[
            MsgAlpha::Plain,
            MsgAlpha::Plain,
            MsgAlpha::Plain,
            MsgAlpha::Utf8,
            MsgAlpha::Utf8,
            MsgAlpha::Grammar,
            MsgAlpha::Grammar,
            MsgAlpha::Bytes,
        ]);
        let n = t.range(1, 8);
        let name = *t.pick(&["refs/heads/main", "refs/tags/t", "refs/x/y/z", "refs/remotes/o/a-b"]);
        let mut entries: Vec<Line> = Vec::new();
        let mut prev = gix_hash::ObjectId::null(gix_hash::Kind::Sha1);
        for i in 0..n {
            let mut l = gen_line(t, alpha);
            // the store only logs a change of value: make consecutive ids differ
            let mut id = [0u8; 20];
            id[0] = i as u8 + 1;
            id[1..].copy_from_slice(&l.new_oid.as_bytes()[1..]);
            l.new_oid = gix_hash::ObjectId::from_bytes_or_panic(&id);
            l.previous_oid = prev;
            prev = l.new_oid;
            entries.push(l);
        }
        hash_lines(c, &entries);
        c.key(&name);
        c.label(match alpha {
            MsgAlpha::Plain => "msg-plain",
            MsgAlpha::Grammar => "msg-grammar-bytes",
            MsgAlpha::Bytes => "msg-any-bytes",
            MsgAlpha::Utf8 => "msg-utf8-multibyte",
        });
        let non_utf8 = entries.iter().any(|l| l.message.to_str().is_err());
        c.label_if(non_utf8, "non-utf8-message");
        c.label_if(entries.iter().any(|l| l.message.is_empty()), "has-empty-message");
        c.label_if(entries.iter().any(|l| l.message.contains(&b'>')), "has-gt-in-message");
        c.nontrivial(entries.len() >= 3);
        c.sample_with(|| format!("{name}: {} entries; first: {}", entries.len(), brief(&entries[0])));

        let scratch = infra!(c, Scratch::new("c21"), "scratch");
        let store = gix_ref::file::Store::at(
            scratch.path.clone(),
            gix_ref::store::init::Options {
                write_reflog: gix_ref::store::WriteReflog::Always,
                object_hash: gix_hash::Kind::Sha1,
                ..Default::default()
            },
        );
        for l in &entries {
            let edit = RefEdit {
                change: Change::Update {
                    log: LogChange {
                        mode: RefLog::AndReference,
                        force_create_reflog: true,
                        message: l.message.clone(),
                    },
                    expected: PreviousValue::Any,
                    new: gix_ref::Target::Object(l.new_oid),
                },
                name: name.try_into().expect("valid"),
                deref: false,
            };
            let tx = store.transaction().prepare(
                Some(edit),
                gix_lock::acquire::Fail::Immediately,
                gix_lock::acquire::Fail::Immediately,
            );
            let tx = match tx {
                Ok(tx) => tx,
                Err(e) => {
                    c.fail_sig("store-transaction-failed", format!("prepare failed for {}: {e}", brief(l)));
                    return;
                }
            };
            if let Err(e) = tx.commit(l.signature.to_ref()) {
                c.fail_sig("store-transaction-failed", format!("commit failed for {}: {e:?}", brief(l)));
                return;
            }
        }
        let mut buf = Vec::new();
        let fwd: Vec<Result<Line, String>> = match store.reflog_iter(name, &mut buf) {
            Ok(Some(it)) => it.map(|r| r.map(|l| l.to_owned()).map_err(|e| e.to_string())).collect(),
            other => {
                c.fail_sig("store-no-reflog", format!("reflog_iter: {:?}", other.map(|o| o.is_some())));
                return;
            }
        };
        let mut f = Fails::default();
        check_forward(&mut f, &fwd, &entries, "store append");
        // backwards from the file, with the platform's 512 bytes when they suffice, and tight sizes
        let path = scratch.join("logs").join(name);
        let bytes = infra!(c, std::fs::read(&path), "read reflog file");
        let l = lmax(&bytes);
        let mut sizes = vec![l, l + 1, bytes.len() + 1];
        if l <= 512 {
            sizes.push(512);
        }
        for s in sizes {
            let mut b = vec![0u8; s];
            let rev = match store.reflog_iter_rev(name, &mut b) {
                Ok(Some(it)) => it,
                other => {
                    c.fail_sig("store-no-reflog", format!("reflog_iter_rev: {:?}", other.map(|o| o.is_some())));
                    return;
                }
            };
            let mut back: Vec<Result<Line, String>> = rev.map(|r| r.map_err(|e| e.to_string())).collect();
            back.reverse();
            let ok = back.len() == fwd.len()
                && back.iter().zip(&fwd).all(|(a, b)| match (a, b) {
                    (Ok(a), Ok(b)) => same(a, b),
                    (Err(_), Err(_)) => true,
                    _ => false,
                });
            if !ok {
                let i = back
                    .iter()
                    .zip(&fwd)
                    .position(|(a, b)| !matches!((a, b), (Ok(a), Ok(b)) if same(a, b)) && !(a.is_err() && b.is_err()));
                let sig = match i.and_then(|i| entries.get(i).map(|w| (w, back[i].as_ref().ok()))) {
                    Some((w, _)) if w.message.last() == Some(&b'\r') && !w.message.contains(&b'>') => {
                        "message-ends-with-cr".to_string()
                    }
                    Some((w, got)) => class_of(w, got, "store-reverse"),
                    None => "store-reverse-differs".into(),
                };
                f.add(
                    sig,
                    format!(
                        "reflog_iter_rev with buffer {s} yields {:?} but forward yields {:?}",
                        back.iter().map(|r| r.as_ref().map(brief)).collect::<Vec<_>>(),
                        fwd.iter().map(|r| r.as_ref().map(brief)).collect::<Vec<_>>()
                    ),
                );
                break;
            }
        }
        f.report(c);
    });

    ck.sub("git-written", SubCfg::new(120, 3_000).max_len(512).max_shrink(40), |t, c| {
        let n = t.range(1, 6);
        let with_gt = t.chance(64);
        struct Upd {
            commit: usize,
            name: Vec<u8>,
            email: Vec<u8>,
            date: String,
            msg: Option<Vec<u8>>,
        }
        let mut upds = Vec::new();
        let mut last = usize::MAX;
        for _ in 0..n {
            let mut commit = t.below(3);
            if commit == last {
                commit = (commit + 1) % 3;
            }
            last = commit;
            const NAME: &[u8] = b"abXY .-_@\xc3\xa4'\"\t,";
            let name = t.string_of(NAME, 1, 10);
            let email = t.string_of(b"ab@.-_x ", 1, 10);
            let secs = match t.below(3) {
                // not 0: git's own reflog reader takes a zero timestamp for a corrupt line and skips the entry
                0 => t.range(1, 9) as u64,
                1 => t.range_i64(1, 4_000_000_000) as u64, // never 0, see above (an exhausted tape yields the lower bound)
                _ => 1_112_911_993,
            };
            let tz = match t.below(3) {
                0 => "+0000".to_string(),
                1 => format!("{}{:02}{:02}", if t.bool() { '+' } else { '-' }, t.range(0, 14), t.pick(&[0, 30, 45])),
                _ => format!("{}{:02}{:02}", if t.bool() { '+' } else { '-' }, t.range(0, 99), t.range(0, 59)),
            };
            let msg = if t.chance(40) {
                None
            } else {
                const MSG: &[u8] = b"abc XYZ:-< \t(){}'\"@~\xc3\xa4\r.\xff";
                const MSG_GT: &[u8] = b"abc XYZ:->< \t(){}'\"@~\xc3\xa4\r.\xff";
                let m = t.string_of(if with_gt { MSG_GT } else { MSG }, 1, 40);
                Some(m)
            };
            upds.push(Upd {
                commit,
                name,
                email,
                date: format!("@{secs} {tz}"),
                msg,
            });
        }
        for u in &upds {
            c.key(&(u.commit, &u.name, &u.email, &u.date, &u.msg));
        }
        c.label_if(
            upds.iter().any(|u| u.msg.as_ref().map_or(false, |m| m.contains(&b'>'))),
            "has-gt-in-message",
        );
        c.label_if(upds.iter().any(|u| u.msg.is_none()), "has-empty-message");
        c.nontrivial(upds.len() >= 3);
        c.sample_with(|| {
            format!(
                "{} updates: {:?}",
                upds.len(),
                upds.iter()
                    .map(|u| (u.commit, u.name.as_bstr(), u.email.as_bstr(), &u.date, u.msg.as_ref().map(|m| m.as_bstr())))
                    .collect::<Vec<_>>()
            )
        });

        let w = infra!(c, World::new("c21g", true), "world");
        let git = w.git.clone().cfg("core.logAllRefUpdates=always");
        let mut fi = String::new();
        for i in 0..3 {
            fi.push_str(&format!(
                "commit refs/heads/src\ncommitter C <c@x> {} +0000\ndata 1\n{}\n",
                100 + i,
                i
            ));
        }
        infra!(c, git.run_in(["fast-import", "--quiet"], Some(fi.as_bytes())), "fast-import");
        let revs = infra!(c, git.run_str(["rev-list", "--reverse", "refs/heads/src"]), "rev-list");
        let commits: Vec<gix_hash::ObjectId> = revs
            .lines()
            .filter_map(|l| gix_hash::ObjectId::from_hex(l.trim().as_bytes()).ok())
            .collect();
        if commits.len() != 3 {
            c.infra(format!("expected 3 commits, rev-list printed {revs:?}"));
            return;
        }
        use std::os::unix::ffi::OsStrExt;
        for u in &upds {
            let mut cmd = git.command();
            cmd.env("GIT_COMMITTER_NAME", std::ffi::OsStr::from_bytes(&u.name));
            cmd.env("GIT_COMMITTER_EMAIL", std::ffi::OsStr::from_bytes(&u.email));
            cmd.env("GIT_COMMITTER_DATE", &u.date);
            cmd.arg("update-ref");
            if let Some(m) = &u.msg {
                cmd.arg("-m").arg(std::ffi::OsStr::from_bytes(m));
            }
            cmd.arg("refs/heads/t").arg(commits[u.commit].to_hex().to_string());
            let out = infra!(c, cmd.output(), "spawn update-ref");
            if !out.status.success() {
                // git refuses some identities (e.g. a name of only crud) or empty messages: not our subject
                c.discard();
                return;
            }
        }
        let report = infra!(
            c,
            git.run([
                "log",
                "-g",
                "--date=raw",
                "--format=%H%x00%gn%x00%ge%x00%gd%x00%gs%x01",
                "refs/heads/t"
            ]),
            "git log -g"
        );
        // newest first
        let mut want: Vec<Line> = Vec::new();
        for rec in report.split(|b| *b == 1) {
            let rec = rec.strip_prefix(b"\n").unwrap_or(rec);
            if rec.is_empty() {
                continue;
            }
            let f: Vec<&[u8]> = rec.split(|b| *b == 0).collect();
            if f.len() != 5 {
                c.infra(format!("unparsable git log -g record {:?}", rec.as_bstr()));
                return;
            }
            let sel = f[3].to_str_lossy().to_string();
            let (secs, tz) = match sel
                .rsplit_once("@{")
                .and_then(|(_, r)| r.strip_suffix('}'))
                .and_then(|r| r.split_once(' '))
            {
                Some((s, tz)) => (s.parse::<i64>().ok(), tz.to_string()),
                None => (None, String::new()),
            };
            let (Some(secs), true) = (secs, tz.len() == 5) else {
                c.infra(format!("unparsable reflog selector {sel:?}"));
                return;
            };
            let hh: i32 = tz[1..3].parse().unwrap_or(0);
            let mm: i32 = tz[3..5].parse().unwrap_or(0);
            let neg = tz.starts_with('-');
            let offset = (hh * 3600 + mm * 60) * if neg { -1 } else { 1 };
            want.push(Line {
                previous_oid: gix_hash::ObjectId::null(gix_hash::Kind::Sha1),
                new_oid: infra!(c, gix_hash::ObjectId::from_hex(f[0]), "git id"),
                signature: gix_actor::Signature {
                    name: f[1].into(),
                    email: f[2].into(),
                    time: gix_date::Time {
                        seconds: secs,
                        offset,
                        sign: if neg { gix_date::time::Sign::Minus } else { gix_date::time::Sign::Plus },
                    },
                },
                message: BString::from(f[4]),
            });
        }
        want.reverse();
        if want.len() != upds.len() {
            c.infra(format!("git log -g lists {} entries for {} updates", want.len(), upds.len()));
            return;
        }
        for i in 0..want.len() {
            want[i].previous_oid = if i == 0 {
                gix_hash::ObjectId::null(gix_hash::Kind::Sha1)
            } else {
                commits[upds[i - 1].commit]
            };
            if want[i].new_oid != commits[upds[i].commit] {
                c.infra("git log -g order is not the update order".to_string());
                return;
            }
        }
        let path = w.git_dir().join("logs/refs/heads/t");
        let bytes = infra!(c, std::fs::read(&path), "read git's reflog");
        let fwd = forward_all(&bytes);
        let mut f = Fails::default();
        check_forward(&mut f, &fwd, &want, "git-written");
        let l = lmax(&bytes);
        for s in [l, l + 1, 2 * l, bytes.len(), bytes.len() + 1, 512.max(l)] {
            let file = infra!(c, std::fs::File::open(&path), "open reflog");
            if !check_reverse(&mut f, file, s, &fwd, &want, "git-written file") {
                break;
            }
        }
        f.report(c);
    });

    ck.finish();
}
