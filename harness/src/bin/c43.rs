//! C43 — content filters (text/eol/crlf/ident/binary x core.autocrlf/eol/safecrlf) agree with git.
//!
//! One case = one world: a repository with a line-ending configuration, a `.gitattributes` file assigning an attribute set to
//! each of 4..12 files, and generated contents. All git queries are batched per world:
//! * to-git, class `hash-object`: `git hash-object -w --stdin-paths` (filters by path; `-w` enables the safecrlf check);
//!   class `index`: the index already holds a blob for some paths and `git update-index --add --stdin` converts ("git add");
//!   results read back with `cat-file --batch`; compared with `repo.filter_pipeline()?.convert_to_git(..)`.
//! * to-worktree: `git checkout-index -a --prefix=out/` from an index holding the raw contents as blobs, compared with
//!   `convert_to_worktree(..)`.
//! * safecrlf=true: git refusing ("would be replaced") <=> gitoxide returns the round-trip error.
//! * metamorphic: where git's own add(checkout(x)) gives back x, gitoxide's to-git(to-worktree(x)) == x.
use gix::bstr::{BString, ByteSlice};
use std::io::Read;
use std::path::Path;
use vp::*;

#[derive(Clone, Debug, Hash)]
struct FileSpec {
    name: String,
    attrs: String,
    content: Vec<u8>,
    /// class `index`: the path already has this file's raw content as blob in the index
    prior: Option<usize>,
}

#[derive(Clone, Debug, Hash)]
struct WorldSpec {
    autocrlf: Option<&'static str>,
    eol: Option<&'static str>,
    safecrlf: Option<&'static str>,
    default_attrs: Option<String>,
    use_index: bool,
    files: Vec<FileSpec>,
}

fn gen_attrs(t: &mut Tape) -> String {
    let mut v: Vec<&str> = Vec::new();
    match t.weighted(&[3, 3, 2, 4, 1]) {
        0 => {}
        1 => v.push("text"),
        2 => v.push("-text"),
        3 => v.push("text=auto"),
        _ => v.push("!text"),
    }
    match t.weighted(&[5, 2, 3, 1]) {
        0 => {}
        1 => v.push("eol=lf"),
        2 => v.push("eol=crlf"),
        _ => v.push("eol=native"),
    }
    match t.weighted(&[10, 1, 1, 1, 1]) {
        0 => {}
        1 => v.push("crlf"),
        2 => v.push("-crlf"),
        3 => v.push("crlf=input"),
        _ => v.push("crlf=auto"),
    }
    match t.weighted(&[6, 3, 1]) {
        0 => {}
        1 => v.push("ident"),
        _ => v.push("-ident"),
    }
    if t.chance(20) {
        v.push("binary");
    }
    // order matters for conflicting assignments (last one wins): rotate sometimes
    if v.len() > 1 && t.chance(60) {
        let k = t.below(v.len());
        v.rotate_left(k);
    }
    v.join(" ")
}

fn gen_content(t: &mut Tape, labels: &mut Vec<&'static str>) -> Vec<u8> {
    const WORDS: [&[u8]; 6] = [b"a", b"line", b"some text", b"x = 1;", b"\tindented", b"caf\xc3\xa9"];
    const IDENTS: [&[u8]; 14] = [
        b"$Id$",
        b"$Id: 0123456789abcdef0123456789abcdef01234567 $",
        b"$Id: abc $",
        b"$Id: foreign id, v 1.2 $",
        b"$Id: unterminated",
        // not "$Id:$": git's ident_to_worktree() computes a negative length for it (memchr over SIZE_MAX bytes) and can crash
        b"$Id:y$",
        b"$Id:x$",
        b"$Id: $",
        b"$Id::$",
        b"$Id",
        b"$Idx$",
        b"$$Id$$",
        b"$Id$Id$",
        b"$",
    ];
    if t.chance(28) {
        // text/binary auto-detection boundary: binary iff (printable >> 7) < non_printable
        labels.push("binary-boundary");
        let k = t.range(1, 3);
        let printable = *t.pick(&[128 * k - 2, 128 * k - 1, 128 * k, 128 * k, 128 * k + 1, 128 * k + 127, 256 * k - 1, 256 * k]);
        let eol: &[u8] = *t.pick(&[&b"\n"[..], &b"\r\n"[..]]);
        let mut out = Vec::new();
        let mut left = printable;
        let mut ctl = k;
        while left > 0 || ctl > 0 {
            let run = left.min(t.range(1, 60));
            out.extend(std::iter::repeat(b'q').take(run));
            left -= run;
            if ctl > 0 && (left == 0 || t.bool()) {
                out.push(*t.pick(b"\x01\x7f\x02\x1f"));
                ctl -= 1;
            }
            out.extend_from_slice(eol);
        }
        return out;
    }
    let style = t.weighted(&[2, 3, 5, 1]);
    let n = t.weighted(&[1, 2, 3, 4, 4, 3, 2, 2, 1, 1, 1, 1, 1]);
    let mut out = Vec::new();
    if t.chance(10) {
        // a long text prefix (beyond git's 8000 byte "first buffer" heuristics) before anything else
        labels.push("long-prefix-8k");
        for i in 0..820 {
            out.extend_from_slice(b"0123456789");
            if i % 7 == 6 {
                out.push(b'\n');
            }
        }
    }
    let (mut lf, mut crlf, mut cr) = (0, 0, 0);
    for _ in 0..n * 2 {
        match t.weighted(&[8, 3, 1, 1, 1, 1]) {
            0 => out.extend_from_slice(*t.pick(&WORDS)),
            1 => {
                labels.push("ident-marker");
                out.extend_from_slice(*t.pick(&IDENTS));
            }
            2 => {
                labels.push("nul");
                out.push(0);
            }
            3 => {
                // control characters: BS/HT/ESC/FF count as printable, the others do not
                labels.push("control-char");
                out.push(*t.pick(b"\x01\x7f\x1b\x08\x0c\x1a\x02\x1f"));
            }
            4 => {
                // a long printable run: moves the printable/non-printable ratio (printable >> 7)
                labels.push("long-printable-run");
                let k = *t.pick(&[127usize, 128, 129, 255, 256, 257, 300]);
                out.extend(std::iter::repeat(b'p').take(k));
            }
            _ => {}
        }
        let eol = match style {
            0 => 0,
            1 => 1,
            2 => t.weighted(&[5, 5, 1, 3]),
            _ => 3,
        };
        match eol {
            0 => {
                out.push(b'\n');
                lf += 1;
            }
            1 => {
                out.extend_from_slice(b"\r\n");
                crlf += 1;
            }
            2 => {
                out.push(b'\r');
                cr += 1;
            }
            _ => {}
        }
    }
    if t.chance(24) {
        labels.push("trailing-ctrl-z");
        out.push(0x1a);
    }
    if (lf > 0) as u8 + (crlf > 0) as u8 + (cr > 0) as u8 >= 2 {
        labels.push("mixed-line-endings");
    }
    if out.is_empty() {
        labels.push("empty-content");
    }
    out
}

fn gen_world(t: &mut Tape, labels: &mut Vec<&'static str>) -> WorldSpec {
    let autocrlf = *t.pick(&[None, Some("false"), Some("true"), Some("input"), Some("true"), Some("input")]);
    let eol = *t.pick(&[None, None, Some("lf"), Some("crlf"), Some("native"), Some("crlf")]);
    let safecrlf = *t.pick(&[None, Some("false"), Some("true"), Some("warn"), Some("true")]);
    let default_attrs = t.chance(64).then(|| gen_attrs(t)).filter(|a| !a.is_empty());
    let use_index = t.chance(100);
    let n = t.range(4, 12);
    let mut files: Vec<FileSpec> = Vec::new();
    for i in 0..n {
        let content = if i > 0 && t.chance(30) {
            // same content under another attribute set
            files[t.below(i)].content.clone()
        } else {
            gen_content(t, labels)
        };
        files.push(FileSpec {
            name: format!("f{i}"),
            attrs: gen_attrs(t),
            content,
            prior: None,
        });
    }
    if use_index {
        // one plain CRLF text and one plain LF text, which often are what the index holds for the other paths
        files[0].content = b"one\r\ntwo\r\n".to_vec();
        if n > 1 {
            files[1].content = b"one\ntwo\n".to_vec();
        }
        for i in 0..n {
            if t.chance(190) {
                files[i].prior = Some(match t.weighted(&[3, 1, 3]) {
                    0 => 0,
                    1 => 1.min(n - 1),
                    _ => t.below(n),
                });
            }
        }
    }
    labels.push(if use_index { "class:index" } else { "class:hash-object" });
    WorldSpec {
        autocrlf,
        eol,
        safecrlf,
        default_attrs,
        use_index,
        files,
    }
}

fn is_roundtrip_error(msg: &str) -> bool {
    msg.contains("would be replaced by")
}

fn lines(out: &[u8]) -> Vec<String> {
    String::from_utf8_lossy(out).lines().map(|s| s.to_string()).collect()
}

pub fn main() {
    let mut ck = Check::new("C43", "exploration");
    ck.rule("Worlds of 4..12 files: contents from fragments (words, LF/CRLF/lone CR per line in pure or mixed style, NUL, control characters, long printable runs around the printable>>7 boundary, trailing ^Z, ident markers $Id$ / $Id: .. $ / foreign / unterminated, 8 KiB prefixes, empty); per file an attribute set from text|-text|text=auto|!text x eol=lf|crlf|native x crlf|-crlf|crlf=input|crlf=auto x ident|-ident x binary (random order), optional '*' default line; config core.autocrlf in {unset,false,true,input} x core.eol in {unset,lf,crlf,native} x core.safecrlf in {unset,false,true,warn}; class index: paths already have a blob (some with CRLF) in the index. Non-trivial: a file whose content mixes >= 2 line-ending kinds or has an ident marker, under a non-default attribute set or configuration. Distinct by world.");
    ck.assume(&format!(
        "the oracle is {}: hash-object -w --stdin-paths / update-index --add for to-git, checkout-index --prefix for to-worktree",
        Git::version()
    ));
    ck.assume("the marker '$Id:$' (nothing between ':' and '$') is not generated: git's ident_to_worktree() calls memchr() with a negative length for it and can crash (SIGSEGV observed), so there is no oracle; where `git checkout-index` (streaming filters) and `git cat-file --filters` (buffer filters) disagree with each other, agreement with either is accepted");
    ck.assume("the repository is opened with gix::open::Options::isolated() (only the repository-local configuration), git runs with system/global configuration disabled");

    ck.sub("world", SubCfg::new(250, 20_000).max_len(3000).max_shrink(16), |t, c| {
        let mut labels = Vec::new();
        let w = gen_world(t, &mut labels);
        for l in labels {
            c.label(l);
        }
        c.key(&w);
        let nondefault_cfg = w.autocrlf.map_or(false, |v| v != "false") || w.eol.is_some() || w.safecrlf.is_some();
        let nt = w.files.iter().any(|f| {
            let lf = f.content.iter().enumerate().any(|(i, b)| *b == b'\n' && (i == 0 || f.content[i - 1] != b'\r'));
            let crlf = f.content.find(b"\r\n").is_some();
            let cr = f.content.iter().enumerate().any(|(i, b)| *b == b'\r' && f.content.get(i + 1) != Some(&b'\n'));
            let mixed = lf as u8 + crlf as u8 + cr as u8 >= 2;
            let ident = f.content.find(b"$Id").is_some();
            (mixed || ident) && (!f.attrs.is_empty() || w.default_attrs.is_some() || nondefault_cfg)
        });
        c.nontrivial(nt);
        c.sample_with(|| {
            format!(
                "autocrlf={:?} eol={:?} safecrlf={:?} default={:?} index={} files={}",
                w.autocrlf,
                w.eol,
                w.safecrlf,
                w.default_attrs,
                w.use_index,
                w.files
                    .iter()
                    .map(|f| format!("[{} | {} | {}]", f.name, f.attrs, show(&f.content[..f.content.len().min(60)])))
                    .collect::<Vec<_>>()
                    .join(" ")
            )
        });

        // ---- the world on disk
        let scratch = infra!(c, Scratch::new("c43"), "scratch");
        let home = scratch.join("home");
        let repo_dir = scratch.join("repo");
        let out_dir = scratch.join("out");
        for d in [&home, &out_dir, &repo_dir.join(".git/objects"), &repo_dir.join(".git/refs")] {
            infra!(c, std::fs::create_dir_all(d), "mkdir");
        }
        infra!(c, std::fs::write(repo_dir.join(".git/HEAD"), "ref: refs/heads/main\n"), "HEAD");
        let mut cfg = String::from("[core]\n\trepositoryformatversion = 0\n\tfilemode = true\n\tbare = false\n");
        for (k, v) in [("autocrlf", w.autocrlf), ("eol", w.eol), ("safecrlf", w.safecrlf)] {
            if let Some(v) = v {
                cfg.push_str(&format!("\t{k} = {v}\n"));
            }
        }
        infra!(c, std::fs::write(repo_dir.join(".git/config"), cfg), "config");
        let mut attrs = String::new();
        if let Some(d) = &w.default_attrs {
            attrs.push_str(&format!("* {d}\n"));
        }
        for f in &w.files {
            if !f.attrs.is_empty() {
                attrs.push_str(&format!("{} {}\n", f.name, f.attrs));
            }
        }
        infra!(c, std::fs::write(repo_dir.join(".gitattributes"), &attrs), "attributes");
        for f in &w.files {
            infra!(c, std::fs::write(repo_dir.join(&f.name), &f.content), "file");
        }
        let git = Git::new(&repo_dir, &home);
        let names: String = w.files.iter().map(|f| format!("{}\n", f.name)).collect();

        // raw blobs
        let raw_ids = lines(&infra!(
            c,
            git.run_in(["hash-object", "-w", "--no-filters", "--stdin-paths"], Some(names.as_bytes())),
            "hash-object --no-filters"
        ));
        if raw_ids.len() != w.files.len() {
            c.infra("raw id count");
            return;
        }
        if w.use_index {
            let mut info = Vec::new();
            for f in &w.files {
                if let Some(p) = f.prior {
                    info.extend_from_slice(format!("100644 {}\t{}\n", raw_ids[p], f.name).as_bytes());
                }
            }
            infra!(c, git.run_in(["update-index", "--add", "--index-info"], Some(&info)), "index-info");
        }

        // ---- gitoxide
        let repo = match gix::open_opts(&repo_dir, gix::open::Options::isolated()) {
            Ok(r) => r,
            Err(e) => {
                c.infra(format!("gix::open: {e}"));
                return;
            }
        };
        let (mut pipe, index) = match repo.filter_pipeline(None) {
            Ok(p) => p,
            Err(e) => {
                c.fail(format!("filter_pipeline() failed: {e}"));
                return;
            }
        };
        let index_state: &gix_index::State = match &index {
            gix::worktree::IndexPersistedOrInMemory::Persisted(i) => i,
            gix::worktree::IndexPersistedOrInMemory::InMemory(i) => i,
        };
        let mut gix_to_git: Vec<Result<Vec<u8>, String>> = Vec::new();
        let mut gix_to_wt: Vec<Result<Vec<u8>, String>> = Vec::new();
        let mut gix_roundtrip: Vec<Option<Vec<u8>>> = Vec::new();
        for f in &w.files {
            let r = match pipe.convert_to_git(&f.content[..], Path::new(&f.name), index_state) {
                Ok(mut o) => {
                    let mut v = Vec::new();
                    match o.read_to_end(&mut v) {
                        Ok(_) => Ok(v),
                        Err(e) => Err(format!("read: {e}")),
                    }
                }
                Err(e) => Err(error_chain(&e)),
            };
            gix_to_git.push(r);
            let name: BString = f.name.as_str().into();
            let r = match pipe.convert_to_worktree(&f.content, name.as_bstr(), gix::filter::plumbing::driver::apply::Delay::Forbid) {
                Ok(mut o) => {
                    let mut v = Vec::new();
                    match o.read_to_end(&mut v) {
                        Ok(_) => Ok(v),
                        Err(e) => Err(format!("read: {e}")),
                    }
                }
                Err(e) => Err(error_chain(&e)),
            };
            // to-git(to-worktree(x)) for the metamorphic check (without index influence only)
            let rt = match (&r, w.use_index) {
                (Ok(wt), false) => match pipe.convert_to_git(&wt[..], Path::new(&f.name), index_state) {
                    Ok(mut o) => {
                        let mut v = Vec::new();
                        o.read_to_end(&mut v).ok().map(|_| v)
                    }
                    Err(_) => None,
                },
                _ => None,
            };
            gix_roundtrip.push(rt);
            gix_to_wt.push(r);
        }

        let mut deferred: Option<(&'static str, String)> = None;
        // ---- git: to-git
        let strict = w.safecrlf == Some("true");
        let batch: Vec<usize> = (0..w.files.len())
            .filter(|i| !(strict && matches!(&gix_to_git[*i], Err(e) if is_roundtrip_error(e))))
            .collect();
        let batch_names: String = batch.iter().map(|i| format!("{}\n", w.files[*i].name)).collect();
        let describe = |i: usize| {
            let f = &w.files[i];
            format!(
                "path {} attrs [{}]{} config autocrlf={:?} eol={:?} safecrlf={:?}{} content {:?}",
                f.name,
                f.attrs,
                w.default_attrs.as_ref().map(|d| format!(" ('* {d}')")).unwrap_or_default(),
                w.autocrlf,
                w.eol,
                w.safecrlf,
                match f.prior {
                    Some(p) => format!(" index blob {:?}", show(&w.files[p].content[..w.files[p].content.len().min(80)])),
                    None => String::new(),
                },
                show(&f.content[..f.content.len().min(400)])
            )
        };
        let git_ids: Vec<String> = if batch.is_empty() {
            Vec::new()
        } else if w.use_index {
            let (ok, _o, err) = infra!(
                c,
                git.try_run(["update-index", "--add", "--stdin"], Some(batch_names.as_bytes())),
                "update-index --add"
            );
            if !ok {
                let e = String::from_utf8_lossy(&err).to_string();
                if is_roundtrip_error(&e) && strict {
                    c.fail_sig(safecrlf_refusal_sig(&e, &w, &mut pipe, index_state), format!("git add refuses ({}) but gitoxide converts every file of the batch without round-trip error; world: {}", e.trim(), (0..w.files.len()).map(describe).collect::<Vec<_>>().join(" || ")));
                } else {
                    c.infra(format!("git update-index --add failed: {e}"));
                }
                return;
            }
            let ls = infra!(c, git.run(["ls-files", "-s"]), "ls-files");
            let mut by_name = std::collections::BTreeMap::new();
            for l in lines(&ls) {
                // <mode> <id> <stage>\t<name>
                let mut parts = l.split('\t');
                let meta: Vec<&str> = parts.next().unwrap_or("").split(' ').collect();
                if let (Some(id), Some(name)) = (meta.get(1), parts.next()) {
                    by_name.insert(name.to_string(), id.to_string());
                }
            }
            let mut v = Vec::new();
            for i in &batch {
                match by_name.get(&w.files[*i].name) {
                    Some(id) => v.push(id.clone()),
                    None => {
                        c.infra("ls-files lacks an added file");
                        return;
                    }
                }
            }
            v
        } else {
            let (ok, o, err) = infra!(
                c,
                git.try_run(["hash-object", "-w", "--stdin-paths"], Some(batch_names.as_bytes())),
                "hash-object"
            );
            if !ok {
                let e = String::from_utf8_lossy(&err).to_string();
                if is_roundtrip_error(&e) && strict {
                    c.fail_sig(safecrlf_refusal_sig(&e, &w, &mut pipe, index_state), format!("git hash-object -w refuses ({}) but gitoxide converts every file of the batch without round-trip error; world: {}", e.trim(), (0..w.files.len()).map(describe).collect::<Vec<_>>().join(" || ")));
                } else {
                    c.infra(format!("git hash-object failed: {e}"));
                }
                return;
            }
            lines(&o)
        };
        if git_ids.len() != batch.len() {
            c.infra("id count");
            return;
        }
        let mut cat = infra!(c, CatFile::new(&git), "cat-file");
        for (k, i) in batch.iter().enumerate() {
            let stored = match infra!(c, cat.get(&git_ids[k]), "cat-file get") {
                Some((_, d)) => d,
                None => {
                    c.infra("stored blob missing");
                    return;
                }
            };
            match &gix_to_git[*i] {
                Ok(g) => {
                    if *g != stored {
                        let f = &w.files[*i];
                        let mut sig = "";
                        if f.content.last() == Some(&0x1a) {
                            let cut = &f.content[..f.content.len() - 1];
                            if let Ok(mut o) = pipe.convert_to_git(cut, Path::new(&f.name), index_state) {
                                let mut v = Vec::new();
                                if o.read_to_end(&mut v).is_ok() {
                                    v.push(0x1a);
                                    if v == stored {
                                        sig = "trailing-ctrl-z-counts-as-non-printable";
                                    }
                                }
                            }
                        }
                        if sig.is_empty() {
                            // the same deviation through the blob the index holds for the path: git takes it for text (trailing ^Z
                            // not counted) and keeps CRLF, gitoxide takes it for binary and converts
                            if let Some(p) = f.prior {
                                let prior = &w.files[p].content;
                                if prior.last() == Some(&0x1a) && prior.find(b"\r\n").is_some() && stored.replace("\r\n", "\n") == *g {
                                    sig = "trailing-ctrl-z-counts-as-non-printable";
                                }
                            }
                        }
                        let msg = format!("to-git differs: {}; {}", diff_ctx(&stored, g), describe(*i));
                        if sig.is_empty() {
                            c.fail(msg);
                            return;
                        }
                        deferred.get_or_insert((sig, msg));
                    }
                }
                Err(e) => {
                    c.fail(format!("to-git: git stores {:?} but gitoxide fails with: {e}; {}", show(&stored[..stored.len().min(200)]), describe(*i)));
                    return;
                }
            }
        }
        // safecrlf=true: what gitoxide refuses, git must refuse as well (one at a time, a few per world)
        let mut singles = 0;
        for i in 0..w.files.len() {
            if batch.contains(&i) || singles >= 3 {
                continue;
            }
            singles += 1;
            c.label("safecrlf-refusal");
            let f = &w.files[i];
            let (ok, _o, err) = if w.use_index {
                infra!(c, git.try_run(["update-index", "--add", "--", f.name.as_str()], None), "update-index single")
            } else {
                infra!(c, git.try_run(["hash-object", "-w", "--", f.name.as_str()], None), "hash-object single")
            };
            let e = String::from_utf8_lossy(&err).to_string();
            ensure_sig!(
                c,
                "safecrlf-gitoxide-refuses-only",
                !ok && is_roundtrip_error(&e),
                "core.safecrlf=true: gitoxide refuses ({}) but git accepts (ok={ok}, stderr {:?}); {}",
                gix_to_git[i].as_ref().err().cloned().unwrap_or_default(),
                e.trim(),
                describe(i)
            );
        }

        // ---- git: to-worktree
        let idx2 = scratch.join("index-checkout");
        let g2 = git.clone().env("GIT_INDEX_FILE", &idx2.display().to_string());
        let mut info = Vec::new();
        for (f, id) in w.files.iter().zip(&raw_ids) {
            info.extend_from_slice(format!("100644 {id}\t{}\n", f.name).as_bytes());
        }
        infra!(c, g2.run_in(["update-index", "--add", "--index-info"], Some(&info)), "index-info (checkout)");
        let prefix = format!("--prefix={}/", out_dir.display());
        infra!(c, g2.run(["checkout-index", "-a", "-f", prefix.as_str()]), "checkout-index");
        for (i, f) in w.files.iter().enumerate() {
            let written = infra!(c, std::fs::read(out_dir.join(&f.name)), "read checked out file");
            match &gix_to_wt[i] {
                Ok(g) => {
                    // Ok(()) = equal, Err(sig) = a classified deviation (sig non-empty) or an unknown difference
                    // the known ident deviations between gitoxide's output `g` and git's (the blob id is known, so a wrong id stays
                    // unclassified): Some("") = equal, Some(sig) = classified, None = unknown
                    let ident_class = |g: &[u8], reference: &[u8]| -> Option<&'static str> {
                        if g == reference {
                            return Some("");
                        }
                        let with_space = g.replace(format!("$Id: {}$", raw_ids[i]), format!("$Id: {} $", raw_ids[i]));
                        if with_space == reference {
                            return Some("ident-expansion-lacks-space");
                        }
                        if git_reexpand(&with_space, &raw_ids[i]) == reference {
                            return Some("ident-keeps-stale-expansion");
                        }
                        // stale expansions can also change where the next marker starts ("$Id: unterminated$Id$"). Still the same
                        // deviation if, line endings aside, git did what git's algorithm does to the blob, gitoxide did what its
                        // documented algorithm does (only "$Id$" is expanded), and both produced the same sequence of line endings
                        // (the ident filter never touches those).
                        let strip_cr = |v: &[u8]| v.iter().copied().filter(|b| *b != b'\r').collect::<Vec<u8>>();
                        let eols = |v: &[u8]| {
                            let mut out = Vec::new();
                            let mut k = 0;
                            while k < v.len() {
                                if v[k] == b'\r' && v.get(k + 1) == Some(&b'\n') {
                                    out.push(2u8);
                                    k += 2;
                                    continue;
                                }
                                if v[k] == b'\r' || v[k] == b'\n' {
                                    out.push(v[k]);
                                }
                                k += 1;
                            }
                            out
                        };
                        let gix_algorithm = f.content.replace("$Id$", format!("$Id: {}$", raw_ids[i]));
                        if strip_cr(reference) == strip_cr(&git_reexpand(&f.content, &raw_ids[i]))
                            && strip_cr(g) == strip_cr(&gix_algorithm)
                            && eols(reference) == eols(g)
                        {
                            return Some("ident-keeps-stale-expansion");
                        }
                        // The eol filter runs on the OUTPUT of the ident filter: the known ident deviations make gitoxide's
                        // intermediate buffer shorter (fewer printable bytes), and the known ^Z deviation changes the count of
                        // non-printable ones, so the text/binary auto-detection can come out differently. Explained iff: line
                        // endings aside both sides are what the respective ident algorithm yields, exactly one side converted
                        // every lone LF to CRLF, and the two detections really differ on the two intermediate buffers.
                        let git_ident = git_reexpand(&f.content, &raw_ids[i]);
                        if strip_cr(reference) == strip_cr(&git_ident) && strip_cr(g) == strip_cr(&gix_algorithm) {
                            let lf_to_crlf = |v: &[u8]| {
                                let mut out = Vec::with_capacity(v.len() + 16);
                                for (k, b) in v.iter().enumerate() {
                                    if *b == b'\n' && (k == 0 || v[k - 1] != b'\r') {
                                        out.push(b'\r');
                                    }
                                    out.push(*b);
                                }
                                out
                            };
                            let git_binary = git_is_binary(&git_ident);
                            let gix_stats = gix::filter::plumbing::eol::Stats::from_bytes(&gix_algorithm);
                            let gix_binary = gix_stats.is_binary();
                            let git_converted = reference == lf_to_crlf(&git_ident).as_slice() && reference != git_ident.as_slice();
                            let gix_converted = g == lf_to_crlf(&gix_algorithm).as_slice() && g != gix_algorithm.as_slice();
                            let git_plain = reference == git_ident.as_slice();
                            let gix_plain = g == gix_algorithm.as_slice();
                            if (git_converted && gix_plain && !git_binary && gix_binary)
                                || (git_plain && gix_converted && git_binary && !gix_binary)
                            {
                                // which recorded class flips the detection?
                                return Some(if git_is_binary(&gix_algorithm) == gix_binary {
                                    "ident-keeps-stale-expansion"
                                } else {
                                    "trailing-ctrl-z-counts-as-non-printable"
                                });
                            }
                        }
                        None
                    };
                    // Ok(()) = equal, Err(sig) = a classified deviation (sig non-empty) or an unknown difference
                    let mut compare = |reference: &[u8]| -> Result<(), &'static str> {
                        match ident_class(g, reference) {
                            Some("") => return Ok(()),
                            Some(sig) => return Err(sig),
                            None => {}
                        }
                        if f.content.last() == Some(&0x1a) {
                            // git does not count a trailing ^Z as non-printable: would gitoxide agree (up to the ident deviations)
                            // without it?
                            let name: BString = f.name.as_str().into();
                            let cut = &f.content[..f.content.len() - 1];
                            if let Ok(mut o) =
                                pipe.convert_to_worktree(cut, name.as_bstr(), gix::filter::plumbing::driver::apply::Delay::Forbid)
                            {
                                let mut v = Vec::new();
                                if o.read_to_end(&mut v).is_ok() {
                                    v.push(0x1a);
                                    // ids in `v` are those of the shortened blob
                                    let cut_id = gix_object::compute_hash(gix_hash::Kind::Sha1, gix_object::Kind::Blob, cut).to_hex().to_string();
                                    let v = v.replace(cut_id.as_str(), raw_ids[i].as_str());
                                    if ident_class(&v, reference).is_some() {
                                        return Err("trailing-ctrl-z-counts-as-non-printable");
                                    }
                                }
                            }
                        }
                        Err("")
                    };
                    match compare(&written) {
                        Ok(()) => {}
                        Err(sig) if !sig.is_empty() => {
                            // classified (possibly known) deviations do not end the case: the other files are still compared
                            deferred.get_or_insert((sig, format!("to-worktree differs: {}; {}", diff_ctx(&written, g), describe(i))));
                        }
                        Err(_) => {
                            // git has two implementations of the ident/eol filters: checkout streams blobs through a state machine
                            // (which e.g. misses "$$Id$"), `cat-file --filters` converts the buffer. Where they disagree, agreeing
                            // with either is accepted.
                            let buffered = infra!(
                                c,
                                git.run(["cat-file", "--filters", &format!("--path={}", f.name), raw_ids[i].as_str()]),
                                "cat-file --filters"
                            );
                            match compare(&buffered) {
                                Ok(()) => c.label("git-checkout-and-cat-file-filters-disagree"),
                                Err(sig) if !sig.is_empty() => {
                                    c.label("git-checkout-and-cat-file-filters-disagree");
                                    deferred.get_or_insert((sig, format!("to-worktree differs: {}; {}", diff_ctx(&buffered, g), describe(i))));
                                }
                                Err(_) => {
                                    c.fail(format!(
                                        "to-worktree differs from `git checkout-index` ({}) and from `git cat-file --filters` ({}); {}",
                                        diff_ctx(&written, g),
                                        diff_ctx(&buffered, g),
                                        describe(i)
                                    ));
                                    return;
                                }
                            }
                        }
                    }
                }
                Err(e) => {
                    c.fail(format!("to-worktree: git writes {:?} but gitoxide fails with: {e}; {}", show(&written[..written.len().min(200)]), describe(i)));
                    return;
                }
            }
        }

        // ---- metamorphic: where git's add(checkout(x)) == x, gitoxide's to-git(to-worktree(x)) == x
        if !w.use_index {
            for f in &w.files {
                infra!(c, std::fs::copy(out_dir.join(&f.name), repo_dir.join(&f.name)), "copy back");
            }
            // without -w: no safecrlf refusal, filters by path
            let back = lines(&infra!(c, git.run_in(["hash-object", "--stdin-paths"], Some(names.as_bytes())), "hash-object (round trip)"));
            if back.len() != w.files.len() {
                c.infra("round trip id count");
                return;
            }
            for (i, f) in w.files.iter().enumerate() {
                if back[i] == raw_ids[i] {
                    c.label("roundtrip-safe");
                    if let Some(rt) = &gix_roundtrip[i] {
                        ensure!(
                            c,
                            *rt == f.content,
                            "git round-trips this content (add(checkout(x)) == x) but gitoxide's to-git(to-worktree(x)) = {:?}; {}",
                            show(&rt[..rt.len().min(400)]),
                            describe(i)
                        );
                    } else if !strict {
                        c.fail(format!("git round-trips this content but gitoxide's to-git(to-worktree(x)) fails; {}", describe(i)));
                        return;
                    }
                }
            }
        }
        if let Some((sig, msg)) = deferred {
            c.fail_sig(sig, msg);
        }
    });

    ck.finish();
}

/// Transcription of git's `gather_stats()` + `convert_is_binary()`, used only to CLASSIFY disagreements.
fn git_is_binary(buf: &[u8]) -> bool {
    let (mut nul, mut lonecr, mut printable, mut nonprintable) = (0usize, 0usize, 0usize, 0usize);
    let mut k = 0;
    while k < buf.len() {
        let c = buf[k];
        k += 1;
        if c == b'\r' {
            if buf.get(k) == Some(&b'\n') {
                k += 1;
            } else {
                lonecr += 1;
            }
            continue;
        }
        if c == b'\n' {
            continue;
        }
        if c == 127 {
            nonprintable += 1;
        } else if c < 32 {
            match c {
                8 | 9 | 27 | 12 => printable += 1,
                0 => {
                    nul += 1;
                    nonprintable += 1;
                }
                _ => nonprintable += 1,
            }
        } else {
            printable += 1;
        }
    }
    if buf.last() == Some(&0x1a) && nonprintable > 0 {
        nonprintable -= 1;
    }
    lonecr > 0 || nul > 0 || (printable >> 7) < nonprintable
}

/// Transcription of the substitution loop of git's `ident_to_worktree()`, used only to CLASSIFY disagreements.
fn git_reexpand(buf: &[u8], hex: &str) -> Vec<u8> {
    let mut out = Vec::new();
    let mut src = buf;
    loop {
        let Some(d) = src.find_byte(b'$') else { break };
        out.extend_from_slice(&src[..=d]);
        src = &src[d + 1..];
        if src.len() < 3 || &src[..2] != b"Id" {
            continue;
        }
        if src[2] == b'$' {
            src = &src[3..];
        } else if src[2] == b':' {
            let Some(d2) = src[3..].find_byte(b'$').map(|p| p + 3) else { break };
            if src[3..d2].contains(&b'\n') {
                continue;
            }
            if d2 >= 4 {
                if let Some(sp) = src[4..d2].find_byte(b' ').map(|p| p + 4) {
                    if sp < d2 - 1 {
                        // an id of another versioning system: kept
                        continue;
                    }
                }
            }
            src = &src[d2 + 1..];
        } else {
            continue;
        }
        out.extend_from_slice(b"Id: ");
        out.extend_from_slice(hex.as_bytes());
        out.extend_from_slice(b" $");
    }
    out.extend_from_slice(src);
    out
}

/// git refused a file under core.safecrlf=true which gitoxide converted: is it the known trailing-^Z text/binary deviation?
fn safecrlf_refusal_sig(
    git_stderr: &str,
    w: &WorldSpec,
    pipe: &mut gix::filter::Pipeline<'_>,
    index: &gix_index::State,
) -> &'static str {
    let name = git_stderr.trim().rsplit(" in ").next().unwrap_or("").trim();
    if let Some(f) = w.files.iter().find(|f| f.name == name) {
        if f.content.last() == Some(&0x1a) {
            let cut = &f.content[..f.content.len() - 1];
            if let Err(e) = pipe.convert_to_git(cut, Path::new(&f.name), index) {
                if is_roundtrip_error(&error_chain(&e)) {
                    return "trailing-ctrl-z-counts-as-non-printable";
                }
            }
        }
    }
    "safecrlf-git-refuses-only"
}

/// Both buffers around their first difference.
fn diff_ctx(a: &[u8], b: &[u8]) -> String {
    let at = a.iter().zip(b.iter()).take_while(|(x, y)| x == y).count();
    let from = at.saturating_sub(40);
    format!(
        "first difference at byte {at}: git {:?} (len {}) vs gitoxide {:?} (len {})",
        show(&a[from..a.len().min(at + 100)]),
        a.len(),
        show(&b[from..b.len().min(at + 100)]),
        b.len()
    )
}

fn error_chain(e: &dyn std::error::Error) -> String {
    let mut s = e.to_string();
    let mut cur = e.source();
    while let Some(c) = cur {
        s.push_str(": ");
        s.push_str(&c.to_string());
        cur = c.source();
    }
    s
}
