//! C52 — dates format and parse consistently with git.
//!
//! Sub-checks
//! * `roundtrip`  : `parse(time.format(f), None)` for every format, compared with an independent calendar model
//!                  (the formatted text itself is compared with the model's rendering, too).
//! * `strings`    : date strings in gitoxide's grammars (with spelling variants) — when gitoxide accepts, the result
//!                  must be the instant/offset the string was built from (harness calendar model).
//! * `git-parse`  : the same strings put to real git (`GIT_AUTHOR_DATE=<s> git var GIT_AUTHOR_IDENT`, i.e. git's strict
//!                  `parse_date`); if both accept, seconds and offset agree; the model is validated against git as well.
use gix_date::time::{format, Format, Sign};
use gix_date::Time;
use vp::*;

// ---------------------------------------------------------------------------------------------
// independent proleptic Gregorian calendar (Howard Hinnant's algorithms)

fn days_from_civil(y: i64, m: i64, d: i64) -> i64 {
    let y = if m <= 2 { y - 1 } else { y };
    let era = if y >= 0 { y } else { y - 399 } / 400;
    let yoe = y - era * 400;
    let mp = (m + 9) % 12;
    let doy = (153 * mp + 2) / 5 + d - 1;
    let doe = yoe * 365 + yoe / 4 - yoe / 100 + doy;
    era * 146097 + doe - 719468
}

fn civil_from_days(z: i64) -> (i64, i64, i64) {
    let z = z + 719468;
    let era = if z >= 0 { z } else { z - 146096 } / 146097;
    let doe = z - era * 146097;
    let yoe = (doe - doe / 1460 + doe / 36524 - doe / 146096) / 365;
    let y = yoe + era * 400;
    let doy = doe - (365 * yoe + yoe / 4 - yoe / 100);
    let mp = (5 * doy + 2) / 153;
    let d = doy - (153 * mp + 2) / 5 + 1;
    let m = if mp < 10 { mp + 3 } else { mp - 9 };
    (if m <= 2 { y + 1 } else { y }, m, d)
}

const WDAY: [&str; 7] = ["Sun", "Mon", "Tue", "Wed", "Thu", "Fri", "Sat"];
const WDAY_LONG: [&str; 7] = ["Sunday", "Monday", "Tuesday", "Wednesday", "Thursday", "Friday", "Saturday"];
const MONTH: [&str; 12] = ["Jan", "Feb", "Mar", "Apr", "May", "Jun", "Jul", "Aug", "Sep", "Oct", "Nov", "Dec"];
const MONTH_LONG: [&str; 12] = [
    "January",
    "February",
    "March",
    "April",
    "May",
    "June",
    "July",
    "August",
    "September",
    "October",
    "November",
    "December",
];

/// local wall-clock fields of an instant at an offset
#[derive(Clone, Copy, Debug, PartialEq, Eq, Hash)]
struct Civil {
    y: i64,
    mo: i64,
    d: i64,
    h: i64,
    mi: i64,
    s: i64,
    /// 0 = Sunday
    wd: usize,
}

fn civil_of(seconds: i64, offset: i32) -> Civil {
    let local = seconds + offset as i64;
    let days = local.div_euclid(86400);
    let sod = local.rem_euclid(86400);
    let (y, mo, d) = civil_from_days(days);
    Civil {
        y,
        mo,
        d,
        h: sod / 3600,
        mi: sod % 3600 / 60,
        s: sod % 60,
        wd: (days + 4).rem_euclid(7) as usize, // 1970-01-01 was a Thursday
    }
}

fn tz(offset: i32, colon: bool) -> String {
    let a = offset.unsigned_abs();
    let sign = if offset < 0 { '-' } else { '+' };
    if colon {
        format!("{sign}{:02}:{:02}", a / 3600, a % 3600 / 60)
    } else {
        format!("{sign}{:02}{:02}", a / 3600, a % 3600 / 60)
    }
}

#[derive(Clone, Copy, Debug, PartialEq, Eq, Hash)]
enum F {
    Short,
    Rfc2822,
    GitRfc2822,
    Iso8601,
    Iso8601Strict,
    Unix,
    Raw,
    Gitoxide,
    Default,
}

const ALL_F: [F; 9] = [
    F::Short,
    F::Rfc2822,
    F::GitRfc2822,
    F::Iso8601,
    F::Iso8601Strict,
    F::Unix,
    F::Raw,
    F::Gitoxide,
    F::Default,
];

impl F {
    fn to_format(self) -> Format {
        match self {
            F::Short => format::SHORT.into(),
            F::Rfc2822 => format::RFC2822.into(),
            F::GitRfc2822 => format::GIT_RFC2822.into(),
            F::Iso8601 => format::ISO8601.into(),
            F::Iso8601Strict => format::ISO8601_STRICT.into(),
            F::Unix => format::UNIX,
            F::Raw => format::RAW,
            F::Gitoxide => format::GITOXIDE.into(),
            F::Default => format::DEFAULT.into(),
        }
    }
    fn name(self) -> &'static str {
        match self {
            F::Short => "fmt-SHORT",
            F::Rfc2822 => "fmt-RFC2822",
            F::GitRfc2822 => "fmt-GIT_RFC2822",
            F::Iso8601 => "fmt-ISO8601",
            F::Iso8601Strict => "fmt-ISO8601_STRICT",
            F::Unix => "fmt-UNIX",
            F::Raw => "fmt-RAW",
            F::Gitoxide => "fmt-GITOXIDE",
            F::Default => "fmt-DEFAULT",
        }
    }
    fn is_custom(self) -> bool {
        !matches!(self, F::Unix | F::Raw)
    }
}

/// The documented rendering of each format, written down independently of the calendar library.
fn render(f: F, seconds: i64, offset: i32, sign: Sign) -> String {
    let c = civil_of(seconds, offset);
    match f {
        F::Short => format!("{:04}-{:02}-{:02}", c.y, c.mo, c.d),
        F::Rfc2822 => format!(
            "{}, {:02} {} {:04} {:02}:{:02}:{:02} {}",
            WDAY[c.wd],
            c.d,
            MONTH[c.mo as usize - 1],
            c.y,
            c.h,
            c.mi,
            c.s,
            tz(offset, false)
        ),
        F::GitRfc2822 => format!(
            "{}, {} {} {:04} {:02}:{:02}:{:02} {}",
            WDAY[c.wd],
            c.d,
            MONTH[c.mo as usize - 1],
            c.y,
            c.h,
            c.mi,
            c.s,
            tz(offset, false)
        ),
        F::Iso8601 => format!(
            "{:04}-{:02}-{:02} {:02}:{:02}:{:02} {}",
            c.y,
            c.mo,
            c.d,
            c.h,
            c.mi,
            c.s,
            tz(offset, false)
        ),
        F::Iso8601Strict => format!(
            "{:04}-{:02}-{:02}T{:02}:{:02}:{:02}{}",
            c.y,
            c.mo,
            c.d,
            c.h,
            c.mi,
            c.s,
            tz(offset, true)
        ),
        F::Unix => seconds.to_string(),
        F::Raw => {
            let a = offset.unsigned_abs();
            format!(
                "{} {}{:02}{:02}",
                seconds,
                if sign == Sign::Minus { '-' } else { '+' },
                a / 3600,
                a % 3600 / 60
            )
        }
        F::Gitoxide => format!(
            "{} {} {:02} {:04} {:02}:{:02}:{:02} {}",
            WDAY[c.wd],
            MONTH[c.mo as usize - 1],
            c.d,
            c.y,
            c.h,
            c.mi,
            c.s,
            tz(offset, false)
        ),
        F::Default => format!(
            "{} {} {} {:02}:{:02}:{:02} {:04} {}",
            WDAY[c.wd],
            MONTH[c.mo as usize - 1],
            c.d,
            c.h,
            c.mi,
            c.s,
            c.y,
            tz(offset, false)
        ),
    }
}

// ---------------------------------------------------------------------------------------------
// generators

/// 0001-01-02T00:00:00Z: one day of head-room so that every offset keeps the local year >= 1
const MIN_CAL: i64 = -62135596800 + 86400;
/// the calendar library's largest timestamp (9999-12-30T22:00:00Z); `Time::format` documents nothing beyond it
const MAX_CAL: i64 = 253402207200;

fn calendar_instant(t: &mut Tape) -> (i64, &'static str) {
    match t.weighted(&[6, 4, 3, 3, 3, 3]) {
        0 => (t.range_i64(0, MAX_CAL), "instant-uniform-1970-9999"),
        1 => (t.range_i64(978307200, 2145916799), "instant-2001-2037"),
        2 => {
            const B: [i64; 12] = [
                0,
                1,
                (1 << 31) - 1,
                1 << 31,
                (1 << 31) + 1,
                (1 << 32) - 1,
                1 << 32,
                (1 << 32) + 1,
                MAX_CAL,
                MAX_CAL - 1,
                MIN_CAL,
                -1,
            ];
            (*t.pick(&B), "instant-boundary")
        }
        3 => {
            // around a year boundary, local or UTC
            let y = match t.below(4) {
                0 => t.range_i64(2, 9999),
                1 => t.range_i64(1969, 2101),
                2 => *t.pick(&[1000, 1900, 2000, 2100, 2400, 10, 100]),
                _ => t.range_i64(2, 1000),
            };
            let base = days_from_civil(y, 1, 1) * 86400;
            ((base + t.range_i64(-90000, 90000)).clamp(MIN_CAL, MAX_CAL), "instant-year-boundary")
        }
        4 => {
            // around the end of February (leap and non-leap years, century rules)
            let y = match t.below(3) {
                0 => *t.pick(&[1600, 1700, 1900, 2000, 2100, 2400, 4, 100, 400, 1972, 2024, 2023]),
                1 => t.range_i64(1, 9999),
                _ => t.range_i64(1968, 2104),
            };
            let base = days_from_civil(y, 3, 1) * 86400;
            ((base + t.range_i64(-2 * 86400 - 50000, 90000)).clamp(MIN_CAL, MAX_CAL), "instant-feb-end")
        }
        _ => (t.range_i64(MIN_CAL, -1), "instant-negative"),
    }
}

/// whole-minute offset in (-24h, +24h)
fn calendar_offset(t: &mut Tape) -> i32 {
    let minutes = match t.weighted(&[3, 4, 3, 2]) {
        0 => 0,
        1 => t.range_i64(-14, 14) * 60 + *t.pick(&[0i64, 0, 30, 45, -30]),
        2 => t.range_i64(-1439, 1439),
        _ => *t.pick(&[-1439, 1439, -1, 1, 59, -59, 60, -60, 720, -720, 840]),
    };
    (minutes.clamp(-1439, 1439) * 60) as i32
}

fn floor_day(seconds: i64) -> i64 {
    seconds.div_euclid(86400) * 86400
}

// ---------------------------------------------------------------------------------------------
// date strings for the differential

#[derive(Debug)]
struct DateString {
    text: String,
    /// the instant and offset the text was built from
    seconds: i64,
    offset: i32,
    grammar: F,
    variant: &'static str,
    /// nothing was altered compared with the output of `Time::format`
    canonical: bool,
    /// the sign a successful parse must carry
    minus: bool,
}

fn case_variant(t: &mut Tape, s: &str) -> String {
    match t.below(3) {
        0 => s.to_ascii_lowercase(),
        1 => s.to_ascii_uppercase(),
        _ => s.to_string(),
    }
}

fn gen_datestring(t: &mut Tape, git_window: bool) -> DateString {
    let grammar = *t.pick(&[
        F::Rfc2822,
        F::GitRfc2822,
        F::Iso8601,
        F::Iso8601Strict,
        F::Gitoxide,
        F::Default,
        F::Raw,
        F::Unix,
    ]);
    // spelling variant of the custom grammars (decoded early so that short tapes still vary it)
    let vsel = if t.chance(120) { Some(t.below(10)) } else { None };
    // instants: mostly inside the window real git can represent (1970..2099), otherwise anything in the calendar
    let (mut seconds, _) = if git_window || t.chance(170) {
        match t.weighted(&[6, 2, 2, 1]) {
            0 => (t.range_i64(0, 4102444799), ""),
            1 => (t.range_i64(0, 200_000_000), ""),
            2 => (t.range_i64(4102444799 - 100_000, 4102444799 + 100_000), ""),
            _ => (
                *t.pick(&[0i64, 1, 99_999_999, 100_000_000, 2147483647, 2147483648, 4294967295, 4294967296, 951782400]),
                "",
            ),
        }
    } else {
        calendar_instant(t)
    };
    let mut offset = calendar_offset(t);
    if grammar.is_custom() && matches!(vsel, Some(8 | 9)) {
        offset = 0;
    }
    let mut variant = "canonical";
    let mut raw_minus = false;
    let text = match grammar {
        F::Unix => {
            offset = 0;
            if t.chance(30) {
                seconds = t.range_i64(-1000, 99_999_999);
                variant = "unix-short-or-negative";
            }
            seconds.to_string()
        }
        F::Raw => {
            let a = offset.unsigned_abs();
            let (mut hh, mut mm) = (a / 3600, a % 3600 / 60);
            let mut sign = if offset < 0 { '-' } else { '+' };
            match t.weighted(&[9, 2, 3, 2]) {
                0 => {}
                1 => {
                    // minutes 60..99: outside what `write_to` can produce
                    mm = t.range(60, 99) as u32;
                    variant = "raw-minutes-ge-60";
                }
                2 => {
                    offset = 0;
                    hh = 0;
                    mm = 0;
                    sign = '-';
                    variant = "raw-minus-zero";
                }
                _ => {
                    seconds = t.range_i64(-1000, 99_999_999);
                    variant = "raw-short-or-negative";
                }
            }
            if variant == "raw-minutes-ge-60" {
                hh = hh.min(22);
                offset = ((hh * 3600 + mm * 60) as i32) * if sign == '-' { -1 } else { 1 };
            }
            let sep = if t.chance(40) {
                variant = if variant == "canonical" { "raw-spacing" } else { variant };
                *t.pick(&["  ", "\t", "   "])
            } else {
                " "
            };
            raw_minus = sign == '-';
            format!("{seconds}{sep}{sign}{hh:02}{mm:02}")
        }
        _ => {
            let c = civil_of(seconds, offset);
            // token spelling variants
            let mut wd = WDAY[c.wd].to_string();
            let mut mon = MONTH[c.mo as usize - 1].to_string();
            let mut spacing: Option<(usize, &'static str)> = None;
            let mut comma = ",".to_string();
            let mut zone = tz(offset, grammar == F::Iso8601Strict);
            let mut lead = String::new();
            let mut trail = String::new();
            if let Some(v) = vsel {
                match v {
                    0 => {
                        let other = (c.wd + t.range(1, 6)) % 7;
                        wd = WDAY[other].to_string();
                        variant = "wrong-weekday";
                    }
                    1 => {
                        wd = case_variant(t, &wd);
                        mon = case_variant(t, &mon);
                        variant = "letter-case";
                    }
                    2 => {
                        wd = WDAY_LONG[c.wd].to_string();
                        variant = "long-weekday";
                    }
                    3 => {
                        mon = MONTH_LONG[c.mo as usize - 1].to_string();
                        variant = "long-month";
                    }
                    4 => {
                        spacing = Some((t.below(5), *t.pick(&["  ", "   ", "\t", " \t "])));
                        variant = "inner-spacing";
                    }
                    5 => {
                        if t.bool() {
                            lead = " ".into();
                        } else {
                            trail = " ".into();
                        }
                        variant = "outer-spacing";
                    }
                    6 => {
                        // the other zone spelling (colon <-> no colon)
                        zone = tz(offset, grammar != F::Iso8601Strict);
                        variant = "zone-colon-swapped";
                    }
                    9 => {
                        zone = "Z".into();
                        variant = "zone-Z";
                    }
                    7 => {
                        comma = String::new();
                        variant = "no-comma";
                    }
                    _ => {
                        zone = if grammar == F::Iso8601Strict { "-00:00".into() } else { "-0000".into() };
                        variant = "zone-minus-zero";
                    }
                }
            }
            return finish_custom(grammar, &c, &wd, &mon, spacing, &comma, &zone, &lead, &trail, seconds, offset, variant);
        }
    };
    DateString {
        text,
        seconds,
        offset,
        grammar,
        canonical: variant == "canonical",
        variant,
        minus: raw_minus,
    }
}

#[allow(clippy::too_many_arguments)]
fn finish_custom(
    grammar: F,
    c: &Civil,
    wd: &str,
    mon: &str,
    spacing: Option<(usize, &'static str)>,
    comma: &str,
    zone: &str,
    lead: &str,
    trail: &str,
    seconds: i64,
    offset: i32,
    variant: &'static str,
) -> DateString {
    let hms = format!("{:02}:{:02}:{:02}", c.h, c.mi, c.s);
    let sp = |i: usize| match spacing {
        Some((which, many)) if which == i => many,
        _ => " ",
    };
    let body = match grammar {
        F::Rfc2822 => format!(
            "{wd}{comma}{}{:02}{}{mon}{}{:04}{}{hms}{}{zone}",
            sp(0),
            c.d,
            sp(1),
            sp(2),
            c.y,
            sp(3),
            sp(4)
        ),
        F::GitRfc2822 => format!(
            "{wd}{comma}{}{}{}{mon}{}{:04}{}{hms}{}{zone}",
            sp(0),
            c.d,
            sp(1),
            sp(2),
            c.y,
            sp(3),
            sp(4)
        ),
        F::Iso8601 => format!("{:04}-{:02}-{:02}{}{hms}{}{zone}", c.y, c.mo, c.d, sp(0), sp(1)),
        F::Iso8601Strict => format!("{:04}-{:02}-{:02}T{hms}{zone}", c.y, c.mo, c.d),
        F::Gitoxide => format!(
            "{wd}{}{mon}{}{:02}{}{:04}{}{hms}{}{zone}",
            sp(0),
            sp(1),
            c.d,
            sp(2),
            c.y,
            sp(3),
            sp(4)
        ),
        F::Default => format!(
            "{wd}{}{mon}{}{}{}{hms}{}{:04}{}{zone}",
            sp(0),
            sp(1),
            c.d,
            sp(2),
            sp(3),
            c.y,
            sp(4)
        ),
        _ => unreachable!("custom grammars only"),
    };
    let text = format!("{lead}{body}{trail}");
    let canonical = text == render(grammar, seconds, offset, Sign::from(offset));
    DateString {
        text,
        seconds,
        offset,
        grammar,
        canonical,
        variant: if canonical { "canonical" } else { variant },
        minus: offset < 0,
    }
}

fn variant_label(d: &DateString) -> &'static str {
    d.variant
}

/// git's strict `parse_date`, observed through the author ident. `None` = git refuses the text.
fn git_parse(git: &Git, text: &str) -> Result<Option<(i64, i32)>, String> {
    let g = git.clone().env("GIT_AUTHOR_DATE", text);
    let (ok, out, err) = g.try_run(["var", "GIT_AUTHOR_IDENT"], None)?;
    if !ok {
        let e = String::from_utf8_lossy(&err);
        if e.contains("invalid date format") {
            return Ok(None);
        }
        return Err(format!("git var failed unexpectedly: {e}"));
    }
    let line = String::from_utf8_lossy(&out).trim_end().to_string();
    let mut it = line.rsplitn(3, ' ');
    let tzs = it.next().ok_or("no tz")?;
    let secs = it.next().ok_or("no seconds")?;
    // git computes in unsigned arithmetic: instants before the epoch wrap around
    let secs = secs.parse::<u64>().map_err(|_| format!("unparsable ident line {line:?}"))? as i64;
    if tzs.len() != 5 {
        return Err(format!("unparsable tz in {line:?}"));
    }
    let sign = if tzs.starts_with('-') { -1 } else { 1 };
    let hh: i32 = tzs[1..3].parse().map_err(|_| format!("bad tz in {line:?}"))?;
    let mm: i32 = tzs[3..5].parse().map_err(|_| format!("bad tz in {line:?}"))?;
    Ok(Some((secs, sign * (hh * 3600 + mm * 60))))
}

fn check_string_against_model(d: &DateString, c: &mut Case) -> Option<Option<Time>> {
    let parsed = gix_date::parse(&d.text, None).ok();
    match parsed {
        None => {
            c.label("gix-rejects");
            if d.canonical && d.grammar != F::Raw && d.grammar != F::Unix {
                c.fail_sig(
                    "canonical-string-rejected",
                    format!("gitoxide refuses {:?}, which is what {:?} renders for {} {}", d.text, d.grammar, d.seconds, d.offset),
                );
                return None;
            }
        }
        Some(p) => {
            c.label("gix-accepts");
            if d.variant == "raw-minutes-ge-60" {
                // reported by the git differential only (the model has no opinion on what such a zone means)
                return Some(parsed);
            }
            if p.seconds != d.seconds || p.offset != d.offset {
                c.fail_sig(
                    "parsed-differs-from-model",
                    format!(
                        "{:?} ({:?}, {}) was built from {} {:+} but gitoxide parses it as {} {:+}",
                        d.text, d.grammar, d.variant, d.seconds, d.offset, p.seconds, p.offset
                    ),
                );
                return None;
            }
            let want_sign = if d.minus { Sign::Minus } else { Sign::Plus };
            if p.sign != want_sign {
                c.fail_sig(
                    "parsed-sign",
                    format!("{:?} parses with sign {:?}, expected {:?}", d.text, p.sign, want_sign),
                );
                return None;
            }
        }
    }
    Some(parsed)
}

pub fn main() {
    let mut ck = Check::new("C52", "exploration");
    ck.rule("roundtrip: (format, instant, offset) with instants uniform over 1970..9999, 2001..2037, boundary values (0, 2^31+-1, 2^32+-1, calendar min/max), year boundaries, end of February in leap/non-leap/century years, negative instants down to year 0001; whole-minute offsets in (-24h,+24h) (RAW: below 100h, incl. -0000; UNIX/RAW also extreme i64 seconds). Non-trivial: instant outside 2001..2037 or non-zero offset. strings/git-parse: texts in the RFC2822/GIT_RFC2822/ISO8601/ISO8601_STRICT/GITOXIDE/DEFAULT/RAW/UNIX grammars built from a known instant with spelling variants (wrong weekday, letter case, long names, spacing, zone spelling, -0000); non-trivial: gitoxide accepts (and for git-parse: git accepts, too) and offset non-zero or a non-canonical variant. Distinct by decoded (format, seconds, offset) resp. text.");
    ck.assume(&format!("{}: `GIT_AUTHOR_DATE=<s> git var GIT_AUTHOR_IDENT` exposes git's strict parse_date (seconds printed as unsigned: values >= 2^63 are read as negative)", Git::version()));
    ck.assume("custom formats are exercised for instants within the calendar library's timestamp range (0001-01-02 .. 9999-12-30T22:00:00Z) and whole-minute offsets below 24h; SHORT carries the local calendar day only (its midnight UTC must be within the same range), UNIX no offset; custom formats cannot carry the sign of a zero offset");
    ck.assume("a zone of exactly -0001 is not put to git (git's parse_date_basic uses offset -1 as its 'no zone' marker and substitutes the local zone)");
    ck.assume("RAW offsets of 24h and more round-trip in gitoxide by design (object headers) and are ignored by git's approxidate; they are not put to git");

    ck.sub("roundtrip", SubCfg::new(200_000, 4_000_000).max_len(40), |t, c| {
        let f = *t.pick(&ALL_F);
        c.label(f.name());
        let (seconds, offset, sign, class) = if f.is_custom() {
            let (mut s, class) = calendar_instant(t);
            let o = calendar_offset(t);
            if f == F::Short && floor_day(s + o as i64) > MAX_CAL {
                // SHORT parses to midnight UTC of the local day, which must itself be a representable instant
                s -= 86400;
            }
            (s, o, Sign::from(o), class)
        } else if t.chance(128) {
            let (tm, _) = gen::time(t);
            (tm.seconds, tm.offset, tm.sign, "instant-full-i64-classes")
        } else {
            let (s, class) = calendar_instant(t);
            let o = calendar_offset(t);
            let sign = if o == 0 && t.chance(60) { Sign::Minus } else { Sign::from(o) };
            (s, o, sign, class)
        };
        c.label(class);
        let time = Time { seconds, offset, sign };
        c.key(&(f, seconds, offset, sign));
        c.nontrivial(!(978307200..=2145916799).contains(&seconds) || offset != 0);
        c.label_if(offset != 0, "offset-nonzero");
        c.label_if(offset == 0 && sign == Sign::Minus, "offset-minus-zero");
        let text = time.format(f.to_format());
        c.sample_with(|| format!("{f:?} {time:?} -> {text:?}"));
        let model = render(f, seconds, offset, sign);
        ensure_sig!(
            c,
            "format-differs-from-model",
            text == model,
            "{time:?} formatted as {f:?} gives {text:?}, the documented layout gives {model:?}"
        );
        let parsed = match gix_date::parse(&text, None) {
            Ok(p) => p,
            Err(e) => {
                c.fail_sig("formatted-text-rejected", format!("parse({text:?}) failed ({e}) for {time:?} as {f:?}"));
                return;
            }
        };
        let expected = match f {
            F::Short => Time::new(floor_day(seconds + offset as i64), 0),
            F::Unix => Time::new(seconds, 0),
            F::Raw => time,
            _ => Time::new(seconds, offset),
        };
        ensure_sig!(
            c,
            "roundtrip-differs",
            parsed == expected,
            "{time:?} as {f:?} = {text:?} parses back as {parsed:?}, expected {expected:?}"
        );
    });

    ck.sub("strings", SubCfg::new(100_000, 2_000_000).max_len(48), |t, c| {
        let d = gen_datestring(t, false);
        c.key(&d.text);
        c.label(d.grammar.name());
        c.label(variant_label(&d));
        c.sample_with(|| format!("{d:?}"));
        let Some(parsed) = check_string_against_model(&d, c) else { return };
        c.nontrivial(parsed.is_some() && (d.offset != 0 || !d.canonical));
    });

    ck.sub("git-parse", SubCfg::new(4_000, 100_000).max_len(48).max_shrink(60), |t, c| {
        let d = gen_datestring(t, true);
        c.key(&d.text);
        c.label(d.grammar.name());
        c.label(variant_label(&d));
        c.sample_with(|| format!("{d:?}"));
        let Some(parsed) = check_string_against_model(&d, c) else { return };
        if d.offset == -60 {
            // git's parser uses "-1 minute" as its internal "no zone seen" marker and then applies the local zone
            c.label("git-tz-sentinel-minus-one-minute");
            return;
        }
        let scratch = infra!(c, Scratch::new("c52"), "scratch");
        let git = Git::new(&scratch.path, &scratch.path);
        let by_git = infra!(c, git_parse(&git, &d.text), "git var");
        match (parsed, by_git) {
            (Some(p), Some((gs, go))) => {
                c.label("both-accept");
                c.nontrivial(d.offset != 0 || !d.canonical);
                if d.variant == "raw-minutes-ge-60" {
                    ensure_sig!(
                        c,
                        "raw-offset-minutes-ge-60",
                        p.seconds == gs && p.offset == go,
                        "{:?}: gitoxide {} {:+}, git {} {:+}",
                        d.text,
                        p.seconds,
                        p.offset,
                        gs,
                        go
                    );
                    return;
                }
                if (gs, go) != (d.seconds, d.offset) {
                    // gitoxide agrees with the model (checked above) and git disagrees with both
                    c.fail_sig(
                        "differs-from-git",
                        format!(
                            "{:?} ({:?}, {}): gitoxide and the model say {} {:+}, git says {} {:+}",
                            d.text, d.grammar, d.variant, p.seconds, p.offset, gs, go
                        ),
                    );
                }
            }
            (Some(_), None) => c.label("git-rejects-gix-accepts"),
            (None, Some((gs, go))) => {
                c.label("gix-rejects-git-accepts");
                if d.variant != "raw-minutes-ge-60" && (gs, go) != (d.seconds, d.offset) {
                    // nothing to compare gitoxide with, but the model is off: only spelling variants git reads differently
                    c.label("git-reads-variant-differently");
                }
            }
            (None, None) => c.label("both-reject"),
        }
    });

    ck.finish();
}
