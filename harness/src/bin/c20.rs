//! C20 — reference updates are crash-consistent (fault enumeration).
//!
//! One case = a generated pre-state + one committable C16-style transaction. The transaction is executed by a worker
//! (`c20 --c20-worker <git-dir> <tape-hex>`, this binary, before `Check::new` is reached) under `strace` used as a
//! syscall-indexed fault injector: a counting pass records the worker's filesystem syscalls, then for EVERY mutating
//! syscall n that touches the repository the state is restored and the worker is run again with
//! `-e inject=<syscall>:signal=SIGKILL:when=<k>` where the crash point is the k-th invocation of that syscall (strace counts
//! per syscall name; the syscall is not executed, the process dies).
#[path = "c16.rs"]
#[allow(dead_code)]
mod reftx;

use gix_lock::acquire::Fail;
use reftx::*;
use std::collections::BTreeSet;
use std::path::Path;
use vp::*;

const SYSCALLS: &str = "?rename,?renameat,?renameat2,?unlink,?unlinkat,?link,?linkat,?symlink,?symlinkat,?mkdir,?mkdirat,?rmdir,?open,?openat,?openat2,?creat,?write,?pwrite64,?writev,?pwritev,?pwritev2,?copy_file_range,?sendfile,?splice,?ftruncate,?truncate,?fallocate,?fsync,?fdatasync";

#[derive(Clone, Debug, PartialEq, Eq, Hash)]
struct Scenario {
    pre: PreState,
    tx: Tx,
}

fn set_exp_any(tx: &mut Tx) {
    for e in &mut tx.edits {
        match &mut e.kind {
            Kind::Update { exp, .. } | Kind::Delete { exp } => *exp = Exp::Any,
        }
    }
}

/// `None`: the generated transaction cannot be committed (duplicate names, symbolic cycle) -> discard
fn decode(t: &mut Tape) -> Option<Scenario> {
    let pre = gen_prestate(t);
    let m = pre.model();
    let mut tx = gen_tx(t, &m);
    // known C16 finding (unpackable refs in remove-loose mode): stay out of that class
    if tx.mode == Mode::UpdatesRemoveLoose
        && tx
            .edits
            .iter()
            .any(|e| is_pseudo(e.name) && matches!(e.kind, Kind::Update { new: Val::Obj(_), .. }))
    {
        tx.mode = Mode::Updates;
    }
    if predict(&m, &tx).result.is_err() {
        // keep the edits, drop the expectations that do not hold
        set_exp_any(&mut tx);
    }
    if predict(&m, &tx).result.is_err() {
        return None;
    }
    Some(Scenario { pre, tx })
}

fn worker_main(git_dir: &str, tape_hex: &str) -> ! {
    // never burn CPU without bound should a transaction not return (termination is C17's matter)
    unsafe {
        // die with the tracer (strace), bounded CPU, memory and wall-clock time
        libc::prctl(libc::PR_SET_PDEATHSIG, libc::SIGKILL as libc::c_ulong);
        let lim = libc::rlimit {
            rlim_cur: 30,
            rlim_max: 30,
        };
        libc::setrlimit(libc::RLIMIT_CPU, &lim);
        let mem = libc::rlimit {
            rlim_cur: 1 << 30,
            rlim_max: 1 << 30,
        };
        libc::setrlimit(libc::RLIMIT_AS, &mem);
        libc::alarm(600);
    }
    let tape = unhex(tape_hex).unwrap_or_default();
    let mut t = Tape::new(&tape);
    if let Some(sc) = decode(&mut t) {
        let pool = Pool::build();
        let store = open_store(Path::new(git_dir));
        let _ = run_tx(&store, &sc.tx, &pool, Fail::Immediately, Fail::Immediately);
    }
    std::process::exit(0);
}

/// remove everything below the git dir except objects/ and hooks/, then write the snapshot back
fn restore(git_dir: &Path, s: &Snapshot) -> std::io::Result<()> {
    for e in std::fs::read_dir(git_dir)? {
        let e = e?;
        let name = e.file_name();
        if name == "objects" || name == "hooks" {
            continue;
        }
        if e.file_type()?.is_dir() {
            std::fs::remove_dir_all(e.path())?;
        } else {
            std::fs::remove_file(e.path())?;
        }
    }
    for d in &s.dirs {
        std::fs::create_dir_all(git_dir.join(d))?;
    }
    for (f, data) in &s.files {
        std::fs::write(git_dir.join(f), data)?;
    }
    Ok(())
}

struct Traced {
    /// 1-based index (within the syscall set) of every mutating syscall between the first and the last access to the git dir
    /// (syscall name, its per-name ordinal, trace line)
    points: Vec<(String, usize, String)>,
    total: usize,
    /// writes in the middle of a run of writes to one lock file (not enumerated)
    coalesced: usize,
}

fn strace_cmd(
    trace_out: &Path,
    inject: Option<(&str, usize)>,
    git_dir: &Path,
    tape: &[u8],
) -> std::io::Result<std::process::ExitStatus> {
    let exe = std::env::current_exe()?;
    let mut cmd = std::process::Command::new("strace");
    cmd.arg("-f").arg("-o").arg(trace_out).arg("-e").arg(format!("trace={SYSCALLS}"));
    if let Some((name, k)) = inject {
        // strace keeps one invocation counter per syscall NAME (and tracee): address the crash point as
        // "the k-th invocation of this syscall"
        cmd.arg("-e").arg(format!("inject={name}:signal=SIGKILL:when={k}"));
    }
    cmd.arg(exe).arg("--c20-worker").arg(git_dir).arg(hex(tape));
    cmd.stdin(std::process::Stdio::null())
        .stdout(std::process::Stdio::null())
        .stderr(std::process::Stdio::null());
    // strace dies with this process; the worker dies with strace (PR_SET_PDEATHSIG in the worker) and is bounded by
    // RLIMIT_CPU / RLIMIT_AS / alarm on its own
    unsafe {
        use std::os::unix::process::CommandExt;
        cmd.pre_exec(|| {
            libc::prctl(libc::PR_SET_PDEATHSIG, libc::SIGKILL as libc::c_ulong);
            Ok(())
        });
    }
    cmd.status()
}

fn is_mutating(line: &str) -> bool {
    let Some(call) = line.split('(').next() else { return false };
    let call = call.rsplit(' ').next().unwrap_or("");
    match call {
        "open" | "openat" | "openat2" => {
            line.contains("O_WRONLY") || line.contains("O_RDWR") || line.contains("O_CREAT") || line.contains("O_TRUNC") || line.contains("O_APPEND")
        }
        "fsync" | "fdatasync" => false,
        _ => true,
    }
}

fn counting_pass(trace_file: &Path, git_dir: &Path, tape: &[u8]) -> Result<Traced, String> {
    let st = strace_cmd(trace_file, None, git_dir, tape).map_err(|e| format!("strace: {e}"))?;
    if !st.success() {
        return Err(format!("uninterrupted worker run under strace failed: {st}"));
    }
    let text = std::fs::read_to_string(trace_file).map_err(|e| format!("read trace: {e}"))?;
    let dir = git_dir.to_string_lossy().to_string();
    let mut calls: Vec<&str> = Vec::new();
    let mut pids = BTreeSet::new();
    for line in text.lines() {
        let Some((pid, rest)) = line.split_once(' ') else { continue };
        let rest = rest.trim_start();
        if rest.starts_with("+++") || rest.starts_with("---") {
            continue;
        }
        if rest.contains("<unfinished") || rest.starts_with("<...") {
            return Err("worker is not single-threaded (interleaved trace)".into());
        }
        pids.insert(pid.to_string());
        calls.push(rest);
    }
    if pids.len() > 1 {
        return Err(format!("worker spawned processes: {pids:?}"));
    }
    let first = calls.iter().position(|l| l.contains(&dir));
    let last = calls.iter().rposition(|l| l.contains(&dir));
    let mut points = Vec::new();
    let mut coalesced = 0;
    if let (Some(a), Some(b)) = (first, last) {
        let mut ordinal: std::collections::BTreeMap<String, usize> = Default::default();
        let mut fd_path: std::collections::BTreeMap<String, String> = Default::default();
        // target of a `write(fd, ..)` line when that fd is a lock file or a reflog (whose content no check looks at)
        let lock_write = |l: &str, fd_path: &std::collections::BTreeMap<String, String>| -> Option<String> {
            let fd = l.strip_prefix("write(")?.split(',').next()?.to_string();
            let p = fd_path.get(&fd)?;
            (p.ends_with(".lock") || p.contains("/logs/")).then(|| fd)
        };
        for (i, l) in calls.iter().enumerate() {
            let name = l.split('(').next().unwrap_or("").trim().to_string();
            let k = ordinal.entry(name.clone()).or_insert(0);
            *k += 1;
            if name.starts_with("open") || name == "creat" {
                if let (Some(path), Some(fd)) = (l.split('"').nth(1), l.rsplit("= ").next()) {
                    fd_path.insert(fd.trim().to_string(), path.to_string());
                }
            }
            if i >= a && i <= b && is_mutating(l) {
                // Kills inside a run of writes to one lock file differ only in the content of that (left-over) lock file,
                // which no reader looks at: the first and the last write of such a run stand for the run.
                if let Some(fd) = lock_write(l, &fd_path) {
                    let prev_same = i > 0 && lock_write(calls[i - 1], &fd_path).as_deref() == Some(fd.as_str());
                    let next_same =
                        i + 1 < calls.len() && lock_write(calls[i + 1], &fd_path).as_deref() == Some(fd.as_str());
                    if prev_same && next_same {
                        coalesced += 1;
                        continue;
                    }
                }
                points.push((name, *k, l.replace(&dir, "$GIT_DIR")));
            }
        }
    }
    Ok(Traced {
        points,
        total: calls.len(),
        coalesced,
    })
}

fn direct_old_or_new(got: &Option<String>, old: &Option<String>, new: &Option<String>) -> bool {
    got == old || got == new
}

macro_rules! bail {
    ($c:expr, $sig:expr, $($arg:tt)*) => {{
        $c.fail_sig($sig, format!($($arg)*));
        return;
    }};
}

fn crash_points(t: &mut Tape, c: &mut Case) {
    let Some(sc) = decode(t) else {
        c.discard();
        return;
    };
    let tape = t.consumed().to_vec();
    c.key(&sc);
    let repo = infra!(c, Repo::new("c20"), "scratch repository");
    let pool = &repo.pool;
    let git_dir = repo.git_dir.clone();
    infra!(c, sc.pre.write(&git_dir, pool), "write pre-state");
    let m = sc.pre.model();
    let pred = predict(&m, &sc.tx);
    let m2 = match &pred.result {
        Ok(m2) => m2.clone(),
        Err(_) => {
            c.discard();
            return;
        }
    };
    let s0 = infra!(c, snapshot(&git_dir), "snapshot");
    if df_conflict(&s0, &pred.expanded) {
        // directory/file conflicts make commit fail half way by documentation; not a crash-consistency matter
        c.discard();
        return;
    }
    let trace_file = repo.world.scratch.join("trace.txt");

    // ---- uninterrupted run (also the counting pass)
    let traced = infra!(c, counting_pass(&trace_file, &git_dir, &tape), "counting pass");
    let s_final = infra!(c, snapshot(&git_dir), "snapshot");
    {
        let found = match observe_find(&open_store(&git_dir)) {
            Ok(f) => f,
            Err(e) => bail!(c, "uninterrupted-run-unreadable", "after the uninterrupted run: {e}; {sc:?}"),
        };
        let want = findable(&git_dir, &expected_map(&m2, pool));
        if found != want || !s_final.lock_files().is_empty() {
            bail!(
                c,
                "uninterrupted-run-differs-from-model",
                "the uninterrupted worker run left refs {found:?} (locks {:?}), model {want:?}; {sc:?}",
                s_final.lock_files()
            );
        }
    }
    let affected: BTreeSet<&'static str> = pred.expanded.iter().map(|e| e.name).collect();
    c.label(match sc.tx.mode {
        Mode::DeletionsOnly => "mode-deletions-only",
        Mode::Updates => "mode-updates",
        Mode::UpdatesRemoveLoose => "mode-updates-remove-loose",
    });
    c.label_if(s0.files.get("packed-refs") != s_final.files.get("packed-refs"), "packed-refs-rewritten");
    c.label_if(pred.split, "deref-split");
    c.label_if(
        pred.expanded.iter().any(|e| matches!(e.kind, Kind::Delete { .. }) && !e.log_only),
        "has-deletion",
    );
    c.label(match traced.points.len() {
        0 => "crash-points-0",
        1..=10 => "crash-points-1-10",
        11..=30 => "crash-points-11-30",
        _ => "crash-points-31+",
    });
    c.nontrivial(!traced.points.is_empty());
    c.sample_with(|| {
        format!(
            "{sc:?}; {} crash points ({} lock-file writes coalesced) of {} traced syscalls: {:?}",
            traced.points.len(),
            traced.coalesced,
            traced.total,
            traced.points.iter().map(|(name, k, _)| format!("{name}#{k}")).collect::<Vec<_>>()
        )
    });

    // ---- enumerate every crash point
    let git = repo.git();
    for (name, k, call) in &traced.points {
        let n = format!("{name}#{k}");
        infra!(c, restore(&git_dir, &s0), "restore pre-state");
        let st = infra!(c, strace_cmd(Path::new("/dev/null"), Some((name.as_str(), *k)), &git_dir, &tape), "strace");
        use std::os::unix::process::ExitStatusExt;
        if st.signal() != Some(9) && st.code() != Some(137) {
            c.infra(format!("injection at syscall {n} ({call}) did not kill the worker: {st}"));
            return;
        }
        let a = infra!(c, snapshot(&git_dir), "snapshot");
        let ctx = format!("killed before syscall {n} `{call}`; {sc:?}");

        // (a) files: refs, HEAD, packed-refs are complete old or complete new; leftovers are lock files only
        let mut torn_reflog = false;
        for (f, data) in &a.files {
            if f.ends_with(".lock") {
                c.label("lock-file-left");
                continue;
            }
            let old = s0.files.get(f);
            let new = s_final.files.get(f);
            if f.starts_with("logs/") {
                // reflogs are appended in place: old, new, or (not claimed by the property) a torn last line
                if Some(data) != old && Some(data) != new {
                    torn_reflog = true;
                }
                continue;
            }
            if old.is_none() && new.is_none() {
                bail!(c, "leftover-file", "unexpected file {f} ({}) left behind; {ctx}", show(data));
            }
            if Some(data) != old && Some(data) != new {
                let sig = if f == "packed-refs" { "packed-refs-torn" } else { "ref-file-torn" };
                bail!(
                    c,
                    sig,
                    "{f} is neither the old nor the new file: {} (old {:?}, new {:?}); {ctx}",
                    show(data),
                    old.map(|d| show(d)),
                    new.map(|d| show(d))
                );
            }
        }
        c.label_if(torn_reflog, "reflog-partially-appended");
        for (f, _) in &s0.files {
            if f.starts_with("logs/") {
                continue;
            }
            if s_final.files.contains_key(f) && !a.files.contains_key(f) {
                bail!(c, "file-missing", "{f} exists before and after the transaction but is missing; {ctx}");
            }
        }

        // (b) gitoxide (fresh store): every name reads as old or new
        let found = match observe_find(&open_store(&git_dir)) {
            Ok(f) => f,
            Err(e) => bail!(c, "gix-read-error", "gitoxide cannot read the refs: {e}; {ctx}"),
        };
        for name in NAMES {
            if has_file_ancestor(&git_dir, name) {
                continue;
            }
            let old = m.get(name).map(|v| show_val(v, pool));
            let new = m2.get(name).map(|v| show_val(v, pool));
            let got = found.get(*name).cloned();
            if !direct_old_or_new(&got, &old, &new) {
                bail!(
                    c,
                    "gix-neither-old-nor-new",
                    "gitoxide reads {name} as {got:?}; old {old:?}, new {new:?}; {ctx}"
                );
            }
        }

        // (c) git: one for-each-ref decides every direct ref; symbolic, pseudo and unlisted affected refs are read individually
        let listed = match git_for_each_ref(git) {
            Ok(l) => l,
            Err(e) => bail!(c, "git-cannot-read-repository", "git for-each-ref fails: {e}; {ctx}"),
        };
        for name in &affected {
            let old = m.get(name).map(|v| show_val(v, pool));
            let new = m2.get(name).map(|v| show_val(v, pool));
            let got = match listed.get(*name) {
                Some((oid, sym)) if sym.is_empty() => Some(format!("obj:{oid}")),
                None if name.starts_with("refs/") && (old.is_none() || new.is_none()) => {
                    // not listed and "absent" is a legal value: nothing more to learn from git
                    // (a dangling symbolic ref is not listed either; gitoxide already read it as old or new)
                    continue;
                }
                _ => infra!(c, git_read(git, name), "git"),
            };
            if !direct_old_or_new(&got, &old, &new) {
                bail!(
                    c,
                    "git-neither-old-nor-new",
                    "git reads {name} as {got:?}; old {old:?}, new {new:?}; {ctx}"
                );
            }
        }
        for (name, v) in m.iter() {
            if !name.starts_with("refs/") || affected.contains(name) {
                continue;
            }
            // chains through affected refs may legitimately resolve differently half way
            let mut cur: &str = name;
            let mut through_affected = false;
            for _ in 0..5 {
                match m.get(cur) {
                    Some(Val::Sym(n)) => {
                        if affected.contains(n) {
                            through_affected = true;
                        }
                        cur = n;
                    }
                    _ => break,
                }
            }
            if through_affected {
                continue;
            }
            match resolve(&m, name) {
                Resolved::Obj(i, last) => {
                    let sym = if matches!(v, Val::Sym(_)) { last } else { String::new() };
                    let want = (pool.hex(i), sym);
                    if listed.get(*name) != Some(&want) {
                        bail!(
                            c,
                            "git-unrelated-ref-changed",
                            "git lists the unrelated ref {name} as {:?}, expected {want:?}; {ctx}",
                            listed.get(*name)
                        );
                    }
                }
                Resolved::Dangling | Resolved::TooDeep => {}
            }
        }
        for name in listed.keys() {
            if !m.contains_key(name.as_str()) && !m2.contains_key(name.as_str()) {
                bail!(c, "git-lists-unknown-ref", "git lists {name} which exists neither before nor after; {ctx}");
            }
        }

        // (d) after removing the left-over locks a transaction on an unrelated ref succeeds
        for l in a.lock_files() {
            infra!(c, std::fs::remove_file(git_dir.join(&l)), "remove left-over lock");
        }
        let follow = Tx {
            mode: Mode::DeletionsOnly,
            edits: vec![EditSpec {
                name: "refs/heads/zz",
                kind: Kind::Update {
                    new: Val::Obj(1),
                    exp: Exp::Any,
                    force_log: false,
                },
                deref: false,
                log_only: false,
            }],
        };
        let store = open_store(&git_dir);
        match run_tx(&store, &follow, pool, Fail::Immediately, Fail::Immediately) {
            Ok(Ok(_)) => {}
            Ok(Err(e)) => bail!(c, "follow-up-failed", "follow-up transaction fails in commit: {e:?}; {ctx}"),
            Err(e) => bail!(c, "follow-up-failed", "follow-up transaction fails in prepare: {e:?}; {ctx}"),
        }
        match open_store(&git_dir).try_find("refs/heads/zz") {
            Ok(Some(r)) if show_target(&r.target) == show_val(&Val::Obj(1), pool) => {}
            other => bail!(c, "follow-up-failed", "follow-up transaction did not take effect: {other:?}; {ctx}"),
        }
    }
}

pub fn main() {
    let args: Vec<String> = std::env::args().collect();
    if args.len() == 4 && args[1] == "--c20-worker" {
        worker_main(&args[2], &args[3]);
    }
    let mut ck = Check::new("C20", "fault_enumeration");
    ck.rule("One committable C16-style transaction (1..4 edits: update to object|symbolic, delete, deref, log-only, force-create-reflog; all three PackedRefs modes) on a generated pre-state (loose / packed / loose+stale-packed, symbolic chains, reflogs on), executed by a worker process; a counting pass under strace records its filesystem syscalls {rename*,unlink*,link*,symlink*,mkdir*,rmdir,open*,creat,write,pwrite64,writev,pwritev*,copy_file_range,sendfile,splice,ftruncate,truncate,fallocate,fsync,fdatasync}; EVERY mutating syscall between the first and last access to the git dir is a crash point: state restored, worker re-run with SIGKILL injected on entry to that syscall. Read-only opens and fsyncs are skipped (killing before them is the same state as killing before the next mutating syscall); of a run of consecutive writes into one *.lock file or one reflog only the first and the last are crash points (the states in between differ only in the content of the left-over lock file / the partially appended reflog line, which the oracle does not look at). Non-trivial: at least one crash point inside the transaction; distinct by hash of the decoded scenario.");
    ck.assume(&format!(
        "{} (for-each-ref, symbolic-ref --no-recurse, rev-parse --verify) reads the repository after every kill; strace delivers SIGKILL on entry to the k-th invocation of a named syscall (the syscall is not executed); DESIGN 2.8's `inject=<set>:when=N` does NOT address the N-th syscall of the set, because strace keeps one counter per syscall name",
        Git::version()
    ));
    ck.assume("process death only (no power loss / fsync reordering); multi-ref transactions are atomic per ref, not across refs (documented); reflog files may show a partially appended last line (not claimed by the property, labelled `reflog-partially-appended`); transactions that run into a directory/file conflict are discarded (commit may fail half way by documentation); the class of the known C16 finding `remove-loose-mode-loses-unpackable-ref` is generated in mode DeletionsAndNonSymbolicUpdates instead");
    ck.sub(
        "crash-points",
        SubCfg::new(160, 3_000).max_len(256).max_shrink(12).max_discard_pct(35),
        crash_points,
    );
    ck.finish();
}
