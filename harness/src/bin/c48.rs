//! C48 — revision specs resolve like `git rev-parse`.
//!
//! One case = one generated repository (a "world") plus ~80 generated revision specs.
//! World (built with one `git fast-import`, one `update-ref --stdin`, one `update-index --index-info`, reflogs/HEAD/
//! config written directly): a DAG of 2..12 commits (merges with up to 3 parents, several roots, distinct committer
//! times in random order w.r.t. topology, multi-line messages from a small word pool), trees with files and nested
//! directories, several hundred filler blobs (so that 4-hex prefixes collide), branches (incl. hierarchical names,
//! hex-looking names equal to an object prefix, a branch and a tag of the same name), lightweight / annotated /
//! nested tags, tags of trees and blobs, a remote-tracking branch with upstream configuration, reflogs for HEAD and
//! branches with several entries (incl. `checkout: moving from A to B` lines), an index with stage 0..3 entries.
//! Specs are composed from a grammar over the world's names, see `gen_spec`.
//! Oracle: `git rev-parse <spec> --` (one process per range-like / reflog / sibling spec); plain single-object specs
//! are resolved through one `git cat-file --batch-check` process per world (the same `get_oid_with_context()`), with
//! two of them per world cross-checked against `rev-parse`. gitoxide: `Repository::rev_parse(spec)` mapped to the
//! lines git prints. Sub-check `world` counts specs in known deviation classes and goes on; sub-check `pinned`
//! replays the pinned known findings and reports the class selected by the byte that follows the case on the tape.
use bstr::ByteSlice;
use std::collections::{BTreeMap, HashSet};
use std::fmt::Write as _;
use vp::*;

const WORDS: &[&str] = &["fix", "add", "foo", "bar", "a.c", "x+y", "Fix", "merge", "b*", "(r)"];
const FILES: &[&str] = &["a", "b", "d/x", "d/e/y", "f g", "d/z"];
const BRANCHES: &[&str] = &["main", "dev", "feat/x", "v1", "rel-1"];

#[derive(Clone, Debug, Hash)]
struct CommitSpec {
    parents: Vec<usize>,
    time: i64,
    msg: String,
    /// (file index, content index)
    files: Vec<(usize, usize)>,
}

#[derive(Clone, Debug, Hash)]
struct RefLogSpec {
    /// ref name (`HEAD` or full name)
    name: String,
    /// sequence of (commit index, message kind)
    entries: Vec<(usize, u8)>,
    /// break the old/new chain at this entry (a "gap")
    gap_at: Option<usize>,
}

#[derive(Clone, Debug, Hash)]
struct WorldSpec {
    commits: Vec<CommitSpec>,
    /// (branch name, commit index)
    branches: Vec<(String, usize)>,
    /// lightweight tags (name, commit)
    light_tags: Vec<(String, usize)>,
    /// annotated tags (name, target commit)
    ann_tags: Vec<(String, usize)>,
    /// nested tag `nest` -> annotated tag 0
    nested_tag: bool,
    tree_and_blob_tags: bool,
    /// branch named like an abbreviated id of commit `.0`, pointing at commit `.1`, using `.2` hex digits
    hex_branch: Option<(usize, usize, usize)>,
    /// HEAD: Ok(branch index) or Err(commit index) for a detached HEAD
    head: Result<usize, usize>,
    upstream: bool,
    reflogs: Vec<RefLogSpec>,
    filler_blobs: usize,
    /// index: stage entries for conflict path
    conflict: bool,
}

fn gen_world(t: &mut Tape) -> WorldSpec {
    let n = t.range(2, 12);
    let mut commits: Vec<CommitSpec> = Vec::new();
    // distinct times: a permutation-like assignment
    let mut times: Vec<i64> = (0..n as i64).map(|i| 1_000_000 + i * 100).collect();
    if t.chance(100) {
        // shuffle (Fisher-Yates with tape bytes)
        for i in (1..times.len()).rev() {
            let j = t.below(i + 1);
            times.swap(i, j);
        }
    }
    for i in 0..n {
        let nparents = if i == 0 {
            0
        } else {
            match t.weighted(&[2, 14, 5, 2]) {
                0 => 0,
                1 => 1,
                2 => 2,
                _ => 3,
            }
        };
        let mut parents = Vec::new();
        for k in 0..nparents.min(i) {
            let p = if k == 0 && t.chance(170) { i - 1 } else { t.below(i) };
            if !parents.contains(&p) {
                parents.push(p);
            }
        }
        let nwords = t.range(1, 3);
        let mut msg = String::new();
        for w in 0..nwords {
            if w > 0 {
                msg.push(' ');
            }
            msg.push_str(WORDS[t.below(WORDS.len())]);
        }
        if t.chance(90) {
            msg.push_str("\n\n");
            msg.push_str(WORDS[t.below(WORDS.len())]);
            msg.push_str(" body");
        }
        msg.push('\n');
        let nfiles = t.range(1, 4);
        let mut files = Vec::new();
        for _ in 0..nfiles {
            let f = t.below(FILES.len());
            // `d/x` style paths conflict with nothing in FILES (no file is a prefix directory of another)
            if !files.iter().any(|(g, _)| *g == f) {
                files.push((f, t.below(6)));
            }
        }
        commits.push(CommitSpec { parents, time: times[i], msg, files });
    }
    let nb = t.range(1, 4);
    let mut branches: Vec<(String, usize)> = vec![("main".to_string(), t.below(n))];
    for _ in 1..nb {
        let name = BRANCHES[t.below(BRANCHES.len())].to_string();
        if !branches.iter().any(|(b, _)| *b == name) {
            branches.push((name, t.below(n)));
        }
    }
    let mut light_tags = Vec::new();
    if t.chance(160) {
        light_tags.push(("lw".to_string(), t.below(n)));
    }
    let mut ann_tags = vec![("v1".to_string(), t.below(n))];
    if t.chance(128) {
        ann_tags.push(("v2.0".to_string(), t.below(n)));
    }
    let nested_tag = t.chance(140);
    let tree_and_blob_tags = t.chance(160);
    let hex_branch = if t.chance(110) { Some((t.below(n), t.below(n), t.range(4, 8))) } else { None };
    let head = if t.chance(48) { Err(t.below(n)) } else { Ok(t.below(branches.len())) };
    let upstream = t.chance(160);
    let mut reflogs = Vec::new();
    // HEAD reflog with checkouts
    if t.chance(220) {
        let k = t.range(1, 6);
        let entries = (0..k).map(|_| (t.below(n), t.below(4) as u8)).collect();
        reflogs.push(RefLogSpec { name: "HEAD".into(), entries, gap_at: None });
    }
    for (b, _) in branches.iter() {
        if t.chance(150) {
            let k = t.range(1, 5);
            let entries: Vec<(usize, u8)> = (0..k).map(|_| (t.below(n), 0)).collect();
            // reflogs with gaps (old value != previous new value) are kept out of the domain: git then reads the
            // *old* value of the following entry (and warns), a reflog no git command produces
            let gap_at = None;
            reflogs.push(RefLogSpec { name: format!("refs/heads/{b}"), entries, gap_at });
        }
    }
    let filler_blobs = *t.pick(&[0usize, 200, 600, 900]);
    let conflict = t.chance(128);
    WorldSpec {
        commits,
        branches,
        light_tags,
        ann_tags,
        nested_tag,
        tree_and_blob_tags,
        hex_branch,
        head,
        upstream,
        reflogs,
        filler_blobs,
        conflict,
    }
}

struct Built {
    world: World,
    /// commit ids by index
    commit_ids: Vec<String>,
    /// ids of annotated tag objects by name
    tag_ids: BTreeMap<String, String>,
    /// (id, kind) of every object
    objects: Vec<(String, String)>,
    /// all names usable as the start of a spec
    names: Vec<String>,
    /// names for reflog lookups
    reflog_names: Vec<String>,
    /// parents by commit id
    parents: BTreeMap<String, Vec<String>>,
    /// 4..6-hex prefixes shared by at least two objects
    ambiguous_prefixes: Vec<String>,
}

fn build(spec: &WorldSpec) -> Result<Built, String> {
    let world = World::new("c48", false)?;
    let git = &world.git;
    let git_dir = world.git_dir();
    // ---- fast-import stream
    let mut s = String::new();
    for content in 0..6 {
        let data = format!("content {content}\n");
        write!(s, "blob\nmark :{}\ndata {}\n{}", 1 + content, data.len(), data).unwrap();
    }
    for i in 0..spec.filler_blobs {
        let data = format!("filler {i}");
        write!(s, "blob\ndata {}\n{}\n", data.len(), data).unwrap();
    }
    // files accumulate along the first parent
    let mut trees: Vec<BTreeMap<usize, usize>> = Vec::new();
    for (i, c) in spec.commits.iter().enumerate() {
        let mut tree = c.parents.first().map(|p| trees[*p].clone()).unwrap_or_default();
        for (f, content) in &c.files {
            tree.insert(*f, *content);
        }
        write!(s, "commit refs/heads/tmp-{i}\nmark :{}\n", 100 + i).unwrap();
        write!(s, "author A U Thor <a@example.com> {} +0000\n", c.time).unwrap();
        write!(s, "committer C O Mitter <c@example.com> {} +0000\n", c.time).unwrap();
        write!(s, "data {}\n{}", c.msg.len(), c.msg).unwrap();
        for (k, p) in c.parents.iter().enumerate() {
            write!(s, "{} :{}\n", if k == 0 { "from" } else { "merge" }, 100 + p).unwrap();
        }
        s.push_str("deleteall\n");
        for (f, content) in &tree {
            let path = FILES[*f];
            let quoted = if path.contains(' ') { format!("\"{path}\"") } else { path.to_string() };
            write!(s, "M 100644 :{} {}\n", 1 + content, quoted).unwrap();
        }
        s.push('\n');
        trees.push(tree);
    }
    for (i, (name, target)) in spec.ann_tags.iter().enumerate() {
        let msg = format!("tag {name}\n");
        write!(
            s,
            "tag {name}\nmark :{}\nfrom :{}\ntagger T Agger <t@example.com> {} +0000\ndata {}\n{}",
            200 + i,
            100 + target,
            2_000_000 + i,
            msg.len(),
            msg
        )
        .unwrap();
    }
    if spec.nested_tag {
        write!(
            s,
            "tag nest\nmark :250\nfrom :200\ntagger T Agger <t@example.com> 2000100 +0000\ndata 5\nnest\n"
        )
        .unwrap();
    }
    let marks = world.scratch.join("marks");
    git.run_in(
        [
            std::ffi::OsString::from("fast-import"),
            "--quiet".into(),
            format!("--export-marks={}", marks.display()).into(),
        ],
        Some(s.as_bytes()),
    )?;
    let marks_txt = std::fs::read_to_string(&marks).map_err(|e| format!("marks: {e}"))?;
    let mut by_mark: BTreeMap<usize, String> = BTreeMap::new();
    for l in marks_txt.lines() {
        if let Some((m, id)) = l.split_once(' ') {
            if let Ok(m) = m.trim_start_matches(':').parse::<usize>() {
                by_mark.insert(m, id.to_string());
            }
        }
    }
    let commit_ids: Vec<String> = (0..spec.commits.len())
        .map(|i| by_mark.get(&(100 + i)).cloned().ok_or_else(|| format!("no mark for commit {i}")))
        .collect::<Result<_, _>>()?;
    let mut tag_ids = BTreeMap::new();
    for (i, (name, _)) in spec.ann_tags.iter().enumerate() {
        tag_ids.insert(name.clone(), by_mark.get(&(200 + i)).cloned().ok_or("no tag mark")?);
    }
    if spec.nested_tag {
        tag_ids.insert("nest".into(), by_mark.get(&250).cloned().ok_or("no nested tag mark")?);
    }
    let all = git.run(["cat-file", "--batch-all-objects", "--batch-check=%(objectname) %(objecttype)"])?;
    let objects: Vec<(String, String)> = String::from_utf8_lossy(&all)
        .lines()
        .filter_map(|l| l.split_once(' ').map(|(a, b)| (a.to_string(), b.to_string())))
        .collect();
    let first_tree = objects.iter().find(|(_, k)| k == "tree").map(|(id, _)| id.clone());
    let first_blob = by_mark.get(&1).cloned();

    // ---- refs
    let mut u = String::new();
    let mut names: Vec<String> = vec!["HEAD".into(), "@".into()];
    for i in 0..spec.commits.len() {
        write!(u, "delete refs/heads/tmp-{i}\n").unwrap();
    }
    for (name, target) in &spec.branches {
        write!(u, "create refs/heads/{name} {}\n", commit_ids[*target]).unwrap();
        names.push(name.clone());
        names.push(format!("heads/{name}"));
        names.push(format!("refs/heads/{name}"));
    }
    for (name, target) in &spec.light_tags {
        write!(u, "create refs/tags/{name} {}\n", commit_ids[*target]).unwrap();
        names.push(name.clone());
    }
    for (name, _) in &spec.ann_tags {
        names.push(name.clone());
        names.push(format!("tags/{name}"));
        names.push(format!("refs/tags/{name}"));
    }
    if spec.nested_tag {
        names.push("nest".into());
    }
    if spec.tree_and_blob_tags {
        if let (Some(tree), Some(blob)) = (&first_tree, &first_blob) {
            write!(u, "create refs/tags/t-tree {tree}\ncreate refs/tags/t-blob {blob}\n").unwrap();
            names.push("t-tree".into());
            names.push("t-blob".into());
        }
    }
    if let Some((like, target, len)) = spec.hex_branch {
        let name = &commit_ids[like][..len];
        if !spec.branches.iter().any(|(b, _)| b == name) {
            write!(u, "create refs/heads/{name} {}\n", commit_ids[target]).unwrap();
            names.push(name.to_string());
        }
    }
    if spec.upstream {
        write!(u, "create refs/remotes/origin/main {}\n", commit_ids[0]).unwrap();
        names.push("origin/main".into());
        names.push("remotes/origin/main".into());
    }
    git.run_in(["update-ref", "--stdin"], Some(u.as_bytes()))?;

    // ---- HEAD
    let head_ref = match spec.head {
        Ok(b) => {
            let name = &spec.branches[b.min(spec.branches.len() - 1)].0;
            std::fs::write(git_dir.join("HEAD"), format!("ref: refs/heads/{name}\n")).map_err(|e| e.to_string())?;
            Some(format!("refs/heads/{name}"))
        }
        Err(c) => {
            std::fs::write(git_dir.join("HEAD"), format!("{}\n", commit_ids[c])).map_err(|e| e.to_string())?;
            None
        }
    };
    let _ = head_ref;
    // ---- config
    if spec.upstream {
        let mut cfg = std::fs::read_to_string(git_dir.join("config")).map_err(|e| e.to_string())?;
        cfg.push_str("[remote \"origin\"]\n\turl = /nonexistent/origin\n\tfetch = +refs/heads/*:refs/remotes/origin/*\n[branch \"main\"]\n\tremote = origin\n\tmerge = refs/heads/main\n");
        std::fs::write(git_dir.join("config"), cfg).map_err(|e| e.to_string())?;
    }
    // ---- reflogs (replace what the commands above wrote)
    let _ = std::fs::remove_dir_all(git_dir.join("logs"));
    let mut reflog_names = Vec::new();
    let null = "0".repeat(40);
    for rl in &spec.reflogs {
        let mut out = String::new();
        let mut prev = null.clone();
        for (k, (c, kind)) in rl.entries.iter().enumerate() {
            let new = &commit_ids[*c];
            let old = if rl.gap_at == Some(k) { commit_ids[(*c + 1) % commit_ids.len()].clone() } else { prev.clone() };
            let msg = match (rl.name.as_str(), kind) {
                ("HEAD", 1) => {
                    let from = &spec.branches[k % spec.branches.len()].0;
                    let to = &spec.branches[(k + 1) % spec.branches.len()].0;
                    format!("checkout: moving from {from} to {to}")
                }
                // a detached HEAD is left: the "from" text is the previous value of HEAD (as git writes it)
                ("HEAD", 2) if old != null => format!("checkout: moving from {old} to main"),
                ("HEAD", 3) => "checkout: moving from gone-branch to main".to_string(),
                _ => format!("commit: entry {k}"),
            };
            write!(out, "{old} {new} C O Mitter <c@example.com> {} +0000\t{msg}\n", 3_000_000 + k * 60).unwrap();
            prev = new.clone();
        }
        let p = git_dir.join("logs").join(&rl.name);
        if let Some(d) = p.parent() {
            std::fs::create_dir_all(d).map_err(|e| e.to_string())?;
        }
        std::fs::write(&p, out).map_err(|e| e.to_string())?;
        reflog_names.push(rl.name.clone());
        if let Some(short) = rl.name.strip_prefix("refs/heads/") {
            reflog_names.push(short.to_string());
        }
    }
    // ---- index
    let mut idx = String::new();
    if let Some(blob) = &first_blob {
        for (k, f) in FILES.iter().enumerate().take(4) {
            if spec.conflict && k == 1 {
                for stage in 1..=3 {
                    write!(idx, "100644 {} {stage}\t{f}\n", by_mark.get(&(1 + stage)).unwrap_or(blob)).unwrap();
                }
            } else {
                write!(idx, "100644 {} 0\t{f}\n", by_mark.get(&(1 + k)).unwrap_or(blob)).unwrap();
            }
        }
    }
    git.run_in(["update-index", "--index-info"], Some(idx.as_bytes()))?;

    let mut parents: BTreeMap<String, Vec<String>> = BTreeMap::new();
    for (i, c) in spec.commits.iter().enumerate() {
        parents.insert(commit_ids[i].clone(), c.parents.iter().map(|p| commit_ids[*p].clone()).collect());
    }
    // tag objects peel to their commit for `^@`/`^!` (git prints the tag id itself, then the commit's parents)
    for (i, (name, target)) in spec.ann_tags.iter().enumerate() {
        if let Some(id) = tag_ids.get(name) {
            let p = parents.get(&commit_ids[*target]).cloned().unwrap_or_default();
            parents.insert(id.clone(), p.clone());
            if i == 0 && spec.nested_tag {
                if let Some(nest) = tag_ids.get("nest") {
                    parents.insert(nest.clone(), p);
                }
            }
        }
    }
    let mut ambiguous_prefixes = Vec::new();
    {
        let mut ids: Vec<&str> = objects.iter().map(|(id, _)| id.as_str()).collect();
        ids.sort();
        for w in ids.windows(2) {
            let common = w[0].bytes().zip(w[1].bytes()).take_while(|(a, b)| a == b).count();
            if common >= 4 {
                ambiguous_prefixes.push(w[0][..common.min(6)].to_string());
            }
        }
        ambiguous_prefixes.dedup();
    }
    Ok(Built { world, commit_ids, tag_ids, objects, names, reflog_names, parents, ambiguous_prefixes })
}

/// features of a generated spec (for labels and signatures)
#[derive(Default, Clone, Debug)]
struct Features {
    list: Vec<&'static str>,
    nav_ops: usize,
    /// a single-object spec (no range/exclusion/parent shorthand): resolvable through `cat-file --batch-check`
    single: bool,
}
impl Features {
    fn add(&mut self, f: &'static str) {
        if !self.list.contains(&f) {
            self.list.push(f);
        }
    }
}

fn gen_regex(t: &mut Tape, f: &mut Features) -> String {
    f.add("regex");
    let w = WORDS[t.below(WORDS.len())];
    match t.weighted(&[6, 2, 2, 2, 1, 1, 1, 1]) {
        0 => w.chars().filter(|c| c.is_ascii_alphanumeric()).collect(),
        1 => {
            f.add("regex-anchor");
            format!("^{}", w.chars().filter(|c| c.is_ascii_alphanumeric()).collect::<String>())
        }
        2 => {
            f.add("regex-meta");
            w.to_string()
        }
        3 => {
            f.add("regex-meta");
            "f.x".into()
        }
        4 => {
            f.add("regex-meta");
            "[fF]ix".into()
        }
        5 => {
            f.add("regex-anchor");
            "body$".into()
        }
        6 => {
            f.add("regex-negated");
            format!("!-{}", w.chars().filter(|c| c.is_ascii_alphanumeric()).collect::<String>())
        }
        _ => "nomatch".into(),
    }
}

fn gen_path(t: &mut Tape) -> String {
    match t.weighted(&[8, 2, 1, 1, 1, 1]) {
        0 => FILES[t.below(FILES.len())].to_string(),
        1 => "d".into(),
        2 => "d/e".into(),
        3 => "missing".into(),
        4 => String::new(),
        _ => "d/".into(),
    }
}

fn gen_single(t: &mut Tape, b: &Built, f: &mut Features) -> String {
    let mut s = match t.weighted(&[12, 5, 3, 2, 6, 2, 2, 2, 2]) {
        0 => b.names[t.below(b.names.len())].clone(),
        1 => {
            // abbreviated or full id of some object
            f.add("hex");
            let (id, kind) = &b.objects[t.below(b.objects.len())];
            // prefer non-blob objects
            let id = if kind == "blob" && t.chance(200) { &b.commit_ids[t.below(b.commit_ids.len())] } else { id };
            let len = *t.pick(&[4usize, 5, 7, 8, 12, 40, 40, 3, 39]);
            if len < 4 {
                f.add("hex-too-short");
            }
            id[..len].to_string()
        }
        2 => {
            if b.ambiguous_prefixes.is_empty() {
                b.commit_ids[t.below(b.commit_ids.len())][..7].to_string()
            } else {
                f.add("hex-ambiguous");
                b.ambiguous_prefixes[t.below(b.ambiguous_prefixes.len())].clone()
            }
        }
        3 => {
            f.add("describe");
            let id = &b.commit_ids[t.below(b.commit_ids.len())];
            let len = *t.pick(&[4usize, 7, 10]);
            if b.names.iter().any(|n| *n == id[..len]) {
                // a branch is called like the hex part: see the known class of that name
                f.add("describe-hex-is-ref-name");
            }
            match t.below(4) {
                0 => format!("v1-{}-g{}", t.below(5), &id[..len]),
                1 => format!("anything-g{}", &id[..len]),
                2 => {
                    f.add("describe-with-suffix");
                    format!("v2.0-1-g{}-dirty", &id[..len])
                }
                _ => {
                    f.add("describe-with-suffix");
                    format!("{}-dirty", &id[..len])
                }
            }
        }
        4 => {
            f.add("reflog");
            let n = t.weighted(&[4, 4, 3, 2, 1, 1]);
            let name = if b.reflog_names.is_empty() || t.chance(80) {
                match t.below(3) {
                    0 => String::new(),
                    1 => "HEAD".into(),
                    _ => b.names[t.below(b.names.len())].clone(),
                }
            } else {
                b.reflog_names[t.below(b.reflog_names.len())].clone()
            };
            format!("{name}@{{{n}}}")
        }
        5 => {
            f.add("prior-checkout");
            format!("@{{-{}}}", t.range(1, 4))
        }
        6 => {
            f.add("sibling");
            let name = match t.below(4) {
                0 => String::new(),
                1 => "main".into(),
                2 => "HEAD".into(),
                _ => b.names[t.below(b.names.len())].clone(),
            };
            format!("{name}@{{{}}}", t.pick(&["u", "upstream", "push", "UPSTREAM"]))
        }
        7 => {
            f.add("top-level-regex");
            let r = gen_regex(t, f);
            return format!(":/{r}");
        }
        _ => {
            f.add("index");
            let p = gen_path(t);
            return match t.weighted(&[4, 1, 1, 1, 1]) {
                0 => format!(":{p}"),
                1 => format!(":0:{p}"),
                2 => format!(":1:{p}"),
                3 => format!(":2:{p}"),
                _ => {
                    f.add("index-stage-3");
                    format!(":3:{p}")
                }
            };
        }
    };
    let nnav = t.weighted(&[6, 6, 4, 2, 1]);
    for _ in 0..nnav {
        f.nav_ops += 1;
        match t.weighted(&[5, 5, 2, 8, 3, 3]) {
            0 => {
                f.add("tilde");
                match t.weighted(&[3, 5, 1]) {
                    0 => s.push('~'),
                    1 => write!(s, "~{}", t.below(5)).unwrap(),
                    _ => s.push_str("~~"),
                }
            }
            1 => {
                f.add("caret");
                match t.weighted(&[3, 5, 1]) {
                    0 => s.push('^'),
                    1 => write!(s, "^{}", t.below(4)).unwrap(),
                    _ => s.push_str("^^"),
                }
            }
            2 => {
                f.add("peel");
                s.push_str("^{}");
            }
            3 => {
                f.add("peel");
                write!(s, "^{{{}}}", t.pick(&["commit", "tree", "tag", "blob", "object", "commit", "tree"])).unwrap();
            }
            4 => {
                f.add("nav-regex");
                let r = gen_regex(t, f);
                write!(s, "^{{/{r}}}").unwrap();
            }
            _ => {
                f.add("path");
                let p = gen_path(t);
                write!(s, ":{p}").unwrap();
                break;
            }
        }
    }
    s
}

fn gen_spec(t: &mut Tape, b: &Built) -> (String, Features) {
    let mut f = Features::default();
    let s = match t.weighted(&[36, 3, 2, 1, 1, 2, 1, 1, 1]) {
        0 => {
            f.single = true;
            gen_single(t, b, &mut f)
        }
        1 => {
            f.add("range");
            format!("{}..{}", gen_single(t, b, &mut f), gen_single(t, b, &mut f))
        }
        2 => {
            f.add("symmetric");
            format!("{}...{}", gen_single(t, b, &mut f), gen_single(t, b, &mut f))
        }
        3 => {
            f.add("range");
            format!("..{}", gen_single(t, b, &mut f))
        }
        4 => {
            f.add("range");
            format!("{}..", gen_single(t, b, &mut f))
        }
        5 => {
            f.add("exclude");
            format!("^{}", gen_single(t, b, &mut f))
        }
        6 => {
            f.add("parents-only");
            format!("{}^@", gen_single(t, b, &mut f))
        }
        7 => {
            f.add("exclude-parents");
            format!("{}^!", gen_single(t, b, &mut f))
        }
        _ => {
            f.add("minus-parent");
            let n = t.below(4);
            let single = gen_single(t, b, &mut f);
            // anything but a plain name or hex id in front of `^-`: see known class of the same name
            if !(b.names.contains(&single) || single.bytes().all(|c| c.is_ascii_hexdigit())) {
                f.add("minus-parent-after-navigation");
            }
            if n == 0 {
                format!("{single}^-")
            } else {
                format!("{single}^-{n}")
            }
        }
    };
    if s.contains("~0") {
        f.add("tilde-zero");
    }
    // git splits range syntax off first and resolves both sides separately; a `:`-form (`:/re`, `:path`, `rev:path`)
    // on the left then ends at the range operator
    if !f.single {
        let left_end = s.find("..").or_else(|| s.rfind("^@")).or_else(|| s.rfind("^!")).or_else(|| s.rfind("^-"));
        if left_end.map_or(false, |e| s[..e].contains(':')) {
            f.add("colon-form-before-range-syntax");
        }
    }
    (s, f)
}

/// Systematic specs for a world: peel / parent / ancestor operators on every name, reflog entries of every logged
/// ref, and the range forms on the first two branches.
fn battery(b: &Built) -> Vec<(String, Features)> {
    let mut out = Vec::new();
    let mut names: Vec<&String> = b.names.iter().filter(|n| n.as_str() != "@").collect();
    names.dedup();
    for n in names {
        for (suffix, feature) in [
            ("^{}", "peel"),
            ("^0", "caret"),
            ("~1", "tilde"),
            ("^2", "caret"),
            ("^3", "caret"),
            ("^{tree}", "peel"),
            ("^{tag}", "peel"),
        ] {
            let mut f = Features { single: true, nav_ops: 1, ..Default::default() };
            f.add("battery");
            f.add(feature);
            out.push((format!("{n}{suffix}"), f));
        }
    }
    for r in &b.reflog_names {
        for n in [0, 1] {
            let mut f = Features::default();
            f.add("battery");
            f.add("reflog");
            out.push((format!("{r}@{{{n}}}"), f));
        }
    }
    let branches: Vec<&String> = b.names.iter().filter(|n| n.starts_with("refs/heads/")).take(2).collect();
    if let [a, rest @ ..] = branches.as_slice() {
        let other = rest.first().copied().unwrap_or(a);
        for (spec, feature) in [
            (format!("{a}..{other}"), "range"),
            (format!("{a}...{other}"), "symmetric"),
            (format!("{a}^@"), "parents-only"),
            (format!("{a}^!"), "exclude-parents"),
            (format!("{a}^-"), "minus-parent"),
        ] {
            let mut f = Features::default();
            f.add("battery");
            f.add(feature);
            out.push((spec, f));
        }
    }
    out
}

/// what either side answers: the printed lines, or failure
#[derive(Debug, PartialEq, Eq, Clone)]
enum Outcome {
    Lines(Vec<String>),
    /// `A...B`: first two lines only (git adds the negated merge bases, gitoxide does not compute them)
    Symmetric(String, String),
    Fail(String),
}

fn git_outcome(git: &Git, spec: &str) -> Result<Outcome, String> {
    let (ok, out, err) = git.try_run(["rev-parse", spec, "--"], None)?;
    if !ok {
        return Ok(Outcome::Fail(String::from_utf8_lossy(&err).trim().to_string()));
    }
    let mut lines: Vec<String> = String::from_utf8_lossy(&out).lines().map(str::to_string).collect();
    if lines.last().map(String::as_str) == Some("--") {
        lines.pop();
    } else {
        return Err(format!("unexpected rev-parse output {lines:?}"));
    }
    Ok(Outcome::Lines(lines))
}

/// Resolve many single-object specs with one `git cat-file --batch-check` process. It uses the same
/// `get_oid_with_context()` as `git rev-parse <spec>`; a sample is cross-checked against `rev-parse` by the caller.
fn git_batch(git: &Git, specs: &[&str]) -> Result<Vec<Outcome>, String> {
    if specs.is_empty() {
        return Ok(Vec::new());
    }
    let mut input = String::new();
    for s in specs {
        input.push_str(s);
        input.push('\n');
    }
    let out = git.run_in(["cat-file", "--batch-check=%(objectname)"], Some(input.as_bytes()))?;
    let lines: Vec<String> = String::from_utf8_lossy(&out).lines().map(str::to_string).collect();
    if lines.len() != specs.len() {
        return Err(format!("cat-file printed {} lines for {} specs", lines.len(), specs.len()));
    }
    Ok(lines
        .into_iter()
        .map(|l| {
            if l.len() == 40 && l.bytes().all(|b| b.is_ascii_hexdigit()) {
                Outcome::Lines(vec![l])
            } else {
                Outcome::Fail(l)
            }
        })
        .collect())
}

fn gix_outcome(repo: &gix::Repository, spec: &str, parents: &BTreeMap<String, Vec<String>>) -> Outcome {
    use gix::revision::plumbing::Spec;
    match repo.rev_parse(spec.as_bytes().as_bstr()) {
        Err(e) => Outcome::Fail(e.to_string()),
        Ok(s) => match s.detach() {
            Spec::Include(id) => Outcome::Lines(vec![id.to_string()]),
            Spec::Exclude(id) => Outcome::Lines(vec![format!("^{id}")]),
            Spec::Range { from, to } => Outcome::Lines(vec![to.to_string(), format!("^{from}")]),
            Spec::Merge { theirs, ours } => Outcome::Symmetric(theirs.to_string(), ours.to_string()),
            Spec::IncludeOnlyParents(id) => {
                Outcome::Lines(parents.get(&id.to_string()).cloned().unwrap_or_else(|| vec![format!("not-a-commit {id}")]))
            }
            Spec::ExcludeParents(id) => {
                let mut l = vec![id.to_string()];
                match parents.get(&id.to_string()) {
                    Some(p) => l.extend(p.iter().map(|p| format!("^{p}"))),
                    None => l.push(format!("not-a-commit {id}")),
                }
                Outcome::Lines(l)
            }
        },
    }
}

/// `A...B`, `A^@`, `A^!` need commits (tags are peeled); gitoxide returns whatever object the side resolved to.
fn shorthand_on_non_commit(gix: &Outcome, parents: &BTreeMap<String, Vec<String>>) -> bool {
    match gix {
        Outcome::Symmetric(a, b) => !parents.contains_key(a) || !parents.contains_key(b),
        Outcome::Lines(l) => l.iter().any(|l| l.starts_with("not-a-commit ")),
        Outcome::Fail(_) => false,
    }
}

fn agree(git: &Outcome, gix: &Outcome) -> bool {
    match (git, gix) {
        (Outcome::Fail(_), Outcome::Fail(_)) => true,
        (Outcome::Lines(a), Outcome::Lines(b)) => a == b,
        // `A...B` is printed as B, A, ^merge-bases
        (Outcome::Lines(a), Outcome::Symmetric(theirs, ours)) => {
            a.len() >= 2 && a[0] == *ours && a[1] == *theirs && a[2..].iter().all(|l| l.starts_with('^'))
        }
        _ => false,
    }
}

/// git quirks outside the grammar: when peeling fails, `get_oid_1()` retries the *whole* string as a plain name, and
/// (a) `…@{<anything>}` is then read as a reflog *date* (approxidate accepts any garbage, e.g. `1}^{blob`), which
/// resolves to some reflog entry, (b) `<anything>-g<hex>` is read as `git describe` output. Both only matter when git
/// resolves and gitoxide (which does not implement reflog dates) fails.
fn git_fallback_quirk(spec: &str, git: &Outcome, gix: &Outcome) -> bool {
    // (c) `A...B` with a non-commit side: git prints both sides, notices, and then parses the whole string again;
    //     when that succeeds (`<anything>-g<hex>[:path]` read as describe output) the output is two stray lines
    //     plus the fallback result, or just the fallback result for `A..B`
    if let Outcome::Lines(l) = git {
        let has_describe_token = spec.match_indices("-g").any(|(p, _)| {
            let rest = &spec[p + 2..];
            let hex = rest.bytes().take_while(u8::is_ascii_hexdigit).count();
            hex >= 4
        });
        let range_like = spec.contains("..");
        // three lines without a negated merge base: two stray lines of a failed `A...B` plus the whole-string fallback
        // (reached through describe output or a reflog date, see above)
        if range_like && l.len() == 3 && !l[2].starts_with('^') {
            return true;
        }
        // `A..B` / `A...B` always print at least two lines: a single line means the whole string was resolved as one
        // revision by one of the fallbacks
        if range_like && l.len() == 1 {
            return true;
        }
        let _ = has_describe_token;
    }
    if !matches!(git, Outcome::Lines(_)) || !matches!(gix, Outcome::Fail(_)) {
        return false;
    }
    let sides: Vec<&str> = if let Some((a, b)) = spec.split_once("...") {
        vec![a, b, spec]
    } else if let Some((a, b)) = spec.split_once("..") {
        vec![a, b, spec]
    } else {
        vec![spec]
    };
    sides.iter().any(|side| {
        let side = side.trim_start_matches('^');
        // strip range-ish suffixes handled before get_oid()
        let side = side.trim_end_matches("^@").trim_end_matches("^!");
        // (at any nesting level: `X@{1}^{tag}^` first strips `^`, then fails to peel, then reads `1}^{tag` as a date)
        let date_garbage = side.find("@{").map_or(false, |at| side[at + 2..].contains("^{") || side[at + 2..].contains("@{"));
        let describe_tail = side
            .rfind("-g")
            .map_or(false, |p| side.len() - p - 2 >= 4 && side[p + 2..].bytes().all(|b| b.is_ascii_hexdigit()) && side[..p].contains(|c: char| "^~:@{".contains(c)));
        date_garbage || describe_tail
    })
}

/// Forms gitoxide itself reports as not implemented are not part of the compared grammar.
fn is_unimplemented(gix: &Outcome) -> bool {
    matches!(gix, Outcome::Fail(m) if m.contains("This feature will be implemented once"))
}

/// one-byte code (1..=250) of a signature, see the strict mode of `run_world`
fn focus_code(sig: &str) -> u8 {
    let mut h: u32 = 2166136261;
    for b in sig.bytes() {
        h = (h ^ b as u32).wrapping_mul(16777619);
    }
    (h % 250) as u8 + 1
}

fn load_known() -> HashSet<String> {
    let mut set = HashSet::new();
    if let Ok(txt) = std::fs::read_to_string("/verif/known_findings.json") {
        if let Ok(v) = serde_json::from_str::<serde_json::Value>(&txt) {
            for f in v["findings"].as_array().cloned().unwrap_or_default() {
                if f["property"] == "C48" && f["status"] == "known" {
                    if let Some(s) = f["signature"].as_str() {
                        set.insert(s.to_string());
                    }
                }
            }
        }
    }
    set
}

/// signature of a disagreement: direction + the most specific feature of the spec
fn signature(git: &Outcome, gix: &Outcome, f: &Features, tag_ids: &BTreeMap<String, String>) -> String {
    const PRIORITY: &[&str] = &[
        "colon-form-before-range-syntax",
        "describe-hex-is-ref-name",
        "minus-parent-after-navigation",
        "describe-with-suffix",
        "tilde-zero",
        "index-stage-3",
        "prior-checkout",
        "sibling",
        "reflog",
        "top-level-regex",
        "regex-negated",
        "regex-anchor",
        "regex-meta",
        "nav-regex",
        "regex",
        "index",
        "describe",
        "hex-ambiguous",
        "hex-too-short",
        "hex",
        "path",
        "minus-parent",
        "exclude-parents",
        "parents-only",
        "symmetric",
        "range",
        "exclude",
        "peel",
        "caret",
        "tilde",
    ];
    let feature = PRIORITY.iter().find(|p| f.list.contains(p)).copied().unwrap_or("name");
    let dir = match (git, gix) {
        (Outcome::Fail(_), _) => "git-fails-gix-resolves",
        (_, Outcome::Fail(m)) => {
            // known deviation class: `~n` / `^n` starting at an annotated tag object (the tag is not peeled first);
            // recognised by gitoxide complaining about an object which is one of the world's tag objects
            let about_a_tag = (m.contains("ancestors along the first parent") || m.contains("needed it to be a commit"))
                && m.split(|c: char| !c.is_ascii_hexdigit())
                    .filter(|w| w.len() >= 7)
                    .any(|w| tag_ids.values().any(|id| id.starts_with(w)));
            let about_a_tag = about_a_tag
                || m.contains("Expected object of kind commit but got tag")
                // an ambiguous prefix whose only commit-ish candidate is an annotated tag: navigating from the tag
                // fails, so the candidate is dropped and the prefix stays ambiguous
                || (m.contains("is ambiguous")
                    && m.contains(" tag ")
                    && f.list.iter().any(|l| matches!(*l, "tilde" | "caret" | "nav-regex")));
            if about_a_tag && !matches!(feature, "colon-form-before-range-syntax" | "tilde-zero" | "index-stage-3" | "describe-with-suffix") {
                return "navigation-from-annotated-tag-not-peeled".to_string();
            }
            if m.contains("while trying to peel to commit")
                && f.list.iter().any(|l| matches!(*l, "range" | "exclude"))
                && !about_a_tag
            {
                return "range-side-must-be-committish".to_string();
            }
            if m.contains("partially named \"@\"") {
                return "at-sign-as-name-before-at-brace".to_string();
            }
            if m.contains("Reflog entries require a ref name") {
                return "reflog-of-hex-looking-ref-name".to_string();
            }
            if m.contains("does not have a reference log") {
                return "name-at-n-resolves-ref-before-looking-for-its-log".to_string();
            }
            if m.contains("Unborn heads do not have a reflog yet") {
                return "at-reflog-on-detached-head-unsupported".to_string();
            }
            "git-resolves-gix-fails"
        }
        _ => "different-result",
    };
    if matches!(
        feature,
        "colon-form-before-range-syntax"
            | "tilde-zero"
            | "describe-with-suffix"
            | "minus-parent-after-navigation"
            | "describe-hex-is-ref-name"
    ) {
        // one class whatever the direction
        return feature.to_string();
    }
    format!("{dir}:{feature}")
}

/// One world and its specs. `strict`: a disagreement in a known deviation class fails the case with the class
/// signature (used for the pinned replays); otherwise such specs are counted and the search goes on behind them.
fn run_world(t: &mut Tape, c: &mut Case, strict: bool, known: &HashSet<String>) {
        let wspec = gen_world(t);
        let built = infra!(c, build(&wspec), "build world");
        let repo = infra!(
            c,
            gix::open_opts(built.world.repo(), gix::open::Options::isolated()).map_err(|e| e.to_string()),
            "open repository"
        );
        let nspecs = 80;
        let mut specs: Vec<(String, Features)> = Vec::new();
        for _ in 0..nspecs {
            specs.push(gen_spec(t, &built));
        }
        c.key(&(&wspec, specs.iter().map(|(s, _)| s.clone()).collect::<Vec<_>>()));
        // a fixed battery derived from the world alone (no tape bytes): the basic operators on every name
        specs.extend(battery(&built));
        let mut first_known: Option<(String, String)> = None;
        let mut all_known: Vec<(String, String)> = Vec::new();
        let hunt = std::env::var("VERIF_PIN_HUNT").ok();
        let mut hunted: Option<(String, String)> = None;
        let mut sample = Vec::new();
        let mut seen = HashSet::new();
        specs.retain(|(s, _)| seen.insert(s.clone()));
        // oracle: one batch process for the single-object specs, one `rev-parse` per range-like spec
        // (reflog and sibling-branch lookups die() inside git on failure, which would take the batch process down)
        for (_, f) in specs.iter_mut() {
            if f.list.iter().any(|l| matches!(*l, "reflog" | "sibling" | "prior-checkout")) {
                f.single = false;
            }
        }
        let singles: Vec<&str> = specs.iter().filter(|(_, f)| f.single).map(|(s, _)| s.as_str()).collect();
        let mut batch = match git_batch(&built.world.git, &singles) {
            Ok(b) => b,
            Err(_) => {
                // some other fatal error inside the batch process: ask one by one
                c.label("batch-oracle-fell-back-to-single-calls");
                let mut v = Vec::new();
                for s in &singles {
                    v.push(infra!(c, git_outcome(&built.world.git, s), "git rev-parse"));
                }
                v
            }
        }
        .into_iter();
        let mut cross_checked = 0;
        for (spec, f) in &specs {
            let git = if f.single {
                let Some(o) = batch.next() else {
                    c.infra("batch oracle ran out of answers");
                    return;
                };
                // cross-check the batch oracle against the command the property names
                if cross_checked < 2 && f.nav_ops >= 1 {
                    cross_checked += 1;
                    let direct = infra!(c, git_outcome(&built.world.git, spec), "git rev-parse");
                    if !agree(&direct, &o) && !(matches!(direct, Outcome::Fail(_)) && matches!(o, Outcome::Fail(_))) {
                        c.infra(format!("oracle inconsistency for {spec:?}: rev-parse {direct:?}, cat-file {o:?}"));
                        return;
                    }
                }
                o
            } else {
                infra!(c, git_outcome(&built.world.git, spec), "git rev-parse")
            };
            let gix = gix_outcome(&repo, spec, &built.parents);
            if is_unimplemented(&gix) {
                c.label("dropped-unimplemented-in-gitoxide");
                continue;
            }
            if git_fallback_quirk(spec, &git, &gix) {
                c.label("dropped-git-whole-string-fallback");
                continue;
            }
            for l in &f.list {
                c.label(l);
            }
            let nt = f.nav_ops >= 2
                || f.list.iter().any(|l| {
                    matches!(
                        *l,
                        "range" | "symmetric" | "exclude" | "parents-only" | "exclude-parents" | "minus-parent" | "reflog" | "prior-checkout" | "sibling"
                    )
                });
            c.label_if(nt, "nontrivial-spec");
            c.nontrivial(nt);
            c.label(match &git {
                Outcome::Fail(_) => "git-fails",
                _ => "git-resolves",
            });
            if sample.len() < 12 {
                sample.push(format!("{spec} => {git:?}"));
            }
            if !agree(&git, &gix) {
                let sig = if matches!(git, Outcome::Fail(_))
                    && matches!(gix, Outcome::Lines(_))
                    && f.list.contains(&"hex-ambiguous")
                {
                    // git uses only the operator directly attached to an ambiguous prefix as disambiguation hint, and only
                    // `^{commit}`/`^{tree}`/~n/^n/:path: `d3a5^{blob}`, `814d^{tag}`, `c778^{object}^{tree}` stay ambiguous;
                    // gitoxide narrows the candidates with every later step
                    "ambiguous-prefix-disambiguated-by-blob-or-tag-peel".to_string()
                } else if matches!(git, Outcome::Fail(_)) && shorthand_on_non_commit(&gix, &built.parents) {
                    "range-shorthand-accepts-non-commit".to_string()
                } else {
                    signature(&git, &gix, f, &built.tag_ids)
                };
                let msg = format!(
                    "spec {spec:?}: git {git:?}, gitoxide {gix:?}; world {wspec:?}; commits {:?} tags {:?}",
                    built.commit_ids, built.tag_ids
                );
                if known.contains(&sig) {
                    c.label("spec-in-known-deviation-class");
                    if hunt.as_deref() == Some(sig.as_str()) && hunted.is_none() {
                        hunted = Some((sig.clone(), msg.clone()));
                    }
                    if first_known.is_none() {
                        first_known = Some((sig.clone(), msg.clone()));
                    }
                    if !all_known.iter().any(|(k, _)| *k == sig) {
                        all_known.push((sig, msg));
                    }
                } else {
                    c.fail_sig(&sig, msg);
                    return;
                }
            }
        }
        c.sample_with(|| format!("{wspec:?}\n  {}", sample.join("\n  ")));
        // strict (pinned) mode: report a known class. Which one, when the world shows several, is selected by the
        // byte that follows the case on the tape (0 / no match: the first one met), so that every pinned case can name
        // its own class; the message says where that byte sits.
        if strict {
            let at = t.consumed().len() + 1;
            let focus = t.u8();
            let chosen = all_known.iter().find(|(sig, _)| focus_code(sig) == focus).or(all_known.first()).cloned();
            if let Some((sig, msg)) = chosen {
                c.fail_sig(&sig, format!("{msg} [focus byte {focus} at tape offset {}]", at.saturating_sub(1)));
            }
        }
        let _ = first_known;
        // author's aid for (re)creating pinned cases: VERIF_PIN_HUNT=<signature> reports that known class as `hunt:<sig>`
        if let (true, Some((sig, msg))) = (strict, hunted) {
            c.verdict = Verdict::Pass;
            c.fail_sig(&format!("hunt:{sig}"), msg);
        }
    }

pub fn main() {
    let mut ck = Check::new("C48", "exploration");
    ck.rule("One case = a generated repository (2..12 commits incl. merges/several roots, distinct commit times in random order, multi-line messages, nested trees, 0..900 filler blobs for colliding hex prefixes, branches incl. hex-looking and tag-shadowing names, lightweight/annotated/nested tags, tree and blob tags, upstream configuration, hand-written (gap-free) reflogs incl. checkout lines, index with conflict stages, attached or detached HEAD) plus 80 specs from the grammar and a fixed battery (every name x ^{} ^0 ~1 ^2 ^3 ^{tree} ^{tag}, every logged ref x @{0} @{1}, the five range forms on two branches): names in all short forms, full/abbreviated/ambiguous/too-short hex, describe names, @, name@{n}, @{-n}, @{u}/@{upstream}/@{push}, :/regex, :path, :n:path, then up to 4 of ~n ^n ^0 ^{type} ^{} ^{/regex} :path; ranges A..B A...B ..B A.. ^A A^@ A^! A^-n. Non-trivial: the case contains specs with >= 2 navigation/peel operators or range/reflog forms (counted per label). Distinct by hash of (world, specs).");
    ck.assume(&format!("oracle: `{} rev-parse <spec> --` (exit status and printed ids), single-object specs batched through `cat-file --batch-check` and sampled against rev-parse; for A...B only the two tips are compared (gitoxide does not compute the merge bases in rev_parse); specs where git only resolves through its whole-string fallbacks (`@{{<garbage>}}` read as a reflog date, `<anything>-g<hex>` read as describe output, stray output of a failed A...B) are dropped and counted", Git::version()));
    ck.assume("gitoxide is opened with isolated options; forms gitoxide reports as planned/unimplemented (reflog lookups by date) are not generated; commit times are distinct so that the youngest-first regex search order is well-defined; regexes are restricted to syntax with the same meaning in POSIX BRE (git) and the regex crate, except where labelled regex-meta/regex-anchor");

    let known = load_known();

    ck.sub("world", SubCfg::new(48, 1_500).max_len(2400).max_shrink(8), |t, c| run_world(t, c, false, &known));
    // replays of the pinned known findings (and one more random world) with known classes reported
    ck.sub("pinned", SubCfg::new(1, 4).max_len(2400).max_shrink(4), |t, c| run_world(t, c, true, &known));

    ck.finish();
}
