//! C33 — any URL gitoxide parses (URL form, scp-like form, local path) serializes to a string that parses back to an
//! equal URL.
use bstr::{BString, ByteSlice};
use gix_url::Scheme;
use vp::*;

fn cat(t: &mut Tape, lists: &[&[&str]], min: usize, max: usize) -> Vec<u8> {
    let n = t.range(min, max);
    let mut v = Vec::new();
    for _ in 0..n {
        let l = t.pick(lists);
        v.extend_from_slice(t.pick(l).as_bytes());
    }
    v
}

const PLAIN: &[&str] = &["a", "b", "git", "user", "x1", "Z", "0", "_", ".", "-", "~", "+"];
const PCT: &[&str] = &["%40", "%3A", "%3a", "%2F", "%25", "%20", "%00", "%0A", "%C3%A9", "%zz", "%", "%2"];
const RESERVED: &[&str] = &[" ", "\"", "<", ">", "^", "`", "{", "|", "}", "é", "日", "!", "$", "&", "'", "(", ")", "*", ",", ";", "=", "\\"];
const DELIMS: &[&str] = &["@", ":", "/", "?", "#", "[", "]"];
const WS: &[&str] = &[" ", "\t", "\n", "\r"];

fn userinfo(t: &mut Tape, out: &mut Vec<u8>) -> &'static str {
    let tok = |t: &mut Tape| match t.weighted(&[5, 3, 2, 1]) {
        0 => cat(t, &[PLAIN], 1, 3),
        1 => cat(t, &[PLAIN, PCT], 1, 4),
        2 => cat(t, &[PLAIN, RESERVED], 1, 3),
        _ => {
            let mut v = b"-".to_vec();
            v.extend(cat(t, &[PLAIN, PCT, RESERVED], 0, 3));
            v
        }
    };
    match t.weighted(&[8, 5, 4, 1, 1, 1]) {
        0 => "no-user",
        1 => {
            out.extend(tok(t));
            out.push(b'@');
            "user"
        }
        2 => {
            out.extend(tok(t));
            out.push(b':');
            out.extend(tok(t));
            out.push(b'@');
            "user-password"
        }
        3 => {
            out.push(b':');
            out.extend(tok(t));
            out.push(b'@');
            "password-only"
        }
        4 => {
            out.extend(tok(t));
            out.extend_from_slice(b":@");
            "empty-password"
        }
        _ => {
            out.push(b'@');
            "empty-user"
        }
    }
}

fn host(t: &mut Tape, out: &mut Vec<u8>) -> &'static str {
    match t.weighted(&[8, 3, 3, 2, 2, 1, 1]) {
        0 => {
            out.extend_from_slice(
                t.pick(&["example.com", "h", "host.xy", "a-b.c", "localhost", "github.com", "xn--nxasmq6b.com", "host."])
                    .as_bytes(),
            );
            "host-name"
        }
        1 => {
            out.extend_from_slice(t.pick(&["HOST.Example.COM", "Host", "LOCALHOST", "日本.jp", "bücher.example", "EXAMPLE.com."]).as_bytes());
            "host-case-or-idn"
        }
        2 => {
            out.extend_from_slice(t.pick(&["127.0.0.1", "0x7f.1", "192.168.0.1", "1.2.3", "017700000001", "999.1.1.1", "1.2.3.4.5"]).as_bytes());
            "host-ipv4"
        }
        3 => {
            out.extend_from_slice(
                t.pick(&["[::1]", "[fe80::1]", "[::ffff:1.2.3.4]", "[2001:DB8::1]", "[::1", "::1", "[fe80::1%25eth0]", "[1:2:3:4:5:6:7:8]"])
                    .as_bytes(),
            );
            "host-ipv6"
        }
        4 => {
            out.extend_from_slice(t.pick(&["-oProxyCommand=x", "-", "-h", "a_b", "ho%20st", "ho%41st", "a..b", ".", "*", "h!", "a+b", "a&b", "h$IFS"]).as_bytes());
            "host-odd"
        }
        5 => "host-empty",
        _ => {
            out.extend(cat(t, &[PLAIN, PCT, RESERVED, WS], 1, 3));
            "host-random"
        }
    }
}

fn port(t: &mut Tape, out: &mut Vec<u8>) -> &'static str {
    match t.weighted(&[10, 2, 2, 1, 1, 1, 1, 1, 1, 1, 1]) {
        0 => "port-absent",
        1 => {
            out.extend_from_slice(b":22");
            "port"
        }
        2 => {
            out.extend_from_slice(t.pick(&[":80", ":443", ":9418", ":8080"]).as_bytes());
            "port-default-like"
        }
        3 => {
            out.extend_from_slice(b":0");
            "port-0"
        }
        4 => {
            out.extend_from_slice(b":65535");
            "port-65535"
        }
        5 => {
            out.extend_from_slice(b":65536");
            "port-invalid"
        }
        6 => {
            out.extend_from_slice(b":");
            "port-empty"
        }
        7 => {
            out.extend_from_slice(t.pick(&[":022", ":00", ":0080", ":000000443"]).as_bytes());
            "port-leading-zero"
        }
        8 => {
            out.extend_from_slice(t.pick(&[":2a", ":-1", ":+22", ": 22", ":22 "]).as_bytes());
            "port-invalid"
        }
        9 => {
            out.extend_from_slice(b":");
            out.extend(t.range(1, 65535).to_string().into_bytes());
            "port"
        }
        _ => {
            out.extend_from_slice(b":22:23");
            "port-invalid"
        }
    }
}

const SEGS: &[&str] = &[
    "repo", "repo.git", "a", "b", "path", "to", "~", "~user", "..", ".", "-x", "--upload-pack=x", "a:b", "c:", "pa th", "pa%20th", "%2e%2E", "%2F", "ü",
    "日本", "a?b=c", "a#frag", "a\\b", "a;b", "a&b", "a'b", "a\"b", "a$b", "a`b`", "a|b", "!", "*", "[x]", "{y}", "a\tb", "a\nb", " ", "",
    "%", "%zz", "a://b", "@", "u@h", "+",
];

fn path_segments(t: &mut Tape, out: &mut Vec<u8>, max: usize) {
    let n = t.range(1, max);
    for i in 0..n {
        if i > 0 {
            out.push(b'/');
        }
        out.extend_from_slice(t.pick(SEGS).as_bytes());
    }
    if t.chance(48) {
        out.push(b'/');
    }
}

fn url_path(t: &mut Tape, out: &mut Vec<u8>) -> &'static str {
    match t.weighted(&[2, 1, 12, 2]) {
        0 => "path-empty",
        1 => {
            out.push(b'/');
            "path-root"
        }
        2 => {
            out.push(b'/');
            path_segments(t, out, 4);
            "path"
        }
        _ => {
            out.extend_from_slice(b"//");
            path_segments(t, out, 3);
            "path-double-slash"
        }
    }
}

const ODD_SCHEMES: &[&str] = &["ext", "ftp", "rsync", "x-y.z", "a", "SSH", "Http", "GIT", "ws", "wss", "svn+ssh", "s3", "1a", "a_b", ""];

fn scheme(t: &mut Tape) -> &'static str {
    match t.weighted(&[9, 3, 2, 2, 1, 1, 4]) {
        0 => "ssh",
        1 => "git",
        2 => "http",
        3 => "https",
        4 => "ssh+git",
        5 => "git+ssh",
        _ => *t.pick(ODD_SCHEMES),
    }
}

/// Returns the URL string and its labels.
fn gen_url(t: &mut Tape, labels: &mut Vec<&'static str>) -> Vec<u8> {
    let mut s = Vec::new();
    match t.weighted(&[9, 5, 4, 4]) {
        0 => {
            labels.push("form:url");
            s.extend_from_slice(scheme(t).as_bytes());
            s.extend_from_slice(b"://");
            labels.push(userinfo(t, &mut s));
            labels.push(host(t, &mut s));
            labels.push(port(t, &mut s));
            labels.push(url_path(t, &mut s));
        }
        1 => {
            labels.push("form:scp");
            labels.push(match t.weighted(&[5, 4, 1]) {
                0 => "no-user",
                1 => {
                    s.extend(cat(t, &[PLAIN, PLAIN, PCT, RESERVED], 1, 3));
                    s.push(b'@');
                    "user"
                }
                _ => {
                    s.push(b'-');
                    s.extend(cat(t, &[PLAIN], 0, 2));
                    s.push(b'@');
                    "user"
                }
            });
            labels.push(host(t, &mut s));
            s.push(b':');
            match t.weighted(&[6, 3, 1, 1]) {
                0 => path_segments(t, &mut s, 3),
                1 => {
                    s.push(b'/');
                    path_segments(t, &mut s, 3);
                }
                2 => {}
                _ => {
                    s.extend_from_slice(t.pick(&["22:repo", "22/repo", "/", "//x", "~/r", "~u/r", "[x]", " r", "r ", "\\r"]).as_bytes());
                }
            }
        }
        2 => {
            labels.push("form:local");
            s.extend_from_slice(t.pick(&["/", "", "./", "../", "~/", "~user/", "//", "a/", "/a/b/", "C:\\", "c:/", "\\\\srv\\share\\"]).as_bytes());
            path_segments(t, &mut s, 3);
            if t.chance(40) {
                s.extend(t.bytes(3));
                labels.push("local-raw-bytes");
            }
        }
        _ => {
            labels.push("form:file-url");
            s.extend_from_slice(t.pick(&["file", "file", "file", "FILE", "File"]).as_bytes());
            s.extend_from_slice(t.pick(&["://", "://", "://", "://", ":", ":/"]).as_bytes());
            match t.weighted(&[6, 3, 1, 1, 1]) {
                0 => {}
                1 => {
                    labels.push(host(t, &mut s));
                }
                2 => {
                    labels.push(userinfo(t, &mut s));
                    labels.push(host(t, &mut s));
                    labels.push(port(t, &mut s));
                }
                3 => s.extend_from_slice(t.pick(&["x:", "c:", "C|"]).as_bytes()),
                _ => s.extend_from_slice(b"~"),
            }
            labels.push(url_path(t, &mut s));
        }
    }
    // byte-level mutations: whitespace anywhere, stray delimiters, odd bytes
    if t.chance(56) {
        labels.push("mutated");
        for _ in 0..t.range(1, 2) {
            let pos = t.below(s.len() + 1);
            let ins: Vec<u8> = match t.weighted(&[4, 3, 2, 1]) {
                0 => t.pick(WS).as_bytes().to_vec(),
                1 => t.pick(DELIMS).as_bytes().to_vec(),
                2 => t.pick(RESERVED).as_bytes().to_vec(),
                _ => vec![*t.pick(&[0u8, 0x7f, 0x80, 0xff, 0x1b])],
            };
            if t.bool() || pos >= s.len() {
                s.splice(pos..pos, ins);
            } else {
                s.splice(pos..pos + 1, ins);
            }
        }
    }
    s
}

/// A long user/host (> 1024 bytes before the first path slash after normalisation) to reach the length guard.
fn gen_long(t: &mut Tape) -> Vec<u8> {
    let unit = *t.pick(&["a", "é", "%41", " x", "日"]);
    let n = *t.pick(&[100usize, 300, 340, 342, 343, 500, 1020, 1024, 1025, 1100]);
    let long = unit.repeat(n / unit.len().max(1) + 1);
    let scheme = *t.pick(&["ssh", "https", "git", "ext"]);
    match t.below(3) {
        0 => format!("{scheme}://{long}@host/p").into_bytes(),
        1 => format!("{scheme}://u:{long}@host/p").into_bytes(),
        _ => format!("{scheme}://{long}/p").into_bytes(),
    }
}

fn describe(u: &gix_url::Url) -> String {
    format!("{u:?}")
}

fn needs_pct(s: Option<&str>) -> bool {
    s.map_or(false, |s| s.contains('%'))
}

pub fn main() {
    let mut ck = Check::new("C33", "exploration");
    ck.rule("URL strings assembled from parts: URL form (schemes ssh/git/http(s)/ssh+git/git+ssh/unknown/mixed case/invalid; userinfo absent, user, user:password, :password, user:, empty; user/password tokens from plain, percent-encoded (%40 %3A %2F %25 %20 %00 invalid %zz) and reserved characters, leading '-'; hosts: names, upper case/IDN, IPv4 forms, bracketed IPv6, odd ('-opt', percent-encoded, empty), random; ports absent/empty/0/22/default-like/65535/65536/leading zeros/invalid; paths empty, '/', 1..4 segments from a list with spaces, %20, unicode, '~user', '..', ':' , '?query', '#fragment', backslash, shell metacharacters, '://', double slash, trailing slash), scp-like form ([user@]host:path), local paths (absolute, relative, ./ ../ ~/ ~user/, ':' after a '/', Windows-like, non-UTF-8 bytes), file URLs (with/without host, userinfo, port, drive letters, 'file:' and 'file:/' prefixes), optional byte mutations (whitespace, delimiters, reserved and control/high bytes inserted or substituted), plus a class of >1 KiB user/host components. Only strings that gix_url::parse accepts are evaluated (others are discarded). Non-trivial: user or password contains a percent-encoding, or the URL is scp-like or a local path (alternative serialization form). Distinct by the input string.");
    ck.assume("equality is gix_url::Url's derived PartialEq (all fields including serialize_alternative_form)");

    let case = |s: Vec<u8>, c: &mut Case| {
        let u = match gix_url::parse(s.as_bstr()) {
            Ok(u) => u,
            Err(e) => {
                // not in the property's domain
                let _ = e;
                c.discard();
                return;
            }
        };
        let alt = {
            // scp-like or local: the only forms that serialize without scheme
            let written = u.to_bstring();
            !written.starts_with(format!("{}://", u.scheme.as_str()).as_bytes())
        };
        c.label(match &u.scheme {
            Scheme::Ssh if alt => "parsed:ssh-scp-like",
            Scheme::Ssh => "parsed:ssh",
            Scheme::File if alt => "parsed:local-path",
            Scheme::File => "parsed:file-url",
            Scheme::Git => "parsed:git",
            Scheme::Http | Scheme::Https => "parsed:http(s)",
            Scheme::Ext(_) => "parsed:ext",
        });
        c.label_if(u.port.is_some(), "parsed:port");
        c.label_if(u.password().is_some(), "parsed:password");
        c.label_if(u.user().is_some(), "parsed:user");
        c.label_if(u.host().map_or(false, |h| h.starts_with('[')), "parsed:ipv6-host");
        c.label_if(u.host().is_none(), "parsed:no-host");
        let pct = needs_pct(u.user()) || needs_pct(u.password());
        c.label_if(pct, "parsed:percent-in-userinfo");
        c.nontrivial(pct || alt);
        c.sample_with(|| format!("{} -> {}", show(&s), describe(&u)));

        let s2: BString = u.to_bstring();
        c.label_if(s2.as_slice() != s.as_slice(), "normalised-by-parse");
        let mut via_write = Vec::new();
        ensure!(c, u.write_to(&mut via_write).is_ok() && via_write == s2.as_slice(), "write_to and to_bstring differ for {u:?}");
        let u2 = match gix_url::parse(s2.as_ref()) {
            Ok(u2) => u2,
            Err(e) => {
                let sig = match e {
                    gix_url::parse::Error::TooLong { .. } => "reparse-too-long",
                    _ => "reparse-fails",
                };
                c.fail_sig(
                    sig,
                    format!("{} parses as {} and is written as {}, which does not parse: {e}", show(&s), describe(&u), show(&s2)),
                );
                return;
            }
        };
        ensure_sig!(
            c,
            "reparse-differs",
            u2 == u,
            "{} parses as {}, is written as {}, which parses as {}",
            show(&s),
            describe(&u),
            show(&s2),
            describe(&u2)
        );
        let s3 = u2.to_bstring();
        ensure_sig!(c, "not-idempotent", s3 == s2, "second serialization {} differs from the first {}", show(&s3), show(&s2));
        ensure!(
            c,
            gix_url::Url::from_bytes(s.as_bstr()).ok().as_ref() == Some(&u),
            "Url::from_bytes disagrees with parse for {}",
            show(&s)
        );
    };

    ck.sub(
        "parse-write-parse",
        SubCfg::new(400_000, 6_000_000).max_len(96).max_discard_pct(45),
        move |t, c| {
            let mut labels = Vec::new();
            let s = gen_url(t, &mut labels);
            c.key(&s);
            for l in labels {
                c.label(l);
            }
            case(s, c);
        },
    );

    ck.sub("long-components", SubCfg::new(1_000, 4_000).max_len(8).max_discard_pct(70), move |t, c| {
        let s = gen_long(t);
        c.key(&s);
        c.label("long-component");
        case(s, c);
    });

    ck.finish();
}
