//! C24 — index files decode to exactly what git wrote, for any thread limit.
//!
//! One case = one scratch repository driven by a script of git commands decoded from the tape (index version,
//! index.threads / IEOT / EOIE, untracked cache, split index, sparse index, intent-to-add, skip-worktree,
//! assume-unchanged, conflicts, resolve-undo, cache-tree, paths beyond the 0xfff name-length field). After every
//! step the bytes of `.git/index` are parsed by the independent reader (`idx.rs`), the reader is validated against
//! `git ls-files --stage --debug -z` (+ `--resolve-undo`, + a fresh `write-tree` for the cache tree), and
//! `gix_index::State::from_bytes` is run for thread limits 1,2,3,4,8,16 x {extensions threaded, not threaded};
//! every observable of every decode must equal the reader's view.
mod idx;
mod world;

use std::path::Path;

use vp::*;
use world::{gen_script, run_script};

// ---------------------------------------------------------------------------------------------
// snapshot checking

#[derive(Default)]
struct Seen {
    nontrivial: bool,
    snapshots: usize,
    last_bytes: Vec<u8>,
    last_tree: Option<idx::TreeNode>,
    sparse_class: bool,
}

fn gix_id(id: &gix_hash::ObjectId) -> idx::Id {
    let mut a = [0u8; 20];
    a.copy_from_slice(id.as_bytes());
    a
}

fn cmp_tree(model: &idx::TreeNode, got: &gix_index::extension::Tree, at: &str) -> Result<(), String> {
    let here = format!("{at}/{}", show(&model.name));
    if got.name.as_slice() != model.name.as_slice() {
        return Err(format!("TREE node {here}: name {:?}", show(got.name.as_slice())));
    }
    let want_n = if model.entry_count >= 0 { Some(model.entry_count as u32) } else { None };
    if got.num_entries != want_n {
        return Err(format!("TREE node {here}: num_entries {:?}, stored {}", got.num_entries, model.entry_count));
    }
    match model.id {
        Some(id) => {
            if gix_id(&got.id) != id {
                return Err(format!("TREE node {here}: id {} stored {}", got.id, idx::hex20(&id)));
            }
        }
        None => {
            if !got.id.is_null() {
                return Err(format!("TREE node {here}: invalid node carries id {}", got.id));
            }
        }
    }
    if got.children.len() != model.children.len() {
        return Err(format!(
            "TREE node {here}: {} children, stored {}",
            got.children.len(),
            model.children.len()
        ));
    }
    // gix-index keeps children sorted by name, git stores them by (length, bytes): compare as a name-keyed set
    let mut want: Vec<&idx::TreeNode> = model.children.iter().collect();
    want.sort_by(|a, b| a.name.cmp(&b.name));
    for (w, g) in want.iter().zip(&got.children) {
        cmp_tree(w, g, &here)?;
    }
    Ok(())
}

fn ewah_bits(v: &gix_bitmap::ewah::Vec) -> Vec<usize> {
    let mut bits = Vec::new();
    v.for_each_set_bit(|i| {
        bits.push(i);
        Some(())
    });
    bits
}

/// Compare everything `state` exposes with the reader's view. `entries` is the expected entry list.
fn cmp_state(state: &gix_index::State, model: &idx::Index, what: &str) -> Result<(), (String, String)> {
    let plain = |m: String| (String::new(), format!("{what}: {m}"));
    if state.version() as u32 != model.version {
        return Err(plain(format!("version {:?}, file says {}", state.version(), model.version)));
    }
    let got = state.entries();
    if got.len() != model.entries.len() {
        return Err(plain(format!("{} entries, file has {}", got.len(), model.entries.len())));
    }
    for (i, (g, m)) in got.iter().zip(&model.entries).enumerate() {
        let path = g.path(state);
        let st = idx::StatData {
            ctime: (g.stat.ctime.secs, g.stat.ctime.nsecs),
            mtime: (g.stat.mtime.secs, g.stat.mtime.nsecs),
            dev: g.stat.dev,
            ino: g.stat.ino,
            uid: g.stat.uid,
            gid: g.stat.gid,
            size: g.stat.size,
        };
        if path.as_ref() as &[u8] != m.path.as_slice() {
            return Err(plain(format!(
                "entry {i}: path {:?} ({} bytes), stored {:?} ({} bytes)",
                show(&path[..path.len().min(80)]),
                path.len(),
                show(&m.path[..m.path.len().min(80)]),
                m.path.len()
            )));
        }
        if g.stage_raw() != m.stage() {
            return Err(plain(format!("entry {i} {:?}: stage {} stored {}", show(&m.path), g.stage_raw(), m.stage())));
        }
        if g.mode.bits() != m.mode {
            return Err(plain(format!("entry {i} {:?}: mode {:o} stored {:o}", show(&m.path), g.mode.bits(), m.mode)));
        }
        if gix_id(&g.id) != m.id {
            return Err(plain(format!("entry {i} {:?}: id {} stored {}", show(&m.path), g.id, idx::hex20(&m.id))));
        }
        if g.flags.bits() != m.mem_flags() {
            return Err(plain(format!(
                "entry {i} {:?}: flags {:#x} stored {:#x}",
                show(&m.path),
                g.flags.bits(),
                m.mem_flags()
            )));
        }
        if st != m.stat {
            let sig = if st.ctime == m.stat.mtime && st.mtime == m.stat.ctime && st.ctime != st.mtime {
                "entry-ctime-mtime-swapped"
            } else {
                ""
            };
            return Err((
                sig.to_string(),
                format!("{what}: entry {i} {:?}: stat {st:?} stored {:?}", show(&m.path), m.stat),
            ));
        }
    }
    let sparse_expected = model.sdir || model.entries.iter().any(|e| e.mode == 0o040000);
    if state.is_sparse() != sparse_expected {
        return Err(plain(format!("is_sparse() = {}, file: sdir={} ", state.is_sparse(), model.sdir)));
    }
    match (&model.tree, state.tree()) {
        (None, None) => {}
        (Some(m), Some(g)) => cmp_tree(m, g, "").map_err(plain)?,
        (m, g) => {
            return Err(plain(format!(
                "tree(): present={} but TREE extension stored={}",
                g.is_some(),
                m.is_some()
            )))
        }
    }
    match (&model.reuc, state.resolve_undo()) {
        (None, None) => {}
        (Some(m), Some(g)) => {
            if m.len() != g.len() {
                return Err(plain(format!("resolve_undo() has {} paths, REUC stores {}", g.len(), m.len())));
            }
        }
        (m, g) => {
            return Err(plain(format!(
                "resolve_undo(): present={} but REUC extension stored={}",
                g.is_some(),
                m.is_some()
            )))
        }
    }
    match (&model.link, state.link()) {
        (None, None) => {}
        (Some(m), Some(g)) => {
            if gix_id(&g.shared_index_checksum) != m.base_id {
                return Err(plain(format!(
                    "link(): shared index {} stored {}",
                    g.shared_index_checksum,
                    idx::hex20(&m.base_id)
                )));
            }
            match (&m.bitmaps, &g.bitmaps) {
                (None, None) => {}
                (Some((md, mr)), Some(gb)) => {
                    if ewah_bits(&gb.delete) != md.set_bits || gb.delete.num_bits() != md.bit_size as usize {
                        return Err(plain(format!(
                            "link(): delete bitmap {:?}/{} stored {:?}/{}",
                            ewah_bits(&gb.delete),
                            gb.delete.num_bits(),
                            md.set_bits,
                            md.bit_size
                        )));
                    }
                    if ewah_bits(&gb.replace) != mr.set_bits || gb.replace.num_bits() != mr.bit_size as usize {
                        return Err(plain(format!(
                            "link(): replace bitmap {:?}/{} stored {:?}/{}",
                            ewah_bits(&gb.replace),
                            gb.replace.num_bits(),
                            mr.set_bits,
                            mr.bit_size
                        )));
                    }
                }
                _ => return Err(plain("link(): bitmap presence differs".into())),
            }
        }
        (m, g) => {
            return Err(plain(format!(
                "link(): present={} but link extension stored={}",
                g.is_some(),
                m.is_some()
            )))
        }
    }
    if state.untracked().is_some() != model.untr.is_some() {
        return Err(plain(format!(
            "untracked(): present={} but UNTR extension stored={}",
            state.untracked().is_some(),
            model.untr.is_some()
        )));
    }
    if state.fs_monitor().is_some() != model.fsmn {
        return Err(plain("fs_monitor() presence differs".into()));
    }
    if state.had_end_of_index_marker() != model.eoie.is_some() {
        return Err(plain(format!(
            "had_end_of_index_marker() = {} but EOIE stored={}",
            state.had_end_of_index_marker(),
            model.eoie.is_some()
        )));
    }
    if state.had_offset_table() != model.ieot.is_some() {
        return Err(plain(format!(
            "had_offset_table() = {} but IEOT stored={}",
            state.had_offset_table(),
            model.ieot.is_some()
        )));
    }
    Ok(())
}

/// true if the file hits the v2/v3 long-name class: a name of >= 0xfff bytes followed by more than one NUL
fn long_name_padding_class(model: &idx::Index) -> bool {
    model.version < 4 && model.entries.iter().any(|e| e.path.len() >= 0xfff && e.nuls > 1)
}

const THREAD_LIMITS: &[usize] = &[1, 2, 3, 4, 8, 16];

fn validate_tree_against_git(
    c: &mut Case,
    git: &Git,
    index_path: &Path,
    scratch: &Path,
    model: &idx::Index,
    entries: &[idx::Entry],
) -> bool {
    let Some(tree) = &model.tree else { return true };
    if entries.iter().any(|e| e.stage() != 0) {
        return true;
    }
    let copy = scratch.join("index.copy");
    if let Err(e) = std::fs::copy(index_path, &copy) {
        c.infra(format!("copy index: {e}"));
        return false;
    }
    let g = git.clone().env("GIT_INDEX_FILE", copy.to_str().unwrap_or(""));
    let root = match g.try_run(["write-tree", "--missing-ok"], None) {
        Ok((true, out, _)) => String::from_utf8_lossy(&out).trim().to_string(),
        Ok((false, _, _)) => return true, // git cannot build a tree from this index (e.g. D/F trouble): nothing to compare
        Err(e) => {
            c.infra(e);
            return false;
        }
    };
    let listing = match g.run(["ls-tree", "-r", "-d", "-z", &root]) {
        Ok(o) => o,
        Err(e) => {
            c.infra(e);
            return false;
        }
    };
    let mut ids: std::collections::BTreeMap<Vec<u8>, idx::Id> = Default::default();
    for rec in listing.split(|b| *b == 0).filter(|r| !r.is_empty()) {
        // "<mode> tree <id>\t<path>"
        let Some(tab) = rec.iter().position(|b| *b == b'\t') else { continue };
        let head = String::from_utf8_lossy(&rec[..tab]).to_string();
        let parts: Vec<&str> = head.split(' ').collect();
        if parts.len() == 3 && parts[1] == "tree" {
            if let Some(id) = unhex(parts[2]) {
                let mut a = [0u8; 20];
                a.copy_from_slice(&id);
                ids.insert(rec[tab + 1..].to_vec(), a);
            }
        }
    }
    let mut root_id = [0u8; 20];
    if let Some(id) = unhex(&root) {
        root_id.copy_from_slice(&id);
    }
    fn walk(
        node: &idx::TreeNode,
        prefix: &[u8],
        is_root: bool,
        ids: &std::collections::BTreeMap<Vec<u8>, idx::Id>,
        root_id: &idx::Id,
        entries: &[idx::Entry],
    ) -> Result<(), String> {
        let mut path = prefix.to_vec();
        if !is_root {
            if !path.is_empty() {
                path.push(b'/');
            }
            path.extend_from_slice(&node.name);
        }
        if let Some(id) = node.id {
            let want = if is_root { Some(root_id) } else { ids.get(&path) };
            if want != Some(&id) {
                return Err(format!(
                    "reader's TREE node {:?} has id {}, git's tree there is {:?}",
                    show(&path),
                    idx::hex20(&id),
                    want.map(idx::hex20)
                ));
            }
            let mut dir = path.clone();
            if !is_root {
                dir.push(b'/');
            }
            let n = entries.iter().filter(|e| e.path.starts_with(&dir)).count();
            if n as i64 != node.entry_count {
                return Err(format!(
                    "reader's TREE node {:?} has entry count {}, index has {} entries below it",
                    show(&path),
                    node.entry_count,
                    n
                ));
            }
        }
        for ch in &node.children {
            walk(ch, &path, false, ids, root_id, entries)?;
        }
        Ok(())
    }
    if let Err(e) = walk(tree, b"", true, &ids, &root_id, entries) {
        c.infra(format!("MODEL-BUG (TREE): {e}"));
        return false;
    }
    true
}

/// Returns false when the case is finished (failure or infra trouble recorded).
fn check_snapshot(c: &mut Case, w: &World, git: &Git, step: &'static str, seen: &mut Seen) -> bool {
    let index_path = w.git_dir().join("index");
    let bytes = match std::fs::read(&index_path) {
        Ok(b) => b,
        Err(e) => {
            c.infra(format!("read index after {step}: {e}"));
            return false;
        }
    };
    let model = match idx::parse(&bytes) {
        Ok(m) => m,
        Err(e) => {
            c.infra(format!("MODEL-BUG: independent reader rejects git's index after {step}: {e}"));
            return false;
        }
    };
    if bytes == seen.last_bytes {
        return true; // the step did not rewrite the index
    }
    seen.snapshots += 1;

    // --- validate the reader against git ---
    // without this, git un-skips and expands sparse directories that happen to exist in the worktree while *reading*
    let lgit = git.clone().cfg("sparse.expectFilesOutsideOfPatterns=true");
    let listing = match lgit.run(["ls-files", "--sparse", "--stage", "--debug", "-z"]) {
        Ok(o) => o,
        Err(e) => {
            c.infra(e);
            return false;
        }
    };
    let git_entries = match idx::parse_ls_files_debug(&listing) {
        Ok(v) => v,
        Err(e) => {
            c.infra(e);
            return false;
        }
    };
    let mut merged_model: Option<idx::Index> = None;
    let mut shared_has_known_class = false;
    if let Some(link) = &model.link {
        let shared = w.git_dir().join(format!("sharedindex.{}", idx::hex20(&link.base_id)));
        let merged = std::fs::read(&shared)
            .map_err(|e| format!("read {shared:?}: {e}"))
            .and_then(|b| {
                if b[b.len() - 20..] != link.base_id {
                    return Err("shared index checksum differs from the link extension".to_string());
                }
                idx::parse(&b)
            })
            .and_then(|base| {
                shared_has_known_class = long_name_padding_class(&base);
                idx::merge_split(&base, &model)
            });
        match merged {
            Ok(entries) => {
                let mut m = model.clone();
                m.entries = entries;
                merged_model = Some(m);
            }
            Err(e) => {
                c.infra(format!("MODEL-BUG (split index) after {step}: {e}"));
                return false;
            }
        }
    }
    let effective = merged_model.as_ref().unwrap_or(&model);
    if let Err(e) = idx::compare_with_git(effective, &git_entries) {
        if seen.sparse_class && (model.sdir || model.entries.iter().any(|e| e.mode == 0o040000)) {
            // git expands or repairs sparse indices on load in ways ls-files does not let us switch off: no reference
            c.label("git-lists-sparse-index-differently");
            if std::env::var_os("C24_DEBUG").is_some() {
                eprintln!("discard after {step} in {:?}: {e}", w.repo());
            }
            c.discard();
            return false;
        }
        c.infra(format!("MODEL-BUG: reader disagrees with git ls-files after {step} in {:?}: {e}", w.repo()));
        return false;
    }
    if let Some(reuc) = &model.reuc {
        let out = match git.run(["ls-files", "--resolve-undo", "-z"]) {
            Ok(o) => o,
            Err(e) => {
                c.infra(e);
                return false;
            }
        };
        let mut want = Vec::new();
        for r in reuc {
            for s in 0..3 {
                if let Some(id) = r.ids[s] {
                    let mut line = format!("{:06o} {} {}\t", r.modes[s], idx::hex20(&id), s + 1).into_bytes();
                    line.extend_from_slice(&r.path);
                    line.push(0);
                    want.extend(line);
                }
            }
        }
        if want != out {
            c.infra(format!(
                "MODEL-BUG (REUC) after {step}: reader {:?} vs git {:?}",
                show(&want),
                show(&out)
            ));
            return false;
        }
    }
    if model.tree != seen.last_tree {
        if !validate_tree_against_git(c, git, &index_path, &w.scratch.path, &model, &effective.entries) {
            return false;
        }
        seen.last_tree = model.tree.clone();
    }

    // --- labels / non-trivial rule ---
    let blocks = model.ieot.as_ref().map_or(0, |b| b.len());
    let kinds = model.ext_order.len();
    c.label(match model.version {
        2 => "v2",
        3 => "v3",
        _ => "v4",
    });
    c.label_if(blocks >= 2, "ieot>=2-blocks");
    c.label_if(blocks >= 2 && model.version == 4, "v4-ieot>=2-blocks");
    c.label_if(model.eoie.is_some(), "EOIE");
    c.label_if(model.tree.is_some(), "TREE");
    c.label_if(
        model.tree.as_ref().map_or(false, |t| {
            fn any_invalid(t: &idx::TreeNode) -> bool {
                t.entry_count < 0 || t.children.iter().any(any_invalid)
            }
            fn any_valid(t: &idx::TreeNode) -> bool {
                t.entry_count >= 0 || t.children.iter().any(any_valid)
            }
            any_invalid(t) && any_valid(t)
        }),
        "TREE-partially-invalid",
    );
    c.label_if(model.reuc.is_some(), "REUC");
    c.label_if(model.untr.is_some(), "UNTR");
    c.label_if(model.untr.as_ref().map_or(false, |u| u.dirs.len() >= 2), "UNTR-with-dirs");
    c.label_if(
        model.untr.as_ref().map_or(false, |u| u.dirs.iter().skip(1).any(|d| d.exclude_id.is_some())),
        "UNTR-nested-exclude-id",
    );
    c.label_if(
        model.untr.as_ref().map_or(false, |u| u.dirs.last().map_or(false, |d| d.exclude_id.is_some())),
        "UNTR-last-dir-has-exclude-id",
    );
    c.label_if(
        model.untr.as_ref().map_or(false, |u| u.dirs.iter().any(|d| d.check_only)),
        "UNTR-check-only",
    );
    c.label_if(model.link.is_some(), "link");
    c.label_if(
        model.link.as_ref().map_or(false, |l| {
            l.bitmaps
                .as_ref()
                .map_or(false, |(d, r)| !d.set_bits.is_empty() || !r.set_bits.is_empty())
        }),
        "link-with-bits",
    );
    c.label_if(model.sdir, "sdir");
    c.label_if(model.entries.iter().any(|e| e.mode == 0o040000), "sparse-dir-entry");
    c.label_if(model.entries.iter().any(|e| e.stage() != 0), "conflict-stages");
    c.label_if(model.entries.iter().any(|e| e.ext16 & 0x2000 != 0), "intent-to-add");
    c.label_if(model.entries.iter().any(|e| e.ext16 & 0x4000 != 0), "skip-worktree");
    c.label_if(model.entries.iter().any(|e| e.flags16 & 0x8000 != 0), "assume-valid");
    c.label_if(model.entries.iter().any(|e| e.path.len() >= 0xfff), "name>=0xfff");
    c.label_if(model.entries.iter().any(|e| e.strip >= 128), "v4-strip>=128");
    c.label_if(model.entries.iter().any(|e| e.strip >= 16512), "v4-strip>=16512");
    c.label_if(
        model.entries.iter().any(|e| e.stat.ctime != e.stat.mtime && e.stat.mtime != (0, 0)),
        "ctime!=mtime",
    );
    c.label_if(model.entries.len() >= 61, "entries>=61");
    c.label_if(model.entries.is_empty(), "entries=0");
    if (model.version == 4 && blocks >= 2) || kinds >= 2 {
        seen.nontrivial = true;
    }

    // --- the code under test ---
    let ts = gix_index::State::new(gix_hash::Kind::Sha1).timestamp();
    let known_class = long_name_padding_class(&model);
    c.label_if(known_class, "v2v3-long-name-padded");
    seen.last_bytes = bytes.clone();
    for &limit in THREAD_LIMITS {
        for &min_ext in &[0usize, usize::MAX] {
            let what = format!("after {step}: from_bytes(thread_limit={limit}, min_ext_block={min_ext})");
            let opts = gix_index::decode::Options {
                thread_limit: Some(limit),
                min_extension_block_in_bytes_for_threading: min_ext,
                expected_checksum: None,
            };
            let res = gix_index::State::from_bytes(&bytes, ts, gix_hash::Kind::Sha1, opts);
            let outcome = match res {
                Err(e) => Err((String::new(), format!("{what}: git's index is rejected: {e}"))),
                Ok((state, checksum)) => {
                    let want = (!model.checksum_is_null).then_some(model.checksum);
                    if checksum.map(|id| gix_id(&id)) != want {
                        Err((String::new(), format!("{what}: returned checksum {checksum:?}")))
                    } else {
                        cmp_state(&state, &model, &what)
                    }
                }
            };
            if let Err((sig, msg)) = outcome {
                if known_class && sig.is_empty() {
                    c.fail_sig("v2v3-long-name-padding-not-skipped", msg);
                } else {
                    c.fail_sig(&sig, msg);
                }
                return false;
            }
        }
    }
    // File::at: checksum verification + split index resolution
    for &limit in &[1usize, 4] {
        let what = format!("after {step}: File::at(thread_limit={limit})");
        let opts = gix_index::decode::Options {
            thread_limit: Some(limit),
            min_extension_block_in_bytes_for_threading: 0,
            expected_checksum: None,
        };
        match gix_index::File::at(&index_path, gix_hash::Kind::Sha1, false, opts) {
            Err(e) => {
                let msg = format!("{what}: git's index is rejected: {e}");
                // File::at() also decodes the shared index of a split index
                if known_class || shared_has_known_class {
                    c.fail_sig("v2v3-long-name-padding-not-skipped", msg);
                } else {
                    c.fail(msg);
                }
                return false;
            }
            Ok(file) => {
                let mut m = effective.clone();
                if merged_model.is_some() {
                    // File::at() resolves the link extension
                    m.link = None;
                    // flags: the name length of replaced entries is zero on disk; nothing else differs
                }
                if let Err((sig, msg)) = cmp_state(&file, &m, &what) {
                    c.fail_sig(&sig, msg);
                    return false;
                }
            }
        }
    }
    true
}

fn dump(path: &str) {
    let bytes = std::fs::read(path).expect("readable file");
    match idx::parse(&bytes) {
        Err(e) => println!("reader rejects the file: {e}"),
        Ok(m) => {
            println!("version {} entries {} ext_start {} exts {:?}", m.version, m.entries.len(), m.ext_start,
                m.ext_order.iter().map(|s| String::from_utf8_lossy(s).to_string()).collect::<Vec<_>>());
            for e in &m.entries {
                println!("  @{} {:o} {} stage {} flags {:#x} ext {:#x} nuls {} strip {} len {} {:?}", e.offset, e.mode,
                    idx::hex20(&e.id), e.stage(), e.flags16, e.ext16, e.nuls, e.strip, e.path.len(), show(&e.path[..e.path.len().min(150)]));
            }
            println!("tree {:?}\nreuc {:?}\nlink {:?}\nieot {:?}\neoie {:?}", m.tree, m.reuc, m.link, m.ieot, m.eoie);
            if let Some(u) = &m.untr { println!("untr {u:?}"); }
        }
    }
}

pub fn main() {
    let args: Vec<String> = std::env::args().collect();
    if args.len() == 3 && args[1] == "--dump" {
        dump(&args[2]);
        return;
    }
    let mut ck = Check::new("C24", "exploration");
    ck.rule("One case = a scratch repository driven by a git command script decoded from the tape: index.version 2/4 (3 arises from extended flags), index.threads 1..8 with IEOT/EOIE on or off, untracked cache + status (untracked files, .gitignore in the root and in random directories), optional split index or sparse index, 0..300 paths sharing long prefixes (real files with chosen mtimes, symlinks, index-only entries, gitlinks, odd bytes), intent-to-add / skip-worktree / assume-unchanged, write-tree then partial invalidation, names of 0xffe..17000 bytes, conflict stages and their resolution (REUC). The index is checked after every step. Non-trivial: some snapshot is v4 with an IEOT of >= 2 blocks, or carries >= 2 extension kinds. Distinct by script hash.");
    ck.assume(&format!("{} writes the indices and is the reference for the independent reader (ls-files --stage --debug -z, --resolve-undo, write-tree/ls-tree for cache-tree ids)", Git::version()));
    ck.assume("gix-index exposes no accessor for the contents of the UNTR, REUC and FSMN extensions: only their presence (and the number of REUC paths) can be compared; cache-tree children are compared as a name-keyed set because gix-index re-sorts them");
    ck.assume("index.skipHash is not known to git 2.39 and is covered by C25 only");

    ck.sub(
        "git-written",
        SubCfg::new(320, 8_000).max_len(6000).max_shrink(60),
        |t, c| {
            let s = gen_script(t);
            c.key(&s);
            c.sample_with(|| {
                format!(
                    "v{} threads={} ieot={} eoie={} untr={} split={} sparse={:?} paths={} ita={} long={:?} conflicts={} late={}+{}",
                    s.version,
                    s.threads,
                    s.ieot,
                    s.eoie,
                    s.untracked_cache,
                    s.split,
                    s.sparse.as_ref().map(|d| d.len()),
                    s.paths.len(),
                    s.ita.len(),
                    s.long_paths.iter().map(|p| p.0.len()).collect::<Vec<_>>(),
                    s.conflicts.len(),
                    s.late_adds.len(),
                    s.late_removes.len()
                )
            });
            let mut seen = Seen::default();
            seen.sparse_class = s.sparse.is_some();
            run_script(&s, c, &mut |c, w, git, step| check_snapshot(c, w, git, step, &mut seen));
            c.nontrivial(seen.nontrivial);
        },
    );

    ck.finish();
}
