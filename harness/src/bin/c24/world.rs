//! Script generator and world construction shared by C24 (decoding git-written indices) and C25 (re-writing them).
#![allow(dead_code)]

use std::collections::BTreeSet;
use std::os::unix::ffi::OsStrExt;
use std::path::{Path, PathBuf};

use vp::*;

// ---------------------------------------------------------------------------------------------
// script

#[derive(Debug, Clone, Hash, PartialEq, Eq)]
pub enum Kind {
    /// a real worktree file added with `update-index --add`
    File { exec: bool, content: u8, mtime: Option<(u32, u32)> },
    Symlink { target: u8 },
    /// `update-index --index-info` only (no worktree file, zero stat data)
    IndexOnly { mode: u32, content: u8 },
}

#[derive(Debug, Clone, Hash, PartialEq, Eq)]
pub struct PathSpec {
    pub path: Vec<u8>,
    pub kind: Kind,
}

#[derive(Debug, Clone, Hash, PartialEq, Eq)]
pub struct Conflict {
    pub path: Vec<u8>,
    /// (stage, mode, content) for stages 1..=3
    pub stages: Vec<(u32, u32, u8)>,
    /// None: stays conflicted, Some(true): resolved by a stage-0 entry, Some(false): resolved by removal
    pub resolve: Option<bool>,
}

#[derive(Debug, Clone, Hash, PartialEq, Eq)]
pub struct Script {
    pub version: u32,
    pub threads: u32,
    pub ieot: bool,
    pub eoie: bool,
    pub untracked_cache: bool,
    pub split: bool,
    pub split_pct: u8,
    pub paths: Vec<PathSpec>,
    pub ita: Vec<Vec<u8>>,
    pub skip_worktree: Vec<usize>,
    pub assume_unchanged: Vec<usize>,
    pub write_tree: bool,
    pub late_adds: Vec<PathSpec>,
    pub late_removes: Vec<usize>,
    pub sparse: Option<Vec<Vec<u8>>>,
    pub long_paths: Vec<(Vec<u8>, u32)>,
    pub conflicts: Vec<Conflict>,
    pub untracked: Vec<Vec<u8>>,
    /// directories (empty = root) that get a `.gitignore` before `git status` fills the untracked cache
    pub gitignores: Vec<Vec<u8>>,
    pub status: bool,
}

const DIRS: &[&[u8]] = &[
    b"a",
    b"b",
    b"d",
    b"dir",
    b"lib",
    b"src",
    b"Zz",
    b"a-b",
    b"a.b",
    b"a0",
    b"x y",
    b"\xc3\xa9",
    b"very-long-directory-name-0123456789-abcdefghijklmnopqrstuvwxyz-0123456789-ABCDEFGHIJKLMNOPQRSTUVWXYZ",
    b"very-long-directory-name-0123456789-abcdefghijklmnopqrstuvwxyz-0123456789-abcdefghijklmnopqrstuvwxyz",
];
const FILES: &[&[u8]] = &[
    b"f",
    b"g",
    b"a",
    b"b",
    b"file",
    b"main.rs",
    b"README",
    b"a-b",
    b"a.b",
    b"a0",
    b".hidden",
    b"file-with-a-rather-long-name-so-that-stripping-it-needs-a-two-byte-varint-0123456789-abcdefghijklmnopqrstuvwxyz-0123456789-ABCDEFGHIJKLMNOPQRSTUVWXYZ.txt",
];
const ODD: &[&[u8]] = &[b"\x01", b"\xff", b"\n", b"\t", b"\"", b"*", b"\\", b" ", b":", b"?", b"[", b"\x7f"];

fn component(t: &mut Tape, pool: &[&[u8]]) -> Vec<u8> {
    let mut n = t.pick(pool).to_vec();
    match t.weighted(&[10, 5, 1]) {
        0 => {}
        1 => n.extend_from_slice(format!("{}", t.below(20)).as_bytes()),
        _ => n.extend_from_slice(*t.pick(ODD)),
    }
    n
}

struct Namespace {
    files: BTreeSet<Vec<u8>>,
    dirs: Vec<Vec<u8>>,
}

impl Namespace {
    fn new() -> Self {
        Namespace {
            files: BTreeSet::new(),
            dirs: vec![Vec::new()],
        }
    }
    /// a fresh path that creates no file/directory conflict, or None
    fn fresh(&mut self, t: &mut Tape) -> Option<Vec<u8>> {
        let mut dir = self.dirs[t.below(self.dirs.len())].clone();
        let new_levels = t.weighted(&[8, 5, 2]);
        for _ in 0..new_levels {
            if dir.len() > 600 {
                break;
            }
            if !dir.is_empty() {
                dir.push(b'/');
            }
            dir.extend(component(t, DIRS));
        }
        let mut path = dir.clone();
        if !path.is_empty() {
            path.push(b'/');
        }
        path.extend(component(t, FILES));
        self.claim(path)
    }
    fn claim(&mut self, path: Vec<u8>) -> Option<Vec<u8>> {
        if path.is_empty() || self.files.contains(&path) || self.dirs.contains(&path) {
            return None;
        }
        // every ancestor must not be a file, no component may be special
        let comps: Vec<&[u8]> = path.split(|b| *b == b'/').collect();
        for comp in &comps {
            if comp.is_empty() || comp.eq_ignore_ascii_case(b".git") || *comp == b"." || *comp == b".." {
                return None;
            }
        }
        let mut anc = Vec::new();
        let mut ancestors = Vec::new();
        for comp in &comps[..comps.len() - 1] {
            if !anc.is_empty() {
                anc.push(b'/');
            }
            anc.extend_from_slice(comp);
            if self.files.contains(&anc) {
                return None;
            }
            ancestors.push(anc.clone());
        }
        for a in ancestors {
            // (directories of the very long names are never used as parents of further, possibly real, files)
            if a.len() <= 600 && !self.dirs.contains(&a) {
                self.dirs.push(a);
            }
        }
        self.files.insert(path.clone());
        Some(path)
    }
}

fn gen_kind(t: &mut Tape, real_budget: &mut usize, only_real: bool) -> Kind {
    let want_real = only_real || (*real_budget > 0 && t.chance(150));
    if want_real {
        *real_budget = real_budget.saturating_sub(1);
        if t.chance(30) {
            Kind::Symlink { target: t.below(4) as u8 }
        } else {
            let mtime = match t.weighted(&[3, 4, 1]) {
                0 => None,
                1 => Some((t.range(1, 2_000_000_000) as u32, t.below(1_000_000_000) as u32)),
                _ => Some((*t.pick(&[0u32, 1, 0x7fff_ffff, 0x8000_0000, 0xffff_fffe, 0xffff_ffff]), t.below(1_000_000_000) as u32)),
            };
            Kind::File {
                exec: t.chance(50),
                content: t.below(6) as u8,
                mtime,
            }
        }
    } else {
        Kind::IndexOnly {
            mode: *t.pick(&[0o100644, 0o100644, 0o100755, 0o120000, 0o160000]),
            content: t.below(6) as u8,
        }
    }
}

/// a path of exactly `len` bytes made of components of at most 200 bytes, starting with `lead`
pub fn long_path(lead: u8, variant: u8, len: usize) -> Vec<u8> {
    let mut p = Vec::with_capacity(len);
    p.push(lead);
    p.extend_from_slice(b"long");
    let mut comp = 5usize;
    while p.len() < len {
        let remaining = len - p.len();
        if comp >= 200 && remaining >= 2 {
            p.push(b'/');
            comp = 0;
        } else {
            // the variant byte makes the tails differ while the long prefix is shared
            p.push(if remaining <= 3 { b'0' + variant % 10 } else { b'L' });
            comp += 1;
        }
    }
    p
}

pub fn gen_script(t: &mut Tape) -> Script {
    let version = if t.chance(160) { 4 } else { 2 };
    let threads = *t.pick(&[1u32, 2, 2, 3, 4, 8]);
    let ieot = t.chance(220);
    let eoie = t.chance(220);
    let untracked_cache = t.chance(128);
    let class = t.weighted(&[10, 3, 3]); // plain, split, sparse
    let split = class == 1;
    let split_pct = *t.pick(&[20u8, 0, 100, 50]);
    let mut ns = Namespace::new();
    // git 2.39's sparse index conversion misbehaves (unsorted/duplicated entries, crashes) in the presence of
    // gitlinks, intent-to-add and pre-set skip-worktree entries: sparse worlds only hold real files and symlinks
    let sparse_class = class == 2;
    let n = match t.weighted(&[3, 6, 3]) {
        0 => t.range(0, 8),
        1 => t.range(9, 60),
        _ if sparse_class => t.range(30, 60),
        _ => t.range(61, 300),
    };
    let mut real_budget = 60usize;
    let mut paths = Vec::new();
    for _ in 0..n {
        if let Some(path) = ns.fresh(t) {
            let kind = gen_kind(t, &mut real_budget, sparse_class);
            paths.push(PathSpec { path, kind });
        }
    }
    let mut ita = Vec::new();
    if !sparse_class && t.chance(90) {
        for _ in 0..t.range(1, 3) {
            if let Some(p) = ns.fresh(t) {
                ita.push(p);
            }
        }
    }
    let pick_some = |t: &mut Tape, chance: u32, max: usize| -> Vec<usize> {
        let mut v = Vec::new();
        if !paths.is_empty() && !sparse_class && t.chance(chance) {
            for _ in 0..t.range(1, max) {
                let i = t.below(paths.len());
                if !v.contains(&i) {
                    v.push(i);
                }
            }
        }
        v
    };
    let skip_worktree = pick_some(t, 80, 4);
    let assume_unchanged = pick_some(t, 80, 4);
    let write_tree = t.chance(170);
    let late_removes = if t.chance(100) && !paths.is_empty() {
        vec![t.below(paths.len())]
    } else {
        Vec::new()
    };
    let mut late_adds = Vec::new();
    if t.chance(128) {
        for _ in 0..t.range(1, 4) {
            if let Some(path) = ns.fresh(t) {
                let mut none = 0usize;
                late_adds.push(PathSpec {
                    path,
                    kind: gen_kind(t, &mut none, sparse_class),
                });
            }
        }
    }
    let sparse = if class == 2 {
        let tops: Vec<Vec<u8>> = ns
            .dirs
            .iter()
            .filter(|d| {
                !d.is_empty() && d.len() < 60 && d.iter().all(|b| b.is_ascii_alphanumeric() || b"-./".contains(b))
            })
            .cloned()
            .collect();
        let mut chosen = Vec::new();
        if !tops.is_empty() {
            for _ in 0..t.range(0, 3) {
                let d = tops[t.below(tops.len())].clone();
                if !chosen.contains(&d) {
                    chosen.push(d);
                }
            }
        }
        Some(chosen)
    } else {
        None
    };
    let mut long_paths = Vec::new();
    if t.chance(64) {
        let lead = *t.pick(b"!0Mz~");
        for i in 0..t.range(1, 3) {
            let len = *t.pick(&[0xffeusize, 0xfff, 0x1000, 0x1001, 0x1002, 0x1003, 0x1004, 0x1005, 0x1006, 0x1007, 5000, 17_000, 17_000, 17_000]);
            let p = long_path(lead, i as u8, len);
            if let Some(p) = ns.claim(p) {
                long_paths.push((p, *t.pick(&[0o100644u32, 0o100755, 0o120000])));
            }
        }
    }
    let mut conflicts = Vec::new();
    if t.chance(110) {
        for _ in 0..t.range(1, 4) {
            // either an existing path or a new one
            let path = if !paths.is_empty() && t.bool() {
                paths[t.below(paths.len())].path.clone()
            } else {
                match ns.fresh(t) {
                    Some(p) => p,
                    None => continue,
                }
            };
            if conflicts.iter().any(|c: &Conflict| c.path == path) {
                continue;
            }
            let mask = t.range(1, 7);
            let mut stages = Vec::new();
            for s in 1..=3u32 {
                if mask & (1 << (s - 1)) != 0 {
                    stages.push((s, *t.pick(&[0o100644u32, 0o100755, 0o120000]), t.below(6) as u8));
                }
            }
            let resolve = match t.weighted(&[3, 3, 2]) {
                0 => None,
                1 => Some(true),
                _ => Some(false),
            };
            conflicts.push(Conflict { path, stages, resolve });
        }
    }
    let mut untracked = Vec::new();
    let status = untracked_cache && t.chance(200);
    if status {
        for _ in 0..t.range(0, 5) {
            if let Some(p) = ns.fresh(t) {
                untracked.push(p);
            }
        }
    }
    // per-directory exclude files make the UNTR hash-valid bitmap and id list non-trivial (any directory, also the
    // last one in the cache's pre-order)
    let mut gitignores = Vec::new();
    if status {
        for _ in 0..t.range(0, 3) {
            let d = ns.dirs[t.below(ns.dirs.len())].clone();
            if !gitignores.contains(&d) {
                gitignores.push(d);
            }
        }
    }
    Script {
        version,
        threads,
        ieot,
        eoie,
        untracked_cache,
        split,
        split_pct,
        paths,
        ita,
        skip_worktree,
        assume_unchanged,
        write_tree,
        late_adds,
        late_removes,
        sparse,
        long_paths,
        conflicts,
        untracked,
        gitignores,
        status,
    }
}

// ---------------------------------------------------------------------------------------------
// world construction

pub fn content(n: u8) -> Vec<u8> {
    match n {
        0 => Vec::new(),
        n => format!("content {n}\n").repeat(n as usize).into_bytes(),
    }
}

pub fn blob_id(n: u8) -> String {
    object_sha1("blob", &content(n))
}

pub fn os_path(root: &Path, rel: &[u8]) -> PathBuf {
    root.join(std::ffi::OsStr::from_bytes(rel))
}

pub fn set_mtime(path: &Path, secs: u32, nsecs: u32) -> Result<(), String> {
    let c = std::ffi::CString::new(path.as_os_str().as_bytes()).map_err(|e| e.to_string())?;
    let times = [
        libc::timespec {
            tv_sec: 0,
            tv_nsec: libc::UTIME_OMIT,
        },
        libc::timespec {
            tv_sec: secs as libc::time_t,
            tv_nsec: nsecs as _,
        },
    ];
    // SAFETY: valid NUL terminated path and a two element timespec array
    let r = unsafe { libc::utimensat(libc::AT_FDCWD, c.as_ptr(), times.as_ptr(), libc::AT_SYMLINK_NOFOLLOW) };
    if r != 0 {
        return Err(format!("utimensat: {}", std::io::Error::last_os_error()));
    }
    Ok(())
}

pub fn write_real(root: &Path, spec: &PathSpec) -> Result<(), String> {
    let p = os_path(root, &spec.path);
    if let Some(parent) = p.parent() {
        std::fs::create_dir_all(parent).map_err(|e| format!("mkdir {parent:?}: {e}"))?;
    }
    match &spec.kind {
        Kind::File { exec, content: n, mtime } => {
            std::fs::write(&p, content(*n)).map_err(|e| format!("write {p:?}: {e}"))?;
            if *exec {
                use std::os::unix::fs::PermissionsExt;
                std::fs::set_permissions(&p, std::fs::Permissions::from_mode(0o755)).map_err(|e| e.to_string())?;
            }
            if let Some((s, ns)) = mtime {
                set_mtime(&p, *s, *ns)?;
            }
        }
        Kind::Symlink { target } => {
            std::os::unix::fs::symlink(format!("target-{target}"), &p).map_err(|e| format!("symlink {p:?}: {e}"))?;
        }
        Kind::IndexOnly { .. } => {}
    }
    Ok(())
}

pub fn index_info_line(out: &mut Vec<u8>, mode: u32, id: &str, stage: u32, path: &[u8]) {
    out.extend_from_slice(format!("{mode:o} {id} {stage}\t").as_bytes());
    out.extend_from_slice(path);
    out.push(0);
}

pub const NULL_ID: &str = "0000000000000000000000000000000000000000";
pub const GITLINK_ID: &str = "0123456789abcdef0123456789abcdef01234567";

fn id_for(mode: u32, content_n: u8) -> String {
    if mode == 0o160000 {
        GITLINK_ID.to_string()
    } else {
        blob_id(content_n)
    }
}

/// add `specs` to the index (real files via --add --stdin, the rest via --index-info)
pub fn add_specs(git: &Git, root: &Path, specs: &[PathSpec]) -> Result<(), String> {
    let mut real = Vec::new();
    let mut info = Vec::new();
    for s in specs {
        match &s.kind {
            Kind::IndexOnly { mode, content } => index_info_line(&mut info, *mode, &id_for(*mode, *content), 0, &s.path),
            _ => {
                write_real(root, s)?;
                real.extend_from_slice(&s.path);
                real.push(0);
            }
        }
    }
    if !real.is_empty() {
        git.run_in(["update-index", "--add", "-z", "--stdin"], Some(&real))?;
    }
    if !info.is_empty() {
        git.run_in(["update-index", "-z", "--index-info"], Some(&info))?;
    }
    Ok(())
}

/// Build the world described by `s`, calling `snapshot(case, world, git, step)` after every step that may have
/// rewritten `.git/index` (and once more as "final"); a `false` return ends the case.
pub fn run_script(
    s: &Script,
    c: &mut Case,
    snapshot: &mut dyn FnMut(&mut Case, &World, &Git, &'static str) -> bool,
) {
    let w = infra!(c, World::new("c24", false), "world");
    let root = w.repo();
    let mut git = w
        .git
        .clone()
        .env("GIT_LITERAL_PATHSPECS", "1")
        .cfg(&format!("index.version={}", s.version))
        .cfg(&format!("index.threads={}", s.threads))
        .cfg(&format!("index.recordOffsetTable={}", s.ieot))
        .cfg(&format!("index.recordEndOfIndexEntries={}", s.eoie))
        .cfg(&format!("core.untrackedCache={}", if s.untracked_cache { "true" } else { "false" }))
        .cfg(&format!("splitIndex.maxPercentChange={}", s.split_pct))
        .cfg("core.quotePath=false");

    // every blob an index-only entry may name exists (`status` and `commit` read them)
    {
        let mut args: Vec<std::ffi::OsString> = vec!["hash-object".into(), "-w".into(), "--".into()];
        for n in 0..6u8 {
            let p = w.scratch.join(format!("blob{n}"));
            infra!(c, std::fs::write(&p, content(n)), "write blob file");
            args.push(p.into_os_string());
        }
        infra!(c, git.run(&args), "hash-object");
    }
    // B: initial population
    infra!(c, add_specs(&git, &root, &s.paths), "initial add");
    if s.paths.is_empty() {
        // make sure an index file exists
        infra!(c, git.run(["update-index", "--refresh"]), "refresh");
        infra!(c, git.run(["read-tree", "--empty"]), "read-tree --empty");
    }
    if !snapshot(c, &w, &git, "initial add") {
        return;
    }
    if s.split {
        infra!(c, git.run(["update-index", "--split-index"]), "split-index");
        git = git.cfg("core.splitIndex=true");
        if !snapshot(c, &w, &git, "split-index") {
            return;
        }
    }
    // C: intent-to-add, skip-worktree, assume-unchanged
    let mut changed = false;
    if !s.ita.is_empty() {
        let mut args: Vec<std::ffi::OsString> = vec!["add".into(), "-N".into(), "--".into()];
        for p in &s.ita {
            let spec = PathSpec {
                path: p.clone(),
                kind: Kind::File {
                    exec: false,
                    content: 1,
                    mtime: None,
                },
            };
            infra!(c, write_real(&root, &spec), "write ita file");
            args.push(std::ffi::OsStr::from_bytes(p).to_os_string());
        }
        infra!(c, git.run(&args), "add -N");
        changed = true;
    }
    for (list, flag) in [(&s.skip_worktree, "--skip-worktree"), (&s.assume_unchanged, "--assume-unchanged")] {
        if !list.is_empty() {
            let mut stdin = Vec::new();
            for &i in list.iter() {
                stdin.extend_from_slice(&s.paths[i].path);
                stdin.push(0);
            }
            infra!(c, git.run_in(["update-index", flag, "-z", "--stdin"], Some(&stdin)), flag);
            changed = true;
        }
    }
    if changed && !snapshot(c, &w, &git, "flags") {
        return;
    }
    // D: cache tree and partial invalidation
    if s.write_tree {
        let (ok, _, _) = infra!(c, git.try_run(["write-tree", "--missing-ok"], None), "write-tree");
        c.label_if(!ok, "write-tree-refused");
        // `write-tree` only updates the index file when the cache tree changed
        if !snapshot(c, &w, &git, "write-tree") {
            return;
        }
    }
    if !s.late_adds.is_empty() || !s.late_removes.is_empty() {
        if !s.late_removes.is_empty() {
            let mut stdin = Vec::new();
            for &i in &s.late_removes {
                stdin.extend_from_slice(&s.paths[i].path);
                stdin.push(0);
            }
            infra!(
                c,
                git.run_in(["update-index", "--force-remove", "-z", "--stdin"], Some(&stdin)),
                "force-remove"
            );
        }
        infra!(c, add_specs(&git, &root, &s.late_adds), "late add");
        if !snapshot(c, &w, &git, "late changes") {
            return;
        }
    }
    // I: sparse index
    if let Some(dirs) = &s.sparse {
        let (ok, _, _) = infra!(c, git.try_run(["commit", "-q", "--no-verify", "-m", "base"], None), "commit");
        if ok {
            let mut args: Vec<std::ffi::OsString> =
                vec!["sparse-checkout".into(), "set".into(), "--cone".into(), "--sparse-index".into()];
            for d in dirs {
                args.push(std::ffi::OsStr::from_bytes(d).to_os_string());
            }
            let g = git.clone().cfg("index.sparse=true");
            let ok = match g.try_run(&args, None) {
                Ok((ok, _, _)) => ok,
                Err(_) => {
                    // git itself crashed
                    c.label("git-sparse-checkout-crashed");
                    if std::env::var_os("C24_DEBUG").is_some() {
                        eprintln!("sparse-checkout crashed in {:?} {:?}", w.repo(), args);
                    }
                    c.discard();
                    return;
                }
            };
            c.label_if(!ok, "sparse-checkout-refused");
            git = g;
            if !snapshot(c, &w, &git, "sparse-checkout") {
                return;
            }
        } else {
            c.label("commit-refused");
        }
    }
    // L: names beyond the 12 bit length field
    if !s.long_paths.is_empty() {
        let mut info = Vec::new();
        for (p, mode) in &s.long_paths {
            index_info_line(&mut info, *mode, &blob_id(0), 0, p);
        }
        infra!(c, git.run_in(["update-index", "-z", "--index-info"], Some(&info)), "long paths");
        if !snapshot(c, &w, &git, "long names") {
            return;
        }
    }
    // E: conflicts
    if !s.conflicts.is_empty() {
        let mut info = Vec::new();
        for cf in &s.conflicts {
            index_info_line(&mut info, 0, NULL_ID, 0, &cf.path);
            for (stage, mode, content) in &cf.stages {
                index_info_line(&mut info, *mode, &blob_id(*content), *stage, &cf.path);
            }
        }
        infra!(c, git.run_in(["update-index", "-z", "--index-info"], Some(&info)), "conflict stages");
        if !snapshot(c, &w, &git, "conflicts") {
            return;
        }
        // F: resolution
        let mut info = Vec::new();
        let mut remove = Vec::new();
        for cf in &s.conflicts {
            match cf.resolve {
                Some(true) => index_info_line(&mut info, 0o100644, &blob_id(3), 0, &cf.path),
                Some(false) => {
                    remove.extend_from_slice(&cf.path);
                    remove.push(0);
                }
                None => {}
            }
        }
        if !info.is_empty() {
            infra!(c, git.run_in(["update-index", "-z", "--index-info"], Some(&info)), "resolve");
        }
        if !remove.is_empty() {
            infra!(
                c,
                git.run_in(["update-index", "--force-remove", "-z", "--stdin"], Some(&remove)),
                "resolve by removal"
            );
        }
        if (!info.is_empty() || !remove.is_empty()) && !snapshot(c, &w, &git, "resolution") {
            return;
        }
    }
    // G: untracked cache
    if s.status {
        for p in &s.untracked {
            let spec = PathSpec {
                path: p.clone(),
                kind: Kind::File {
                    exec: false,
                    content: 2,
                    mtime: None,
                },
            };
            infra!(c, write_real(&root, &spec), "write untracked file");
        }
        if s.untracked.len() >= 2 {
            infra!(c, std::fs::write(root.join(".gitignore"), b"*.o\n/ignored\n"), "write .gitignore");
        }
        for d in &s.gitignores {
            let dir = os_path(&root, d);
            // only directories that exist in the worktree (index-only entries create none)
            if dir.is_dir() && !dir.join(".gitignore").exists() {
                infra!(c, std::fs::write(dir.join(".gitignore"), b"*.tmp\n"), "write nested .gitignore");
            }
        }
        infra!(c, git.run(["status", "--porcelain", "-z"]), "status");
        if !snapshot(c, &w, &git, "status") {
            return;
        }
        if s.untracked.len() >= 3 {
            // a second run validates and re-writes the cache
            infra!(c, git.run(["status", "--porcelain", "-z"]), "status 2");
            if !snapshot(c, &w, &git, "second status") {
                return;
            }
        }
    }
    snapshot(c, &w, &git, "final");
}
