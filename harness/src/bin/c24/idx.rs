//! Independent reader for git index files (shared by C24 and C25).
//!
//! Written from Documentation/gitformat-index.txt and git's read-cache.c / dir.c / cache-tree.c /
//! resolve-undo.c / split-index.c / ewah_io.c. Shares no code with gix-index or gix-bitmap. The reader is
//! strict: every structural expectation of the format is verified (padding bytes are NUL, the trailing
//! checksum is the SHA-1 of the preceding bytes or all-zero, the EOIE offset/hash and the IEOT block offsets
//! agree with what the sequential parse found), so that a file it accepts is known to be laid out correctly.
#![allow(dead_code)]

pub type Id = [u8; 20];

#[derive(Clone, Copy, Debug, PartialEq, Eq, Hash, Default)]
pub struct StatData {
    pub ctime: (u32, u32),
    pub mtime: (u32, u32),
    pub dev: u32,
    pub ino: u32,
    pub uid: u32,
    pub gid: u32,
    pub size: u32,
}

#[derive(Clone, Debug, PartialEq, Eq)]
pub struct Entry {
    pub stat: StatData,
    pub mode: u32,
    pub id: Id,
    /// the on-disk 16 bit flags (assume-valid 0x8000, extended 0x4000, stage 0x3000, name length 0x0fff)
    pub flags16: u16,
    /// the on-disk extended flags (0 when absent)
    pub ext16: u16,
    pub path: Vec<u8>,
    /// offset of the first byte of this entry in the file
    pub offset: usize,
    /// number of NUL bytes following the path (v2/v3: 1..=8, v4: 1)
    pub nuls: usize,
    /// v4 only: the number of bytes stripped from the previous path
    pub strip: u64,
}

impl Entry {
    pub fn stage(&self) -> u32 {
        ((self.flags16 >> 12) & 3) as u32
    }
    /// git's in-memory `ce_flags` restricted to what is stored on disk: on-disk flags without the name length,
    /// extended flags shifted into the upper half.
    pub fn mem_flags(&self) -> u32 {
        (self.flags16 & 0xf000) as u32 | (self.ext16 as u32) << 16
    }
    pub fn name_len_field(&self) -> usize {
        (self.flags16 & 0x0fff) as usize
    }
}

#[derive(Clone, Debug, PartialEq, Eq)]
pub struct TreeNode {
    pub name: Vec<u8>,
    /// -1 = invalidated
    pub entry_count: i64,
    pub id: Option<Id>,
    pub children: Vec<TreeNode>,
}

#[derive(Clone, Debug, PartialEq, Eq)]
pub struct Reuc {
    pub path: Vec<u8>,
    pub modes: [u32; 3],
    pub ids: [Option<Id>; 3],
}

#[derive(Clone, Debug, PartialEq, Eq)]
pub struct Ewah {
    pub bit_size: u32,
    pub set_bits: Vec<usize>,
}

#[derive(Clone, Debug, PartialEq, Eq)]
pub struct Link {
    pub base_id: Id,
    pub bitmaps: Option<(Ewah, Ewah)>,
}

#[derive(Clone, Debug, PartialEq, Eq)]
pub struct UntrDir {
    pub name: Vec<u8>,
    pub untracked: Vec<Vec<u8>>,
    pub n_subdirs: usize,
    pub valid: bool,
    pub check_only: bool,
    pub stat: Option<StatData>,
    pub exclude_id: Option<Id>,
}

#[derive(Clone, Debug, PartialEq, Eq)]
pub struct Untr {
    pub ident: Vec<u8>,
    pub info_exclude: (StatData, Id),
    pub excludes_file: (StatData, Id),
    pub dir_flags: u32,
    pub exclude_per_dir: Vec<u8>,
    /// pre-order
    pub dirs: Vec<UntrDir>,
}

#[derive(Clone, Debug, PartialEq, Eq)]
pub struct Index {
    pub version: u32,
    pub entries: Vec<Entry>,
    /// offset of the first extension (== end of entries)
    pub ext_start: usize,
    /// signatures of all extensions in file order
    pub ext_order: Vec<[u8; 4]>,
    pub tree: Option<TreeNode>,
    pub reuc: Option<Vec<Reuc>>,
    pub link: Option<Link>,
    pub untr: Option<Untr>,
    pub eoie: Option<(u32, Id)>,
    pub ieot: Option<Vec<(u32, u32)>>,
    pub sdir: bool,
    pub fsmn: bool,
    pub checksum: Id,
    pub checksum_is_null: bool,
}

struct Cur<'a> {
    d: &'a [u8],
    p: usize,
    end: usize,
}

impl<'a> Cur<'a> {
    fn new(d: &'a [u8], p: usize, end: usize) -> Self {
        Cur { d, p, end }
    }
    fn left(&self) -> usize {
        self.end - self.p
    }
    fn u8(&mut self) -> Result<u8, String> {
        if self.p >= self.end {
            return Err(format!("unexpected end at {}", self.p));
        }
        let b = self.d[self.p];
        self.p += 1;
        Ok(b)
    }
    fn take(&mut self, n: usize) -> Result<&'a [u8], String> {
        if self.left() < n {
            return Err(format!("want {n} bytes at {}, have {}", self.p, self.left()));
        }
        let s = &self.d[self.p..self.p + n];
        self.p += n;
        Ok(s)
    }
    fn u16(&mut self) -> Result<u16, String> {
        let s = self.take(2)?;
        Ok(u16::from_be_bytes([s[0], s[1]]))
    }
    fn u32(&mut self) -> Result<u32, String> {
        let s = self.take(4)?;
        Ok(u32::from_be_bytes([s[0], s[1], s[2], s[3]]))
    }
    fn u64(&mut self) -> Result<u64, String> {
        let s = self.take(8)?;
        let mut a = [0u8; 8];
        a.copy_from_slice(s);
        Ok(u64::from_be_bytes(a))
    }
    fn id(&mut self) -> Result<Id, String> {
        let s = self.take(20)?;
        let mut a = [0u8; 20];
        a.copy_from_slice(s);
        Ok(a)
    }
    /// bytes up to (not including) the next `term`; the terminator is consumed
    fn until(&mut self, term: u8) -> Result<&'a [u8], String> {
        let start = self.p;
        while self.p < self.end {
            if self.d[self.p] == term {
                let s = &self.d[start..self.p];
                self.p += 1;
                return Ok(s);
            }
            self.p += 1;
        }
        Err(format!("no terminator {term:#x} after offset {start}"))
    }
    /// git's `decode_varint` (the "offset" encoding also used for OFS_DELTA)
    fn varint(&mut self) -> Result<u64, String> {
        let mut c = self.u8()?;
        let mut val = (c & 127) as u64;
        while c & 128 != 0 {
            val = val.checked_add(1).ok_or("varint overflow")?;
            if val > (u64::MAX >> 7) {
                return Err("varint overflow".into());
            }
            c = self.u8()?;
            val = (val << 7) + (c & 127) as u64;
        }
        Ok(val)
    }
    fn stat(&mut self) -> Result<StatData, String> {
        Ok(StatData {
            ctime: (self.u32()?, self.u32()?),
            mtime: (self.u32()?, self.u32()?),
            dev: self.u32()?,
            ino: self.u32()?,
            uid: self.u32()?,
            gid: self.u32()?,
            size: self.u32()?,
        })
    }
    /// ewah_io.c: bit_size, word_count, words, rlw position
    fn ewah(&mut self) -> Result<Ewah, String> {
        let bit_size = self.u32()?;
        let nwords = self.u32()? as usize;
        if self.left() < nwords.saturating_mul(8) {
            return Err("ewah words exceed data".into());
        }
        let mut words = Vec::with_capacity(nwords);
        for _ in 0..nwords {
            words.push(self.u64()?);
        }
        let _rlw_pos = self.u32()?;
        let mut set_bits = Vec::new();
        let mut pos = 0usize;
        let mut i = 0usize;
        while i < words.len() {
            let rlw = words[i];
            i += 1;
            let run_bit = rlw & 1 == 1;
            let run_len = ((rlw >> 1) & 0xffff_ffff) as usize;
            let literals = (rlw >> 33) as usize;
            if run_bit {
                for k in 0..run_len * 64 {
                    set_bits.push(pos + k);
                }
            }
            pos += run_len * 64;
            for _ in 0..literals {
                let w = *words.get(i).ok_or("ewah literal words exceed buffer")?;
                i += 1;
                for b in 0..64 {
                    if (w >> b) & 1 == 1 {
                        set_bits.push(pos + b);
                    }
                }
                pos += 64;
            }
        }
        Ok(Ewah { bit_size, set_bits })
    }
}

pub fn sha1(data: &[u8]) -> Id {
    let mut h = sha1_smol::Sha1::new();
    h.update(data);
    h.digest().bytes()
}

fn parse_tree(c: &mut Cur) -> Result<TreeNode, String> {
    let name = c.until(0)?.to_vec();
    let count = c.until(b' ')?;
    let count: i64 = std::str::from_utf8(count)
        .ok()
        .and_then(|s| s.parse().ok())
        .ok_or("TREE: bad entry count")?;
    let subtrees = c.until(b'\n')?;
    let subtrees: usize = std::str::from_utf8(subtrees)
        .ok()
        .and_then(|s| s.parse().ok())
        .ok_or("TREE: bad subtree count")?;
    let id = if count >= 0 { Some(c.id()?) } else { None };
    let mut children = Vec::new();
    for _ in 0..subtrees {
        children.push(parse_tree(c)?);
    }
    Ok(TreeNode {
        name,
        entry_count: count,
        id,
        children,
    })
}

fn parse_reuc(c: &mut Cur) -> Result<Vec<Reuc>, String> {
    let mut out = Vec::new();
    while c.left() > 0 {
        let path = c.until(0)?.to_vec();
        let mut modes = [0u32; 3];
        for m in modes.iter_mut() {
            let s = c.until(0)?;
            let s = std::str::from_utf8(s).map_err(|_| "REUC: mode not ascii")?;
            *m = u32::from_str_radix(s, 8).map_err(|_| format!("REUC: bad octal mode {s:?}"))?;
        }
        let mut ids = [None, None, None];
        for (m, id) in modes.iter().zip(ids.iter_mut()) {
            if *m != 0 {
                *id = Some(c.id()?);
            }
        }
        out.push(Reuc { path, modes, ids });
    }
    Ok(out)
}

fn parse_untr_dir(c: &mut Cur, out: &mut Vec<UntrDir>, depth: usize) -> Result<(), String> {
    if depth > 4096 {
        return Err("UNTR: too deep".into());
    }
    let n_untracked = c.varint()? as usize;
    let n_subdirs = c.varint()? as usize;
    let name = c.until(0)?.to_vec();
    let mut untracked = Vec::new();
    for _ in 0..n_untracked {
        untracked.push(c.until(0)?.to_vec());
    }
    out.push(UntrDir {
        name,
        untracked,
        n_subdirs,
        valid: false,
        check_only: false,
        stat: None,
        exclude_id: None,
    });
    for _ in 0..n_subdirs {
        parse_untr_dir(c, out, depth + 1)?;
    }
    Ok(())
}

/// dir.c: write_untracked_extension / read_untracked_extension
fn parse_untr(c: &mut Cur) -> Result<Untr, String> {
    let ident_len = c.varint()? as usize;
    let ident = c.take(ident_len)?.to_vec();
    // struct ondisk_untracked_cache { stat_data info_exclude_stat; stat_data excludes_file_stat; uint32 dir_flags; }
    // followed by the two hashes, then the NUL terminated per-directory exclude file name
    let info_stat = c.stat()?;
    let excl_stat = c.stat()?;
    let dir_flags = c.u32()?;
    let info_id = c.id()?;
    let excl_id = c.id()?;
    let exclude_per_dir = c.until(0)?.to_vec();
    let n_dirs = c.varint()? as usize;
    let mut dirs = Vec::new();
    if n_dirs == 0 {
        if c.left() != 0 {
            return Err(format!("UNTR: {} bytes after an empty directory list", c.left()));
        }
    } else {
        parse_untr_dir(c, &mut dirs, 0)?;
        if dirs.len() != n_dirs {
            return Err(format!("UNTR: {} directory blocks, header says {}", dirs.len(), n_dirs));
        }
        let valid = c.ewah()?;
        let check_only = c.ewah()?;
        let hash_valid = c.ewah()?;
        for &b in &valid.set_bits {
            let d = dirs.get_mut(b).ok_or("UNTR: valid bit out of range")?;
            d.valid = true;
        }
        for &b in &check_only.set_bits {
            dirs.get_mut(b).ok_or("UNTR: check_only bit out of range")?.check_only = true;
        }
        for &b in &valid.set_bits {
            dirs[b].stat = Some(c.stat()?);
        }
        for &b in &hash_valid.set_bits {
            let id = c.id()?;
            dirs.get_mut(b).ok_or("UNTR: hash_valid bit out of range")?.exclude_id = Some(id);
        }
        if c.left() != 1 || c.u8()? != 0 {
            return Err("UNTR: missing trailing NUL guard".into());
        }
    }
    Ok(Untr {
        ident,
        info_exclude: (info_stat, info_id),
        excludes_file: (excl_stat, excl_id),
        dir_flags,
        exclude_per_dir,
        dirs,
    })
}

fn parse_link(c: &mut Cur) -> Result<Link, String> {
    let base_id = c.id()?;
    if c.left() == 0 {
        return Ok(Link { base_id, bitmaps: None });
    }
    let delete = c.ewah()?;
    let replace = c.ewah()?;
    if c.left() != 0 {
        return Err("link: trailing bytes".into());
    }
    Ok(Link {
        base_id,
        bitmaps: Some((delete, replace)),
    })
}

/// Parse a complete index file.
pub fn parse(d: &[u8]) -> Result<Index, String> {
    if d.len() < 12 + 20 {
        return Err("file too short".into());
    }
    let body_end = d.len() - 20;
    let mut checksum = [0u8; 20];
    checksum.copy_from_slice(&d[body_end..]);
    let checksum_is_null = checksum == [0u8; 20];
    if !checksum_is_null && sha1(&d[..body_end]) != checksum {
        return Err("trailing checksum is neither null nor the SHA-1 of the preceding bytes".into());
    }
    let mut c = Cur::new(d, 0, body_end);
    if c.take(4)? != b"DIRC" {
        return Err("bad signature".into());
    }
    let version = c.u32()?;
    if !(2..=4).contains(&version) {
        return Err(format!("unsupported version {version}"));
    }
    let n = c.u32()? as usize;
    let mut entries: Vec<Entry> = Vec::with_capacity(n.min(1 << 20));
    let mut prev_path: Vec<u8> = Vec::new();
    for i in 0..n {
        let offset = c.p;
        let stat_a = (c.u32()?, c.u32()?);
        let stat_b = (c.u32()?, c.u32()?);
        let dev = c.u32()?;
        let ino = c.u32()?;
        let mode = c.u32()?;
        let uid = c.u32()?;
        let gid = c.u32()?;
        let size = c.u32()?;
        let id = c.id()?;
        let flags16 = c.u16()?;
        let mut ext16 = 0u16;
        if flags16 & 0x4000 != 0 {
            if version < 3 {
                return Err(format!("entry {i}: extended flag in a version 2 index"));
            }
            ext16 = c.u16()?;
            if ext16 & !0x6000 != 0 {
                return Err(format!("entry {i}: unknown extended flags {ext16:#x}"));
            }
        }
        let name_len = (flags16 & 0x0fff) as usize;
        let (path, nuls, strip);
        if version == 4 {
            let s = c.varint()?;
            if s as usize > prev_path.len() {
                return Err(format!("entry {i}: strips {s} of a {} byte name", prev_path.len()));
            }
            let suffix = c.until(0)?;
            let mut p = prev_path[..prev_path.len() - s as usize].to_vec();
            p.extend_from_slice(suffix);
            path = p;
            nuls = 1;
            strip = s;
        } else {
            let start = c.p;
            let p = if name_len < 0x0fff {
                let p = c.take(name_len)?.to_vec();
                if p.contains(&0) {
                    return Err(format!("entry {i}: NUL inside a name of declared length {name_len}"));
                }
                p
            } else {
                // strlen
                let s = c.until(0)?;
                c.p -= 1; // un-consume the terminator, counted as padding below
                s.to_vec()
            };
            let _ = start;
            // 1..8 NULs so that the entry size is a multiple of 8
            let used = c.p - offset;
            let total = (used + 8) & !7;
            let pad = total - used;
            let padding = c.take(pad)?;
            if padding.iter().any(|b| *b != 0) {
                return Err(format!("entry {i}: padding is not NUL"));
            }
            path = p;
            nuls = pad;
            strip = 0;
        }
        if name_len < 0x0fff {
            if path.len() != name_len {
                return Err(format!(
                    "entry {i}: name length field {name_len} but the name has {} bytes",
                    path.len()
                ));
            }
        } else if path.len() < 0x0fff {
            return Err(format!("entry {i}: saturated name length but a {} byte name", path.len()));
        }
        prev_path = path.clone();
        entries.push(Entry {
            stat: StatData {
                ctime: stat_a,
                mtime: stat_b,
                dev,
                ino,
                uid,
                gid,
                size,
            },
            mode,
            id,
            flags16,
            ext16,
            path,
            offset,
            nuls,
            strip,
        });
    }
    let ext_start = c.p;
    let mut idx = Index {
        version,
        entries,
        ext_start,
        ext_order: Vec::new(),
        tree: None,
        reuc: None,
        link: None,
        untr: None,
        eoie: None,
        ieot: None,
        sdir: false,
        fsmn: false,
        checksum,
        checksum_is_null,
    };
    let mut eoie_hash = sha1_smol::Sha1::new();
    while c.left() > 0 {
        let sig_at = c.p;
        let sig = c.take(4)?;
        let sig: [u8; 4] = [sig[0], sig[1], sig[2], sig[3]];
        let size = c.u32()? as usize;
        if c.left() < size {
            return Err(format!(
                "extension {:?} at {sig_at} claims {size} bytes, {} left",
                String::from_utf8_lossy(&sig),
                c.left()
            ));
        }
        let mut e = Cur::new(d, c.p, c.p + size);
        c.p += size;
        if idx.ext_order.contains(&sig) {
            return Err(format!("duplicate extension {:?}", String::from_utf8_lossy(&sig)));
        }
        idx.ext_order.push(sig);
        if &sig != b"EOIE" {
            eoie_hash.update(&sig);
            eoie_hash.update(&(size as u32).to_be_bytes());
        }
        match &sig {
            b"TREE" => {
                let t = parse_tree(&mut e)?;
                if e.left() != 0 {
                    return Err("TREE: trailing bytes".into());
                }
                idx.tree = Some(t);
            }
            b"REUC" => idx.reuc = Some(parse_reuc(&mut e)?),
            b"link" => idx.link = Some(parse_link(&mut e)?),
            b"UNTR" => idx.untr = Some(parse_untr(&mut e)?),
            b"EOIE" => {
                if size != 24 {
                    return Err("EOIE: bad size".into());
                }
                let off = e.u32()?;
                let h = e.id()?;
                if c.left() != 0 {
                    return Err("EOIE is not the last extension".into());
                }
                if off as usize != ext_start {
                    return Err(format!("EOIE offset {off} but entries end at {ext_start}"));
                }
                if h != eoie_hash.digest().bytes() {
                    return Err("EOIE hash mismatch".into());
                }
                idx.eoie = Some((off, h));
            }
            b"IEOT" => {
                let v = e.u32()?;
                if v != 1 {
                    return Err(format!("IEOT version {v}"));
                }
                if e.left() % 8 != 0 {
                    return Err("IEOT: ragged".into());
                }
                let mut blocks = Vec::new();
                while e.left() > 0 {
                    blocks.push((e.u32()?, e.u32()?));
                }
                // blocks must tile the entries exactly
                let mut k = 0usize;
                for (off, nr) in &blocks {
                    let first = idx
                        .entries
                        .get(k)
                        .ok_or_else(|| format!("IEOT block starts at entry {k}, past the end"))?;
                    if first.offset != *off as usize {
                        return Err(format!(
                            "IEOT block for entry {k} says offset {off}, entry is at {}",
                            first.offset
                        ));
                    }
                    if idx.version == 4 && k > 0 && first.strip as usize != idx.entries[k - 1].path.len() {
                        return Err(format!("IEOT block at entry {k} does not restart prefix compression"));
                    }
                    k += *nr as usize;
                }
                if k != idx.entries.len() {
                    return Err(format!("IEOT blocks cover {k} entries of {}", idx.entries.len()));
                }
                idx.ieot = Some(blocks);
            }
            b"sdir" => {
                if size != 0 {
                    return Err("sdir: not empty".into());
                }
                idx.sdir = true;
            }
            b"FSMN" => idx.fsmn = true,
            other => {
                return Err(format!("unknown extension {:?}", String::from_utf8_lossy(other)));
            }
        }
    }
    Ok(idx)
}

// ---------------------------------------------------------------------------------------------
// `git ls-files --stage --debug -z` output

#[derive(Clone, Debug, PartialEq, Eq)]
pub struct GitEntry {
    pub mode: u32,
    pub id: Id,
    pub stage: u32,
    pub path: Vec<u8>,
    pub stat: StatData,
    pub flags: u32,
}

fn unhex20(s: &[u8]) -> Option<Id> {
    if s.len() != 40 {
        return None;
    }
    let mut id = [0u8; 20];
    for i in 0..20 {
        let h = (s[2 * i] as char).to_digit(16)?;
        let l = (s[2 * i + 1] as char).to_digit(16)?;
        id[i] = (h * 16 + l) as u8;
    }
    Some(id)
}

pub fn hex20(id: &Id) -> String {
    id.iter().map(|b| format!("{b:02x}")).collect()
}

/// Parse `git ls-files --stage --debug -z`: `<mode> <id> <stage>\t<path>\0` followed by five debug lines.
pub fn parse_ls_files_debug(out: &[u8]) -> Result<Vec<GitEntry>, String> {
    let mut v = Vec::new();
    let mut p = 0usize;
    fn line<'a>(out: &'a [u8], p: &mut usize) -> Result<&'a str, String> {
        let start = *p;
        while *p < out.len() && out[*p] != b'\n' {
            *p += 1;
        }
        if *p >= out.len() {
            return Err("ls-files: truncated debug line".into());
        }
        let s = std::str::from_utf8(&out[start..*p]).map_err(|_| "ls-files: debug line not utf8")?;
        *p += 1;
        Ok(s)
    }
    fn two(s: &str, a: &str, sep: &str, b: &str, radix_b: u32) -> Result<(u32, u32), String> {
        let bad = || format!("ls-files: cannot parse {s:?}");
        let s = s.trim_start().strip_prefix(a).ok_or_else(bad)?.trim_start();
        let (x, rest) = s.split_once(sep).ok_or_else(bad)?;
        let y = rest.trim_start().strip_prefix(b).ok_or_else(bad)?.trim_start();
        Ok((
            x.trim().parse::<u32>().map_err(|_| bad())?,
            u32::from_str_radix(y.trim(), radix_b).map_err(|_| bad())?,
        ))
    }
    while p < out.len() {
        // header up to TAB
        let tab = out[p..].iter().position(|b| *b == b'\t').ok_or("ls-files: no TAB")? + p;
        let head = std::str::from_utf8(&out[p..tab]).map_err(|_| "ls-files: header not utf8")?;
        let parts: Vec<&str> = head.split(' ').collect();
        if parts.len() != 3 {
            return Err(format!("ls-files: bad header {head:?}"));
        }
        let mode = u32::from_str_radix(parts[0], 8).map_err(|_| format!("ls-files: bad mode in {head:?}"))?;
        let id = unhex20(parts[1].as_bytes()).ok_or_else(|| format!("ls-files: bad id in {head:?}"))?;
        let stage: u32 = parts[2].parse().map_err(|_| format!("ls-files: bad stage in {head:?}"))?;
        let nul = out[tab + 1..].iter().position(|b| *b == 0).ok_or("ls-files: no NUL")? + tab + 1;
        let path = out[tab + 1..nul].to_vec();
        p = nul + 1;
        let l = line(out, &mut p)?;
        let ctime = two(l, "ctime:", ":", "", 10)?;
        let l = line(out, &mut p)?;
        let mtime = two(l, "mtime:", ":", "", 10)?;
        let l = line(out, &mut p)?;
        let (dev, ino) = two(l, "dev:", "\t", "ino:", 10)?;
        let l = line(out, &mut p)?;
        let (uid, gid) = two(l, "uid:", "\t", "gid:", 10)?;
        let l = line(out, &mut p)?;
        let (size, flags) = two(l, "size:", "\t", "flags:", 16)?;
        v.push(GitEntry {
            mode,
            id,
            stage,
            path,
            stat: StatData {
                ctime,
                mtime,
                dev,
                ino,
                uid,
                gid,
                size,
            },
            flags,
        });
    }
    Ok(v)
}

/// The bits of git's in-memory `ce_flags` that are stored on disk.
pub const ONDISK_FLAG_MASK: u32 = 0x8000 | 0x4000 | 0x3000 | 1 << 29 | 1 << 30;

/// Compare the reader's entries with what git lists for the same file. `Err` describes the first difference.
pub fn compare_with_git(idx: &Index, git: &[GitEntry]) -> Result<(), String> {
    if idx.entries.len() != git.len() {
        return Err(format!(
            "reader found {} entries, git lists {}",
            idx.entries.len(),
            git.len()
        ));
    }
    for (i, (a, b)) in idx.entries.iter().zip(git).enumerate() {
        let same = a.path == b.path
            && a.stage() == b.stage
            && a.mode == b.mode
            && a.id == b.id
            && a.stat == b.stat
            && a.mem_flags() & ONDISK_FLAG_MASK == b.flags & ONDISK_FLAG_MASK;
        if !same {
            return Err(format!("entry {i}: reader {a:?} vs git {b:?}"));
        }
    }
    Ok(())
}

/// git's index order: memcmp of the common length, then length, then stage.
pub fn index_order(a_path: &[u8], a_stage: u32, b_path: &[u8], b_stage: u32) -> std::cmp::Ordering {
    let n = a_path.len().min(b_path.len());
    a_path[..n]
        .cmp(&b_path[..n])
        .then(a_path.len().cmp(&b_path.len()))
        .then(a_stage.cmp(&b_stage))
}

/// split-index.c:merge_base_index — combine the entries of a shared index with those of the split index.
pub fn merge_split(base: &Index, split: &Index) -> Result<Vec<Entry>, String> {
    let link = split.link.as_ref().ok_or("no link extension")?;
    let mut merged: Vec<Option<Entry>> = base.entries.iter().cloned().map(Some).collect();
    let mut replacements = 0usize;
    if let Some((delete, replace)) = &link.bitmaps {
        for &pos in &replace.set_bits {
            let src = split
                .entries
                .get(replacements)
                .ok_or("replace bitmap has more bits than the split index has entries")?;
            if !src.path.is_empty() {
                return Err("replacement entry with a name".into());
            }
            let dst = merged
                .get_mut(pos)
                .ok_or("replace bit beyond the shared index")?
                .as_mut()
                .ok_or("replaced entry missing")?;
            let name = dst.path.clone();
            let mut e = src.clone();
            e.path = name;
            *dst = e;
            replacements += 1;
        }
        for &pos in &delete.set_bits {
            if replace.set_bits.contains(&pos) {
                return Err("entry both replaced and deleted".into());
            }
            *merged.get_mut(pos).ok_or("delete bit beyond the shared index")? = None;
        }
    }
    let mut out: Vec<Entry> = merged.into_iter().flatten().collect();
    for e in &split.entries[replacements..] {
        if e.path.is_empty() {
            return Err("added entry without a name".into());
        }
        // add_index_entry replaces an entry of the same name and stage
        if let Some(pos) = out.iter().position(|o| o.path == e.path && o.stage() == e.stage()) {
            out[pos] = e.clone();
        } else {
            out.push(e.clone());
        }
    }
    out.sort_by(|a, b| index_order(&a.path, a.stage(), &b.path, b.stage()));
    Ok(out)
}
