//! C45 — text merges obey the merge identities and never panic.
//!
//! One case = a triple (base, ours, theirs) of line-based texts derived from a common base, a diff algorithm, a marker
//! size and labels. Every conflict mode (Keep x {merge, diff3, zdiff3}, ours, theirs, union) is run on the triple; each
//! call is individually guarded against panics so that one failing mode does not hide the others.
//!
//! Algebraic oracle (no external program):
//!  I1  ours == base   => output == theirs, Resolution::Complete           (every mode)
//!  I2  theirs == base => output == ours,   Resolution::Complete           (every mode)
//!  I3  ours == theirs => output == ours,   Resolution::Complete           (every mode)
//!  M1  Keep + Complete  => the output contains no conflict-marker line that is not a line of an input
//!  M2  Keep + Conflict  => the output contains the `<`, `=` and `>` marker lines (and `|` for the diff3 styles)
//!  R1  ours/theirs/union => Resolution::Complete
//!  L1  (all inputs newline-terminated) every output line of a resolving mode is a line of an input; every output line of
//!      a Keep mode is a line of an input or a marker line
//!  R2  (all inputs newline-terminated, markers unambiguous) the `ours` (`theirs`) resolution equals the diff3-style Keep
//!      output with every conflict block replaced by its ours (theirs) part: inside conflicts only lines of the base or
//!      the chosen side, outside conflicts exactly what the marker-keeping merge produces
//!  S1  (evidence only, label `verdict-depends-on-side-order`; the swapped runs are still guarded against panics) swapping
//!      ours and theirs under Keep keeps the conflict / no-conflict verdict
//! A separate small sub-check records (as labels, not as a verdict) how often `git merge-file -p` agrees byte for byte.
use std::cell::RefCell;
use std::collections::BTreeSet;

use gix_diff::blob::intern::InternedInput;
use gix_diff::blob::Algorithm;
use gix_merge::blob::builtin_driver::text::{Conflict, ConflictStyle, Labels, Options};
use gix_merge::blob::Resolution;
use gix_object::bstr::{BStr, ByteSlice};
use vp::*;

// ------------------------------------------------------------------------------------------------ generator

#[derive(Clone, Copy, Debug, PartialEq, Eq, Hash)]
enum Eol {
    Lf,
    Crlf,
    Mixed,
}

fn term(t: &mut Tape, eol: Eol) -> &'static [u8] {
    match eol {
        Eol::Lf => b"\n",
        Eol::Crlf => b"\r\n",
        Eol::Mixed => {
            if t.bool() {
                b"\r\n"
            } else {
                b"\n"
            }
        }
    }
}

fn gen_content(t: &mut Tape, marker_size: usize) -> Vec<u8> {
    match t.weighted(&[78, 8, 6, 8]) {
        0 => vec![*t.pick(b"abcdefgh")],
        1 => vec![],
        2 => {
            let mut v = vec![*t.pick(b"abcxyz")];
            v.push(b' ');
            v.push(*t.pick(b"abcxyz"));
            v
        }
        _ => {
            // looks like a conflict marker
            let ch = *t.pick(b"<=>|");
            let n = match t.weighted(&[5, 2, 3]) {
                0 => marker_size,
                1 => 7,
                _ => t.range(1, 20),
            };
            let mut v = vec![ch; n];
            if t.chance(64) {
                v.extend_from_slice(b" x");
            }
            v
        }
    }
}

fn gen_line(t: &mut Tape, eol: Eol, marker_size: usize) -> Vec<u8> {
    let mut l = gen_content(t, marker_size);
    l.extend_from_slice(term(t, eol));
    l
}

#[derive(Clone, Debug, PartialEq, Eq, Hash)]
struct Op {
    pos: usize,
    del: usize,
    ins: Vec<Vec<u8>>,
}

fn gen_op(t: &mut Tape, base: &[Vec<u8>], pos: usize, eol: Eol, marker_size: usize) -> Op {
    let n = base.len();
    let pos = pos.min(n);
    let del = t.weighted(&[4, 5, 2, 1]).min(n - pos);
    let nins = t.weighted(&[3, 5, 2, 1]);
    let mut ins = Vec::new();
    for _ in 0..nins {
        if n > 0 && t.chance(60) {
            // duplicate a nearby base line
            let from = (pos + t.below(3)).saturating_sub(1).min(n - 1);
            ins.push(base[from].clone());
        } else {
            ins.push(gen_line(t, eol, marker_size));
        }
    }
    Op { pos, del, ins }
}

/// keep a non-overlapping subset (sorted by position); touching operations are fine
fn normalize(mut ops: Vec<Op>) -> Vec<Op> {
    ops.retain(|o| o.del > 0 || !o.ins.is_empty());
    ops.sort_by_key(|o| (o.pos, o.del));
    let mut out: Vec<Op> = Vec::new();
    for o in ops {
        match out.last() {
            Some(prev) if o.pos < prev.pos + prev.del || (o.pos == prev.pos && prev.del == 0 && o.del == 0) => {}
            _ => out.push(o),
        }
    }
    out
}

fn apply(base: &[Vec<u8>], ops: &[Op]) -> Vec<Vec<u8>> {
    let mut out = Vec::new();
    let mut at = 0;
    for o in ops {
        out.extend_from_slice(&base[at..o.pos]);
        out.extend(o.ins.iter().cloned());
        at = o.pos + o.del;
    }
    out.extend_from_slice(&base[at..]);
    out
}

fn strip_term(l: &[u8]) -> &[u8] {
    let l = l.strip_suffix(b"\n").unwrap_or(l);
    l.strip_suffix(b"\r").unwrap_or(l)
}

/// make sure only the last line can lack a terminator, then maybe drop the final terminator
fn finish_text(t: &mut Tape, mut lines: Vec<Vec<u8>>, drop_final: bool, eol: Eol) -> Vec<u8> {
    let n = lines.len();
    for (i, l) in lines.iter_mut().enumerate() {
        if !l.ends_with(b"\n") && i + 1 < n {
            l.extend_from_slice(term(t, eol));
        }
    }
    if drop_final {
        if let Some(last) = lines.last_mut() {
            let stripped = strip_term(last).to_vec();
            *last = stripped;
        }
    }
    lines.concat()
}

#[derive(Clone, Debug, PartialEq, Eq, Hash)]
struct Triple {
    base: Vec<u8>,
    ours: Vec<u8>,
    theirs: Vec<u8>,
    marker_size: usize,
    algorithm: u8,
    labels: bool,
    class: &'static str,
    touching: bool,
}

fn gen_triple(t: &mut Tape) -> Triple {
    let marker_size = match t.weighted(&[4, 1, 1, 4]) {
        0 => 7,
        1 => 1,
        2 => 20,
        _ => t.range(1, 20),
    };
    let algorithm = t.below(3) as u8;
    let labels = !t.chance(50);
    let eol_of = |t: &mut Tape| [Eol::Lf, Eol::Lf, Eol::Lf, Eol::Crlf, Eol::Mixed][t.below(5)];
    let base_eol = eol_of(t);
    let n = match t.weighted(&[1, 9, 7, 3]) {
        0 => 0,
        1 => t.range(1, 6),
        2 => t.range(7, 20),
        _ => t.range(21, 40),
    };
    let base: Vec<Vec<u8>> = (0..n).map(|_| gen_line(t, base_eol, marker_size)).collect();
    let class = ["ours-is-base", "theirs-is-base", "same-change", "eol-conversion", "general"][t.weighted(&[8, 8, 10, 3, 71])];

    let side_eol = |t: &mut Tape| if t.chance(200) { base_eol } else { eol_of(t) };
    let ours_eol = side_eol(t);
    let theirs_eol = side_eol(t);
    let gen_ops = |t: &mut Tape, eol: Eol, near: &[Op]| -> Vec<Op> {
        let k = t.range(1, 4);
        let mut ops = Vec::new();
        for _ in 0..k {
            let pos = if !near.is_empty() && t.chance(150) {
                let o = &near[t.below(near.len())];
                match t.below(5) {
                    0 => o.pos.saturating_sub(1),
                    1 => o.pos,
                    2 => o.pos + 1,
                    3 => o.pos + o.del,
                    _ => (o.pos + o.del).saturating_sub(1),
                }
            } else {
                match t.weighted(&[2, 2, 8]) {
                    0 => 0,
                    1 => n,
                    _ => t.below(n + 1),
                }
            };
            ops.push(gen_op(t, &base, pos, eol, marker_size));
        }
        normalize(ops)
    };
    let ours_ops = if class == "ours-is-base" { vec![] } else { gen_ops(t, ours_eol, &[]) };
    let theirs_ops = match class {
        "theirs-is-base" => vec![],
        "same-change" => ours_ops.clone(),
        _ => gen_ops(t, theirs_eol, &ours_ops),
    };
    let touching = ours_ops
        .iter()
        .any(|o| theirs_ops.iter().any(|p| o.pos <= p.pos + p.del && p.pos <= o.pos + o.del));

    let ours_lines = apply(&base, &ours_ops);
    let mut theirs_lines = apply(&base, &theirs_ops);
    if class == "eol-conversion" {
        for l in theirs_lines.iter_mut() {
            let mut c = strip_term(l).to_vec();
            c.extend_from_slice(if base_eol == Eol::Crlf { b"\n" } else { b"\r\n" });
            *l = c;
        }
    }
    // missing final newline: decided per file, but identical files stay identical
    let drop_base = t.chance(50);
    let drop_ours = if class == "ours-is-base" { drop_base } else { t.chance(50) };
    let drop_theirs = match class {
        "theirs-is-base" => drop_base,
        "same-change" => drop_ours,
        _ => t.chance(50),
    };
    let base_text = finish_text(t, base.clone(), drop_base, base_eol);
    let mut ours_text = finish_text(t, ours_lines, drop_ours, ours_eol);
    let mut theirs_text = finish_text(t, theirs_lines, drop_theirs, theirs_eol);
    match class {
        "ours-is-base" => ours_text = base_text.clone(),
        "theirs-is-base" => theirs_text = base_text.clone(),
        "same-change" => theirs_text = ours_text.clone(),
        _ => {}
    }
    Triple {
        base: base_text,
        ours: ours_text,
        theirs: theirs_text,
        marker_size,
        algorithm,
        labels,
        class,
        touching,
    }
}

// ------------------------------------------------------------------------------------------------ running the merge

const L_OURS: &str = "OURS-label";
const L_BASE: &str = "BASE-label";
const L_THEIRS: &str = "THEIRS-label";

fn algorithm(a: u8) -> Algorithm {
    match a {
        0 => Algorithm::Myers,
        1 => Algorithm::MyersMinimal,
        _ => Algorithm::Histogram,
    }
}

fn labels(on: bool) -> Labels<'static> {
    if on {
        Labels {
            ancestor: Some(BStr::new(L_BASE)),
            current: Some(BStr::new(L_OURS)),
            other: Some(BStr::new(L_THEIRS)),
        }
    } else {
        Labels::default()
    }
}

/// one guarded call; a panic becomes `Err((signature, message))`
fn run_merge(ours: &[u8], base: &[u8], theirs: &[u8], tr: &Triple, conflict: Conflict) -> Result<(Vec<u8>, Resolution), (String, String)> {
    let result: RefCell<Option<(Vec<u8>, Resolution)>> = RefCell::new(None);
    let inner = vp::runner::run_case(
        &|_t: &mut Tape, _c: &mut Case| {
            let mut out = Vec::new();
            let mut input = InternedInput::new(&[][..], &[]);
            let res = gix_merge::blob::builtin_driver::text(
                &mut out,
                &mut input,
                labels(tr.labels),
                ours,
                base,
                theirs,
                Options {
                    diff_algorithm: algorithm(tr.algorithm),
                    conflict,
                },
            );
            *result.borrow_mut() = Some((out, res));
        },
        &[],
        false,
    );
    match inner.verdict {
        Verdict::Fail { sig, msg } => Err((sig, msg)),
        Verdict::Infra(m) => Err(("harness".into(), m)),
        _ => result.into_inner().ok_or_else(|| ("harness".into(), "no result".into())),
    }
}

fn lines_of(text: &[u8]) -> Vec<&[u8]> {
    text.split_inclusive(|b| *b == b'\n').collect()
}

fn marker_text(ch: u8, size: usize, label: Option<&str>) -> Vec<u8> {
    let mut v = vec![ch; size];
    if let Some(l) = label {
        v.push(b' ');
        v.extend_from_slice(l.as_bytes());
    }
    v
}

struct Markers {
    lt: Vec<u8>,
    pipe: Vec<u8>,
    eq: Vec<u8>,
    gt: Vec<u8>,
}

impl Markers {
    fn new(tr: &Triple, swapped: bool) -> Markers {
        let l = |s: &'static str| if tr.labels { Some(s) } else { None };
        let _ = swapped;
        Markers {
            lt: marker_text(b'<', tr.marker_size, l(L_OURS)),
            pipe: marker_text(b'|', tr.marker_size, l(L_BASE)),
            eq: marker_text(b'=', tr.marker_size, None),
            gt: marker_text(b'>', tr.marker_size, l(L_THEIRS)),
        }
    }
    fn is_marker(&self, content: &[u8]) -> bool {
        content == self.lt || content == self.pipe || content == self.eq || content == self.gt
    }
}

fn style_name(s: ConflictStyle) -> &'static str {
    match s {
        ConflictStyle::Merge => "merge",
        ConflictStyle::Diff3 => "diff3",
        ConflictStyle::ZealousDiff3 => "zdiff3",
    }
}

/// Replace every conflict block of a diff3-style output by its ours (or theirs) part.
fn resolve_blocks(out: &[u8], m: &Markers, take_ours: bool) -> Result<Vec<u8>, String> {
    #[derive(PartialEq)]
    enum S {
        Outside,
        Ours,
        Base,
        Theirs,
    }
    let mut st = S::Outside;
    let mut res = Vec::new();
    for line in lines_of(out) {
        let content = strip_term(line);
        match st {
            S::Outside => {
                if content == m.lt {
                    st = S::Ours;
                } else {
                    res.extend_from_slice(line);
                }
            }
            S::Ours => {
                if content == m.pipe {
                    st = S::Base;
                } else if take_ours {
                    res.extend_from_slice(line);
                }
            }
            S::Base => {
                if content == m.eq {
                    st = S::Theirs;
                }
            }
            S::Theirs => {
                if content == m.gt {
                    st = S::Outside;
                } else if !take_ours {
                    res.extend_from_slice(line);
                }
            }
        }
    }
    if st != S::Outside {
        return Err("unterminated conflict block".into());
    }
    Ok(res)
}

struct Failures {
    known: BTreeSet<String>,
    list: Vec<(String, String)>,
}

impl Failures {
    fn push(&mut self, sig: &str, msg: String) {
        if !self.list.iter().any(|(s, _)| s == sig) {
            self.list.push((sig.to_string(), msg));
        }
    }
    /// report the first failure whose class is not a known finding (so the search continues behind known ones)
    fn finish(self, c: &mut Case) {
        if let Some((_, msg)) = self.list.iter().find(|(s, _)| s == "harness") {
            // a panic in the harness itself is not a verdict about the code under test
            c.infra(msg.clone());
            return;
        }
        let pick = self
            .list
            .iter()
            .find(|(s, _)| !self.known.contains(s))
            .or_else(|| self.list.first());
        if let Some((sig, msg)) = pick {
            c.fail_sig(sig, msg.clone());
        }
    }
}

fn known_signatures() -> BTreeSet<String> {
    let mut out = BTreeSet::new();
    let p = std::path::Path::new(vp::runner::VERIF_ROOT).join("known_findings.json");
    if let Ok(s) = std::fs::read_to_string(p) {
        if let Ok(v) = serde_json::from_str::<serde_json::Value>(&s) {
            if let Some(a) = v["findings"].as_array() {
                for e in a {
                    if e["property"].as_str() == Some("C45") && e["status"].as_str() == Some("known") {
                        if let Some(sig) = e["signature"].as_str() {
                            out.insert(sig.to_string());
                        }
                    }
                }
            }
        }
    }
    out
}

fn show_triple(tr: &Triple) -> String {
    format!(
        "base={:?} ours={:?} theirs={:?} marker_size={} algorithm={:?} labels={}",
        tr.base.as_bstr(),
        tr.ours.as_bstr(),
        tr.theirs.as_bstr(),
        tr.marker_size,
        algorithm(tr.algorithm),
        tr.labels
    )
}

fn mode_name(conflict: Conflict) -> String {
    match conflict {
        Conflict::Keep { style, .. } => format!("keep/{}", style_name(style)),
        Conflict::ResolveWithOurs => "ours".into(),
        Conflict::ResolveWithTheirs => "theirs".into(),
        Conflict::ResolveWithUnion => "union".into(),
    }
}

fn check_triple(tr: &Triple, c: &mut Case, known: &BTreeSet<String>) -> Failures {
    let mut f = Failures {
        known: known.clone(),
        list: Vec::new(),
    };
    let markers = Markers::new(tr, false);
    let input_lines: BTreeSet<&[u8]> = lines_of(&tr.base)
        .into_iter()
        .chain(lines_of(&tr.ours))
        .chain(lines_of(&tr.theirs))
        .collect();
    let input_contents: BTreeSet<&[u8]> = input_lines.iter().map(|l| strip_term(l)).collect();
    let all_terminated = [&tr.base, &tr.ours, &tr.theirs]
        .iter()
        .all(|x| x.is_empty() || x.ends_with(b"\n"));
    let ambiguous = input_contents.iter().any(|l| markers.is_marker(l));
    c.label_if(ambiguous, "input-contains-this-marker");
    c.label_if(!all_terminated, "missing-final-newline");
    c.label_if(
        tr.base.contains_str("\r\n") || tr.ours.contains_str("\r\n") || tr.theirs.contains_str("\r\n"),
        "crlf",
    );
    c.label_if(tr.base.is_empty() || tr.ours.is_empty() || tr.theirs.is_empty(), "empty-file");

    let keep = |style| Conflict::Keep {
        style,
        marker_size: tr.marker_size,
    };
    let modes = [
        keep(ConflictStyle::Merge),
        keep(ConflictStyle::Diff3),
        keep(ConflictStyle::ZealousDiff3),
        Conflict::ResolveWithOurs,
        Conflict::ResolveWithTheirs,
        Conflict::ResolveWithUnion,
    ];
    let mut results: Vec<Option<(Vec<u8>, Resolution)>> = Vec::new();
    for conflict in modes {
        let name = mode_name(conflict);
        match run_merge(&tr.ours, &tr.base, &tr.theirs, tr, conflict) {
            Err((sig, msg)) => {
                f.push(&sig, format!("[{name}] {msg}; {}", show_triple(tr)));
                results.push(None);
            }
            Ok((out, res)) => {
                // identities
                let expect = if tr.ours == tr.base {
                    Some(("ours == base", &tr.theirs))
                } else if tr.theirs == tr.base {
                    Some(("theirs == base", &tr.ours))
                } else if tr.ours == tr.theirs {
                    Some(("ours == theirs", &tr.ours))
                } else {
                    None
                };
                if let Some((why, want)) = expect {
                    if &out != want || res != Resolution::Complete {
                        let kind = match why {
                            "ours == theirs" => "identity-same-change",
                            _ => "identity-one-side-unchanged",
                        };
                        let shape = if &out == want {
                            "verdict-only"
                        } else if out.strip_suffix(b"\n").map(|o| o.strip_suffix(b"\r").unwrap_or(o)) == Some(want.as_slice())
                            && !want.ends_with(b"\n")
                        {
                            "final-newline-added"
                        } else {
                            "content"
                        };
                        let sig = format!("{kind}:{name}:{shape}");
                        f.push(
                            &sig,
                            format!(
                                "[{name}] {why} but the result is {res:?} {:?}, expected Complete {:?}; {}",
                                out.as_bstr(),
                                want.as_bstr(),
                                show_triple(tr)
                            ),
                        );
                    }
                }
                match conflict {
                    Conflict::Keep { style, .. } => {
                        let contents: Vec<&[u8]> = lines_of(&out).into_iter().map(strip_term).collect();
                        match res {
                            Resolution::Complete => {
                                if let Some(l) = contents.iter().find(|l| markers.is_marker(l) && !input_contents.contains(*l)) {
                                    f.push(
                                        "marker-in-conflict-free-result",
                                        format!(
                                            "[{name}] result is Complete but contains the inserted marker line {:?}: {:?}; {}",
                                            l.as_bstr(),
                                            out.as_bstr(),
                                            show_triple(tr)
                                        ),
                                    );
                                }
                            }
                            Resolution::Conflict => {
                                let has = |m: &Vec<u8>| contents.iter().any(|l| l == m);
                                let need_pipe = style != ConflictStyle::Merge;
                                if !(has(&markers.lt) && has(&markers.eq) && has(&markers.gt) && (!need_pipe || has(&markers.pipe))) {
                                    f.push(
                                        "conflict-without-markers",
                                        format!(
                                            "[{name}] result is Conflict but lacks a complete set of marker lines: {:?}; {}",
                                            out.as_bstr(),
                                            show_triple(tr)
                                        ),
                                    );
                                }
                            }
                        }
                        if all_terminated {
                            if let Some(l) = lines_of(&out)
                                .into_iter()
                                .find(|l| !input_lines.contains(l) && !markers.is_marker(strip_term(l)))
                            {
                                f.push(
                                    "invented-line",
                                    format!(
                                        "[{name}] output line {:?} is neither a line of an input nor a marker: {:?}; {}",
                                        l.as_bstr(),
                                        out.as_bstr(),
                                        show_triple(tr)
                                    ),
                                );
                            }
                        }
                    }
                    _ => {
                        if res != Resolution::Complete {
                            f.push(
                                "resolving-mode-reports-conflict",
                                format!("[{name}] a resolving mode reports {res:?}; {}", show_triple(tr)),
                            );
                        }
                        if all_terminated {
                            if let Some(l) = lines_of(&out).into_iter().find(|l| !input_lines.contains(l)) {
                                f.push(
                                    "invented-line",
                                    format!(
                                        "[{name}] output line {:?} is not a line of any input: {:?}; {}",
                                        l.as_bstr(),
                                        out.as_bstr(),
                                        show_triple(tr)
                                    ),
                                );
                            }
                        }
                    }
                }
                results.push(Some((out, res)));
            }
        }
    }

    let conflicted = results
        .iter()
        .take(3)
        .any(|r| matches!(r, Some((_, Resolution::Conflict))));
    c.label_if(conflicted, "conflict");
    c.label_if(!conflicted && tr.touching, "touching-but-clean");

    // R2: the side-resolutions against the diff3-style marker output
    if all_terminated && !ambiguous {
        if let Some((diff3_out, _)) = &results[1] {
            for (idx, take_ours, side) in [(3usize, true, "ours"), (4usize, false, "theirs")] {
                let Some((resolved, _)) = &results[idx] else { continue };
                match resolve_blocks(diff3_out, &markers, take_ours) {
                    Err(e) => f.push(
                        "malformed-conflict-block",
                        format!("[keep/diff3] {e}: {:?}; {}", diff3_out.as_bstr(), show_triple(tr)),
                    ),
                    Ok(expected) => {
                        if &expected != resolved {
                            f.push(
                                &format!("{side}-resolution-differs-from-conflict-side"),
                                format!(
                                    "[{side}] resolution {:?} differs from the diff3-style output with each conflict replaced by its {side} part {:?} (diff3 output {:?}); {}",
                                    resolved.as_bstr(),
                                    expected.as_bstr(),
                                    diff3_out.as_bstr(),
                                    show_triple(tr)
                                ),
                            );
                        }
                    }
                }
            }
        }
    }

    // S1: swapping the sides keeps the verdict
    for (i, style) in [ConflictStyle::Merge, ConflictStyle::Diff3, ConflictStyle::ZealousDiff3]
        .into_iter()
        .enumerate()
    {
        let Some((_, res)) = &results[i] else { continue };
        match run_merge(&tr.theirs, &tr.base, &tr.ours, tr, keep(style)) {
            Err((sig, msg)) => f.push(&sig, format!("[keep/{} swapped] {msg}; {}", style_name(style), show_triple(tr))),
            Ok((out_swapped, res_swapped)) => {
                // not stated by the property: recorded as evidence only
                let _ = out_swapped;
                if &res_swapped != res {
                    c.label("verdict-depends-on-side-order");
                }
            }
        }
    }
    f
}

/// Developer aid (never used by ./check): `C45_SURVEY=<cases> c45` tallies every failure class over pseudo-random tapes
/// and prints the smallest example of each, to see all classes at once instead of one per run.
fn survey(cases: u64, known: &BTreeSet<String>) {
    let mut state = 0x9e3779b97f4a7c15u64;
    let mut tally: std::collections::BTreeMap<String, (u64, String, Vec<u8>, usize)> = Default::default();
    for _ in 0..cases {
        let len = 40 + (state % 300) as usize;
        let mut tape = Vec::with_capacity(len);
        for _ in 0..len {
            state ^= state << 13;
            state ^= state >> 7;
            state ^= state << 17;
            tape.push((state >> 32) as u8);
        }
        let mut t = Tape::new(&tape);
        let tr = gen_triple(&mut t);
        let mut c = Case::new(false);
        let f = check_triple(&tr, &mut c, known);
        for (i, (sig, msg)) in f.list.into_iter().enumerate() {
            // prefer examples in which the class is the one that would be reported (first of the case)
            let weight = msg.len() + if i == 0 { 0 } else { 100_000 };
            let e = tally.entry(sig).or_insert((0, msg.clone(), tape.clone(), usize::MAX));
            e.0 += 1;
            if weight < e.3 {
                e.1 = msg;
                e.2 = tape.clone();
                e.3 = weight;
            }
        }
    }
    for (sig, (n, msg, tape, _)) in tally {
        println!("{n:>7}  {sig}\n         {}\n         tape {}", &msg[..msg.len().min(900)], hex(&tape));
    }
}

pub fn main() {
    if let Ok(n) = std::env::var("C45_SURVEY") {
        survey(n.parse().unwrap_or(20_000), &known_signatures());
        return;
    }
    let mut ck = Check::new("C45", "exploration");
    ck.rule("Triples (base, ours, theirs): base of 0..40 lines over a small alphabet (single letters so that lines repeat, empty lines, two-word lines, lines that look like conflict markers of the current/default/random size), ours and theirs = base after 1..4 line operations each (insert/delete/replace/duplicate at start, end, random positions; theirs' operations are placed next to, on, or overlapping ours' with fixed probability); LF / CRLF / mixed line endings per file, final newline missing per file, empty files; fixed classes ours==base, theirs==base, same change on both sides, whole-file eol conversion; marker sizes 1..20 (7, 1, 20 boosted), all three diff algorithms, labels on/off; all six conflict modes are run on every triple. Non-trivial: both sides changed overlapping or adjacent base ranges. Distinct by hash of the triple and options.");
    ck.assume("algebraic oracle only (no external program decides a verdict); 'line' = maximal run of bytes ending in LF; the clause about ours/theirs resolutions is checked as: equal to the diff3-style marker output with each conflict replaced by the chosen side's part (only when all inputs end in a newline and no input line equals one of the four marker lines)");
    let known = known_signatures();

    let known1 = known.clone();
    ck.sub("triples", SubCfg::new(100_000, 3_000_000).max_len(500).max_shrink(2000), move |t, c| {
        let tr = gen_triple(t);
        c.key(&tr);
        c.label(tr.class);
        c.label_if(tr.touching, "touching-edits");
        c.nontrivial(tr.touching && tr.class == "general");
        c.sample_with(|| show_triple(&tr));
        check_triple(&tr, c, &known1).finish(c);
    });

    // evidence only: agreement with `git merge-file -p` (labels), never a verdict
    ck.sub("git-agreement", SubCfg::new(400, 6_000).max_len(500).max_shrink(10), |t, c| {
        let mut tr = gen_triple(t);
        tr.labels = true;
        tr.algorithm = if tr.algorithm == 2 { 2 } else { 0 };
        c.key(&tr);
        c.nontrivial(tr.touching);
        let mode = t.below(6);
        let (conflict, args): (Conflict, Vec<&str>) = match mode {
            0 => (
                Conflict::Keep {
                    style: ConflictStyle::Merge,
                    marker_size: tr.marker_size,
                },
                vec![],
            ),
            1 => (
                Conflict::Keep {
                    style: ConflictStyle::Diff3,
                    marker_size: tr.marker_size,
                },
                vec!["--diff3"],
            ),
            2 => (
                Conflict::Keep {
                    style: ConflictStyle::ZealousDiff3,
                    marker_size: tr.marker_size,
                },
                vec!["--zdiff3"],
            ),
            3 => (Conflict::ResolveWithOurs, vec!["--ours"]),
            4 => (Conflict::ResolveWithTheirs, vec!["--theirs"]),
            _ => (Conflict::ResolveWithUnion, vec!["--union"]),
        };
        let Ok((out, res)) = run_merge(&tr.ours, &tr.base, &tr.theirs, &tr, conflict) else {
            c.label("gitoxide-panicked");
            return;
        };
        let scratch = infra!(c, Scratch::new("c45"), "scratch");
        for (name, data) in [("ours", &tr.ours), ("base", &tr.base), ("theirs", &tr.theirs)] {
            infra!(c, std::fs::write(scratch.join(name), data), "write input");
        }
        let git = Git::new(&scratch.path, &scratch.path);
        let mut cmd: Vec<String> = vec!["merge-file".into(), "-p".into(), format!("--marker-size={}", tr.marker_size)];
        cmd.extend(args.iter().map(|s| s.to_string()));
        if tr.algorithm == 2 {
            // git 2.39 has no --diff-algorithm for merge-file: histogram results are compared with git's myers
            c.label("histogram-vs-git-myers");
        }
        for l in [L_OURS, L_BASE, L_THEIRS] {
            cmd.push("-L".into());
            cmd.push(l.into());
        }
        cmd.extend(["ours", "base", "theirs"].iter().map(|s| s.to_string()));
        let o = infra!(c, git.output(&cmd, None).map_err(|e| e.to_string()), "git merge-file");
        let code = o.status.code().unwrap_or(-1);
        if !(0..=127).contains(&code) {
            c.infra(format!("git merge-file failed: {}", String::from_utf8_lossy(&o.stderr)));
            return;
        }
        let git_conflict = code > 0;
        c.label(if o.stdout == out { "git-agrees-bytes" } else { "git-differs-bytes" });
        c.label(if git_conflict == (res == Resolution::Conflict) {
            "git-agrees-verdict"
        } else {
            "git-differs-verdict"
        });
    });

    ck.finish();
}
